"""Hyper-V VMCX / VMRS ("HyperVStorage") serializer and independent decoder.  struct only.

Layout (as documented in dissect/hypervisor/descriptor/hyperv.py and observed in both repository fixtures):
 0x0000 / 0x1000 header  <IIHIQIQQI : signature 0x01282014, checksum, u16 sequence, version 0x400, unknown, alignment,
          replay log offset, replay log size, header size.  The header with the higher sequence number is active.
 replay log  <IIIBIIIIIB : signature 0x01110003, checksum, num_entries, ...
 0x2000 object table  <II signature 0x01110001, num_entries ; entries <BIQIB : type (1 object table, 2 key table, 3 file,
          4 free, 6 replay log), checksum, offset, size, allocated.
 key table  <HHHI : signature 2, index, sequence, checksum ; entries  <HIHIIIB : type | flags << 8, size, parent table
          index, parent entry offset (within its table), checksum, insertion sequence, data offset (= len(key)+1) ;
          then key UTF-8 NUL, then the value.  Types: 1 free, 3 int64, 4 uint64, 5 double, 6 string (u32 byte length +
          UTF-16-LE), 7 array (u32 length + bytes), 8 bool (u32), 9 node (12 bytes).  Flag 0x01: the value is a file
          object pointer <IQ size, absolute offset> and the bytes live in a type-3 object (used for values >= 0x800 bytes).
          Table indices start at 1; parent (0, 0) = root.  Among tables with the same index the highest sequence wins.
"""
from __future__ import annotations

import struct

T_FREE, T_INT, T_UINT, T_DBL, T_STR, T_ARR, T_BOOL, T_NODE = 1, 3, 4, 5, 6, 7, 8, 9
HDR = "<IIHIQIQQI"
ENT = "<HIHIIIB"


def header(seq, replay_off, version=0x400, sig=0x01282014):
    return struct.pack(HDR, sig, 0, seq, version, 0, 0x1000, replay_off, 0x1000, 0x1000)


def replay(sig=0x01110003):
    return struct.pack("<IIIBIIIIIB", sig, 0, 0, 0, 0x91, 0, 0, 0, 0, 0)


def objtable(entries, n=None, sig=0x01110001, holes=0):
    """holes: number of unallocated slots (allocated == 0; every second one still names a stale key-table entry) put in
    front of / between the entries -- slots are not necessarily handed out front to back."""
    if holes:
        mixed = []
        for i, e in enumerate(entries):
            for h in range(holes if i < 2 else 1):
                mixed.append((2, 0xDEAD000, 0x1000, 0) if (i + h) % 2 else (4, 0, 0, 0))
            mixed.append(e)
        entries = mixed
    n = n if n is not None else max(len(entries) + 2, 8)
    b = struct.pack("<II", sig, n)
    for (t, off, size, alloc) in entries:
        b += struct.pack("<BIQIB", t, 0, off, size, alloc)
    b += b"".join(struct.pack("<BIQIB", 4, 0, 0, 0, 0) for _ in range(n - len(entries)))
    return b


def enc_value(t, v):
    if t == T_NODE:
        return struct.pack("<QI", 0, 0)
    if t == T_INT:
        return struct.pack("<q", v)
    if t == T_UINT:
        return struct.pack("<Q", v)
    if t == T_DBL:
        return struct.pack("<d", v)
    if t == T_BOOL:
        return struct.pack("<I", 1 if v else 0)
    if t == T_STR:
        b = v.encode("utf-16-le")
        return struct.pack("<I", len(b)) + b
    if t == T_ARR:
        return struct.pack("<I", len(v)) + v
    raise ValueError(t)


def flatten(tree):
    """tree: {key: (type, value)} with node values being dicts -> preorder list of dicts with parent indices."""
    out = []

    def walk(d, parent):
        for k, (t, v) in d.items():
            e = {"key": k, "type": t, "value": v, "parent": parent}
            out.append(e)
            if t == T_NODE:
                walk(v, len(out) - 1)

    walk(tree, None)
    return out


def plain(tree):
    return {k: (plain(v) if t == T_NODE else v) for k, (t, v) in tree.items()}


def build(tree, placement=None, ntables=1, table_order="fwd", free_at=None, seqs=(7, 6), stale=None, table_seq=5,
          second_object_table=False, fileobj_threshold=0x800, version=0x400, slack=4, stale_tree=None,
          stale_positions=None, fileobj_base=0x40000, fileobj_gap=0, as_image=False, extra_flags=0, object_table_chain=0,
          chain_shape="chain", extra_replay_log=False, holes=0, free_size=32, free_only_tables=(), free_flags=0):
    """placement: list (per preorder entry) of table index 1..ntables (default round-robin).
    table_order: 'fwd' | 'rev' order of the entries inside each table (rev puts children before parents).
    free_at: set of global positions before which a Free entry is inserted.
    stale: {table index: sequence of a competing stale copy}; the stale copy encodes `stale_tree` (same shape, other values).
    extra_flags: bits ORed into the flag byte of every value entry (real files carry 0x02 on part of their entries).
    object_table_chain: k > 0 distributes the object entries round-robin over the first object table and k further ones at
        0x3000, 0x4000, ...; chain_shape 'chain' links them first -> A -> B ..., 'fan' lists all of them in the first table,
        'tail' is a chain whose link is the last entry of each table.  extra_replay_log lists a second replay log (0x9000)
        in the deepest table.
    """
    ents = flatten(tree)
    n = len(ents)
    placement = placement or [(i % ntables) + 1 for i in range(n)]
    for e, tb in zip(ents, placement):
        e["table"] = tb
    fileobjs = []
    next_fo = [fileobj_base]

    def raw_of(e, values):
        t = e["type"]
        v = values[e["idx"]] if values is not None else e["value"]
        flags = 0
        raw = enc_value(t, v)
        if t in (T_STR, T_ARR) and len(raw) - 4 >= fileobj_threshold:
            data = raw[4:]
            off = next_fo[0]
            asz = (len(data) + 0xFFF) & ~0xFFF
            next_fo[0] += asz + fileobj_gap
            fileobjs.append((off, asz, data))
            raw = struct.pack("<IQ", len(data), off)
            flags = 1
        if t != T_NODE:
            flags |= extra_flags
        return raw, flags

    for i, e in enumerate(ents):
        e["idx"] = i
    # order inside tables
    per_table = {t: [e for e in ents if e["table"] == t] for t in range(1, ntables + 1)}
    if table_order == "rev":
        per_table = {t: es[::-1] for t, es in per_table.items()}
    free_at = free_at or set()

    def layout(values):
        """-> {table: bytes}; assigns e['off'] (identical for every value set: sizes depend on the shape only if the
        value sizes match, which stale copies guarantee by construction)."""
        seq = []
        cur = {t: 10 for t in per_table}
        pos = 0
        items = {t: [] for t in per_table}
        for t, es in per_table.items():
            for e in es:
                if pos in free_at:
                    # "alias": the entry behind the Free entry lands at 0x10000 + the offset of the table's first entry
                    fs = max(32, 0x1000A - cur[t]) if free_size == "alias" else free_size
                    items[t].append(("free", fs))
                    cur[t] += fs
                pos += 1
                raw, flags = raw_of(e, values)
                kb = e["key"].encode("utf-8") + b"\0"
                size = 21 + len(kb) + len(raw) + (slack if e["type"] != T_NODE else 0)
                e["off"] = cur[t]
                cur[t] += size
                items[t].append((e, raw, flags, kb, size))
        tabs = {}
        for t, its in items.items():
            b = bytearray()
            for it in its:
                if it[0] == "free":
                    # a freed entry may keep the flag byte (and parent / key bytes) of the value it held
                    b += (struct.pack(ENT, T_FREE | (free_flags << 8), it[1], 1 if free_flags else 0, 10 if free_flags else 0, 0, 0,
                                      6 if free_flags else 0) + (b"stale\0" + struct.pack("<IQ", 0x900, 0x7000) if free_flags else b"")
                          ).ljust(it[1], b"\xEE")
                    continue
                e, raw, flags, kb, size = it
                p = ents[e["parent"]] if e["parent"] is not None else None
                hdr = struct.pack(ENT, e["type"] | (flags << 8), size, p["table"] if p else 0, p["off"] if p else 0, 0,
                                  e["idx"] + 1, len(kb))
                b += (hdr + kb + raw).ljust(size, b"\0")
            tabs[t] = bytes(b)
        return tabs

    # two passes so that parent offsets (possibly later in the table) are known
    layout(None)
    active = layout(None)
    for t in free_only_tables:
        # the current copy of this table holds nothing but one Free entry (all its keys were deleted)
        n_ = max(32, len(active[t]))
        active[t] = struct.pack(ENT, T_FREE, n_, 0, 0, 0, 0, 0).ljust(n_, b"\xEE")
    img = bytearray(0x40000)
    h1, h2 = header(seqs[0], 0x8000, version), header(seqs[1], 0x8000, version)
    img[0:len(h1)] = h1
    img[0x1000:0x1000 + len(h2)] = h2
    r = replay()
    img[0x8000:0x8000 + len(r)] = r
    oe = []
    where = 0x10000
    placed_tabs = []
    for t in sorted(active):
        body = struct.pack("<HHHI", 2, t, table_seq, 0) + active[t]
        size = (len(body) + 0xFFF) & ~0xFFF
        placed_tabs.append((where, size, body))
        where += size
    if stale:
        def stale_tables(tr):
            st_ents = flatten(tr)
            vals = [e["value"] for e in st_ents]
            layout(vals)
            st_ = layout(vals)
            layout(None)  # restore the offsets of the active layout
            return st_

        default_st = stale_tables(stale_tree) if stale_tree is not None else None
        n_ins = 0
        for t, sqs in stale.items():
            for item in (sqs if isinstance(sqs, (list, tuple)) else [sqs]):
                sq, st = (item[0], stale_tables(item[1])) if isinstance(item, (list, tuple)) else (item, default_st)
                body = struct.pack("<HHHI", 2, t, sq, 0) + st[t]
                size = (len(body) + 0xFFF) & ~0xFFF
                # stale copies are listed before, between and after the active ones
                pos = [0, len(placed_tabs), len(placed_tabs) // 2][n_ins % 3] if stale_positions is None else \
                    min(stale_positions[n_ins % len(stale_positions)], len(placed_tabs))
                placed_tabs.insert(pos, (where, size, body))
                where += size
                n_ins += 1
    for off, size, body in placed_tabs:
        if len(img) < off + size:
            img.extend(b"\0" * (off + size - len(img)))
        img[off:off + len(body)] = body
        oe.append((2, off, size, 1))
    high = []
    for off, asz, data in fileobjs:
        if as_image:
            high.append((off, asz, data))
        else:
            if len(img) < off + asz:
                img.extend(b"\0" * (off + asz - len(img)))
            img[off:off + len(data)] = data
        oe.append((3, off, asz, 1))
    if holes:
        # released slots that still describe a file object: same offset as a live one, the (smaller) size it had before it grew
        oe = [(3, off, 0x800, 0) for off, asz, data in fileobjs[:1]] + oe + [(3, off, 0x800, 0) for off, asz, data in fileobjs]
    if extra_replay_log:
        r2 = replay()
        img[0x9000:0x9000 + len(r2)] = r2
        oe.append((6, 0x9000, 0x1000, 1))
    if object_table_chain:
        k = object_table_chain
        assert 1 <= k <= 5
        shares = [oe[i::k + 1] for i in range(k + 1)]
        offs = [0x2000] + [0x3000 + 0x1000 * i for i in range(k)]
        for i in range(k + 1):
            links = []
            if chain_shape == "fan":
                links = [(1, o, 0x1000, 1) for o in offs[1:]] if i == 0 else []
            elif i < k:
                links = [(1, offs[i + 1], 0x1000, 1)]
            ents_i = (shares[i] + links) if chain_shape == "tail" else (links + shares[i])
            tb = objtable(ents_i, holes=holes)
            assert len(tb) <= 0x1000
            img[offs[i]:offs[i] + len(tb)] = tb
        ot = b""
    elif second_object_table:
        half = len(oe) // 2
        first, second = oe[:half], oe[half:]
        ot2 = objtable(second, holes=holes)
        img[0x3000:0x3000 + len(ot2)] = ot2
        ot = objtable(first + [(1, 0x3000, 0x1000, 1)], holes=holes)
    else:
        ot = objtable(oe, holes=holes)
    img[0x2000:0x2000 + len(ot)] = ot
    if as_image:
        from mc import pattern
        from mc.vfile import Image

        out = Image("hyperv")
        out.put(0, bytes(img))
        for off, asz, data in high:
            out.put(off, data, meta=False)
            if asz > len(data):
                out.put_pattern(off + len(data), asz - len(data), pattern.SLACK, off)
        return out
    return bytes(img)


def decode(data: bytes):
    """Independent decoder -> plain tree (dict)."""
    hs = [struct.unpack_from(HDR, data, o) for o in (0, 0x1000)]
    h = hs[0] if hs[0][2] > hs[1][2] else hs[1]
    assert h[0] == 0x01282014 and h[3] == 0x400
    tables = {}
    files = {}
    queue = [0x2000]
    seen = set()
    while queue:
        o = queue.pop(0)
        if o in seen:
            continue
        seen.add(o)
        sig, n = struct.unpack_from("<II", data, o)
        assert sig == 0x01110001
        for i in range(n):
            t, _, off, size, alloc = struct.unpack_from("<BIQIB", data, o + 8 + 18 * i)
            if not alloc:
                continue
            if t == 1:
                queue.append(off)
            elif t == 2:
                s2, idx, seq, _ = struct.unpack_from("<HHHI", data, off)
                assert s2 == 2
                if idx not in tables or tables[idx][0] < seq:
                    tables[idx] = (seq, off, size)
            elif t == 3:
                files[off] = size
    entries = {}
    for idx, (seq, off, size) in tables.items():
        pos = 10
        while pos < size:
            typ, esz, ptab, poff, _, ins, doff = struct.unpack_from(ENT, data, off + pos)
            if esz == 0:
                break
            entries[(idx, pos)] = (typ, esz, ptab, poff, doff, off + pos + 21)
            pos += esz
    root = {}
    nodes = {}

    def value(typ, flags, raw):
        if flags & 1:
            size, foff = struct.unpack_from("<IQ", raw, 0)
            assert foff in files
            body = data[foff:foff + size]
        elif typ in (T_STR, T_ARR):
            ln, = struct.unpack_from("<I", raw, 0)
            body = raw[4:4 + ln]
        else:
            body = raw
        if typ == T_INT:
            return struct.unpack_from("<q", body)[0]
        if typ == T_UINT:
            return struct.unpack_from("<Q", body)[0]
        if typ == T_DBL:
            return struct.unpack_from("<d", body)[0]
        if typ == T_BOOL:
            return struct.unpack_from("<I", body)[0] != 0
        if typ == T_STR:
            return bytes(body).decode("utf-16-le")
        if typ == T_ARR:
            return bytes(body)
        raise ValueError(typ)

    for key, (typ, esz, ptab, poff, doff, dpos) in entries.items():
        if typ & 0xFF == T_NODE:
            nodes[key] = {}
    for key, (typ, esz, ptab, poff, doff, dpos) in entries.items():
        t = typ & 0xFF
        if t == T_FREE:
            continue
        name = data[dpos:dpos + doff - 1].decode("utf-8")
        val = nodes[key] if t == T_NODE else value(t, typ >> 8, data[dpos + doff:dpos - 21 + esz])
        (nodes[(ptab, poff)] if ptab else root)[name] = val
    return root


def selfvalidate():
    import os

    from mc.bootstrap import repo_root

    n = 0
    p = os.path.join(repo_root(), "tests/data/test.VMRS")
    if os.path.exists(p):
        t = decode(open(p, "rb").read())
        assert t["configuration"]["properties"] == {"version": 2304}
        assert t["configuration"]["_ac6b8dc1-3257-4a70-b1b2-a9c9215659ad_"] == {"VDEVVersion": 2048}
        m = t["configuration"]["global_settings"]["metrics"]["devicetype"]["deviceinstance"]["metric"]
        assert m["typecode"] == "4E1D459F-7861-46A4-887C-B64397C97E1B;0\\0\\L" and m["enabled"] is False and m["poolid"] == ""
        n += 1
    p = os.path.join(repo_root(), "tests/data/test.vmcx")
    if os.path.exists(p):
        t = decode(open(p, "rb").read())
        assert set(t) == {"configuration"} and len(t["configuration"]) == 27 and len(t["configuration"]["manifest"]) == 39
        assert len(t["configuration"]["properties"]) == 11 and len(t["configuration"]["settings"]) == 6
        n += 1
    tree = {"configuration": (T_NODE, {"properties": (T_NODE, {"version": (T_INT, 2304), "u": (T_UINT, 2 ** 64 - 1),
            "d": (T_DBL, 1.5), "b": (T_BOOL, True), "s": (T_STR, "héllo \U0001F98A"), "a": (T_ARR, b"\x01\x02"),
            "big": (T_STR, "x" * 0x400), "bigarr": (T_ARR, bytes(range(256)) * 9)}), "other": (T_NODE, {"k": (T_BOOL, False)})})}
    for nt in (1, 2, 3):
        for order in ("fwd", "rev"):
            for free in (None, {0, 3, 7}):
                for sot in (False, True):
                    assert decode(build(tree, ntables=nt, table_order=order, free_at=free, second_object_table=sot)) == plain(tree)
                    n += 1
        for k in (1, 2, 3, 5):
            for shape in ("chain", "fan", "tail"):
                assert decode(build(tree, ntables=nt, object_table_chain=k, chain_shape=shape, extra_replay_log=True,
                                    extra_flags=0x02, holes=k % 3)) == plain(tree)
                n += 1
        assert decode(build(tree, ntables=nt, free_at={1, 2}, free_size=0x10000 - 64, holes=2)) == plain(tree)
        n += 1
    return n
