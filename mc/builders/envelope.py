"""ESXi envelope (version 2) and key store serializer -- independent of the library (struct + PyCryptodome + hashlib).

 block 0 (4096 bytes): 0 magic "DataTransformEnvelope" | 504 u32 size (= block size - 512) | 508 u32 version 2 |
     512.. attribute records {u8 type, u8 flag, u16 reserved, name NUL, value} ... 4 NUL bytes terminator, zero padding.
     value by type: 1..4 u8/u16/u32/u64, 5..8 i8/i16/i32/i64, 9 float32, 10 float64, 11 NUL-terminated string,
     12 bytes with u64 length prefix.  Required: vmware.iv (bytes), vmware.keyInfo, vmware.cipherName, vmware.keyHash
     (= SHA-256(cipher name || key)).
 data: AES-256-GCM(key, nonce = vmware.iv, AAD = block 0 || caller AAD) over
     payload || padding || 4096-byte block whose last 512 bytes are the crypto footer
     {magic "DataTransformCryptoFooter" at 0, u32 padding at 504, u32 version 2 at 508}.
 last block (4096 bytes): AEAD footer {magic "DataTransformAeadFooter" at 0, tag at 32, u32 size 16 at 4088, u32 version 1}.
 key store (mode NONE): ConfigEncData = keyId=<b64>:data1=<b64>:data2=<b64>:version=1 (values %-escaped);
     key = PBKDF2-HMAC-SHA256(data1 || "This is obfuscation, not encryption. If you want encryption, use TPM.", salt data2, 100000).
"""
from __future__ import annotations

import base64
import hashlib
import struct
import uuid

from Crypto.Cipher import AES

BLOCK = 4096
FMT = {1: "<B", 2: "<H", 3: "<I", 4: "<Q", 5: "<b", 6: "<h", 7: "<i", 8: "<q", 9: "<f", 10: "<d"}
SALT = b"This is obfuscation, not encryption. If you want encryption, use TPM."


def pack_attr(t, flag, name, value):
    b = struct.pack("<BBH", t, flag, 0) + name.encode() + b"\0"
    if t == 11:
        b += value.encode() + b"\0"
    elif t == 12:
        b += struct.pack("<Q", len(value)) + value
    else:
        b += struct.pack(FMT[t], value)
    return b


def det(tag, n):
    """n deterministic pseudo-random bytes."""
    blocks = (n + 31) // 32
    return b"".join(hashlib.sha256(f"env/{tag}/{i}".encode()).digest() for i in range(blocks))[:n]


def standard_attrs(key, iv, key_info="7e62cec5-6aef-4d7e-838b-cae32eefd251", cipher="AES-256-GCM"):
    return [(12, 0, "vmware.iv", iv), (11, 0, "vmware.keyInfo", key_info), (11, 0, "vmware.cipherName", cipher),
            (12, 0, "vmware.keyHash", hashlib.sha256(cipher.encode() + key).digest())]


def header_block(attrs, version=2):
    ab = b"".join(pack_attr(*a) for a in attrs) + b"\0" * 4
    n = (512 + len(ab) + BLOCK - 1) // BLOCK * BLOCK
    hdr = bytearray(n)
    hdr[0:21] = b"DataTransformEnvelope"
    struct.pack_into("<II", hdr, 504, n - 512, version)
    hdr[512:512 + len(ab)] = ab
    return bytes(hdr), len(ab)


def build(payload, key, iv, attrs=None, aad=None, padding=0, footer_version=2, aead_version=1, version=2):
    attrs = attrs if attrs is not None else standard_attrs(key, iv)
    hdr, alen = header_block(attrs, version)
    foot = bytearray(det("footfill", BLOCK))
    foot[-512:] = b"DataTransformCryptoFooter".ljust(504, b"\0") + struct.pack("<II", padding, footer_version)
    pt = payload + det("padding", padding) + bytes(foot)
    c = AES.new(key, AES.MODE_GCM, nonce=iv)
    c.update(hdr)
    if aad:
        c.update(aad)
    ct, tag = c.encrypt_and_digest(pt)
    af = bytearray(BLOCK)
    af[0:23] = b"DataTransformAeadFooter"
    af[32:48] = tag
    struct.pack_into("<II", af, 4088, 16, aead_version)
    regions = {"header": (0, len(hdr)), "attrs": (512, 512 + alen - 4), "ciphertext": (len(hdr), len(hdr) + len(ct)),
               "tag": (len(hdr) + len(ct) + 32, len(hdr) + len(ct) + 48)}
    return hdr + ct + bytes(af), regions


def attr_byte_roles(attrs):
    """Per byte of the attribute record area: 'type' | 'flag' | 'reserved' | 'name' | 'value' (relative to offset 512)."""
    roles = []
    for t, flag, name, value in attrs:
        rec = pack_attr(t, flag, name, value)
        nlen = len(name.encode()) + 1
        roles += ["type", "flag", "reserved", "reserved"] + ["name"] * nlen + ["value"] * (len(rec) - 4 - nlen)
    return roles


def keystore_text(key_id: bytes, data1: bytes, data2: bytes, mode="NONE", style=0, extra=None, order=(0, 1, 2, 3)):
    esc = lambda b: base64.b64encode(b).decode().replace("=", "%3d")  # noqa: E731
    parts = [f"keyId={esc(key_id)}", f"data1={esc(data1)}", f"data2={esc(data2)}", "version=1"]
    ced = ":".join(parts[i] for i in order)
    lines = ['.encoding = "UTF-8"', 'includeKeyCache = "FALSE"']
    if mode is not None:
        lines.append(f'mode = "{mode}"')
    lines.append(f'ConfigEncData = "{ced}"')
    if style == 1:
        lines = ["# comment", ""] + lines[::-1] + ["", "# trailing"]
    elif style == 2:
        lines = [ln.replace(" = ", "=") for ln in lines]
    elif style == 3:
        lines = ["   " + ln + "   " for ln in lines]
    for k, v in (extra or []):
        lines.append(f'{k} = "{v}"')
    return "\n".join(lines) + "\n"


def derive_key(data1: bytes, data2: bytes) -> bytes:
    return hashlib.pbkdf2_hmac("sha256", data1 + SALT, data2, 100000)


def decode(data: bytes):
    """Independent decoder -> (attrs list, stored header block, ciphertext, tag)."""
    assert data[:21] == b"DataTransformEnvelope"
    size, version = struct.unpack_from("<II", data, 504)
    hlen = size + 512
    attrs = []
    pos = 512
    while True:
        t, flag, _ = struct.unpack_from("<BBH", data, pos)
        if t == 0:
            break
        pos += 4
        e = data.index(b"\0", pos)
        name = data[pos:e].decode()
        pos = e + 1
        if t == 11:
            e = data.index(b"\0", pos)
            val = data[pos:e].decode()
            pos = e + 1
        elif t == 12:
            n, = struct.unpack_from("<Q", data, pos)
            val = data[pos + 8:pos + 8 + n]
            pos += 8 + n
        else:
            val, = struct.unpack_from(FMT[t], data, pos)
            pos += struct.calcsize(FMT[t])
        attrs.append((t, flag, name, val))
    tag = data[-BLOCK + 32:-BLOCK + 48]
    return attrs, data[:hlen], data[hlen:-BLOCK], tag, version


def selfvalidate():
    import os

    from mc.bootstrap import repo_root

    n = 0
    ev = os.path.join(repo_root(), "tests/data/local.tgz.ve")
    ks = os.path.join(repo_root(), "tests/data/encryption.info")
    if os.path.exists(ev) and os.path.exists(ks):
        data = open(ev, "rb").read()
        attrs, hdr, ct, tag, version = decode(data)
        assert version == 2
        # this module's serializer reproduces the stored header block byte for byte
        assert header_block(attrs)[0] == hdr, "header re-serialisation differs from the fixture"
        kv = {}
        for line in open(ks).read().split("\n"):
            if line.startswith("ConfigEncData"):
                body = line.split("=", 1)[1].strip().strip('"')
                for part in body.split(":"):
                    k, _, v = part.partition("=")
                    if k != "version":
                        kv[k] = base64.b64decode(v.replace("%3d", "="))
        key = derive_key(kv["data1"], kv["data2"])
        a = {name: val for _, _, name, val in attrs}
        assert hashlib.sha256(a["vmware.cipherName"].encode() + key).digest() == a["vmware.keyHash"]
        c = AES.new(key, AES.MODE_GCM, nonce=a["vmware.iv"])
        c.update(hdr)
        c.update(b"ESXConfiguration")
        pt = c.decrypt_and_verify(ct, tag)
        assert pt[-512:-512 + 25] == b"DataTransformCryptoFooter"
        padding, fver = struct.unpack_from("<II", pt, len(pt) - 8)
        assert fver == 2 and len(pt) - BLOCK - padding == 94293
        assert keystore_text(kv["keyId"], kv["data1"], kv["data2"]).split("\n")[3] == open(ks).read().split("\n")[3]
        assert str(uuid.UUID(bytes=kv["keyId"])) == a["vmware.keyInfo"]
        n += 4
    key, iv = det("k", 32), det("iv", 12)
    for ln in (0, 1, 4095, 4096, 4097):
        img, _ = build(det("p", ln), key, iv, padding=ln % 7)
        attrs, hdr, ct, tag, _ = decode(img)
        c = AES.new(key, AES.MODE_GCM, nonce=iv)
        c.update(hdr)
        assert c.decrypt_and_verify(ct, tag)[:ln] == det("p", ln)
        n += 1
    return n
