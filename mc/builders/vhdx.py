"""VHDX serializer ([MS-VHDX] v20160714).  struct only -- GUIDs and layouts are transcribed from the specification.

 0       file type identifier  "vhdxfile" + UTF-16 creator (64 KiB slot)
 64 KiB  header 1, 128 KiB header 2 (4 KiB each): "head" | u32 CRC-32C | u64 sequence number | FileWriteGuid |
         DataWriteGuid | LogGuid | u16 LogVersion | u16 Version(1) | u32 LogLength | u64 LogOffset.
         The header with the higher sequence number (and a valid checksum) is the current one (2.2.2).
 192 KiB region table 1, 256 KiB region table 2 (64 KiB each): "regi" | u32 CRC-32C | u32 count | u32 reserved |
         entries {guid, u64 file offset, u32 length, u32 required}.  Known regions: BAT, Metadata.
 metadata region: "metadata" | u16 reserved | u16 count | 20 reserved | entries {item id, u32 offset, u32 length,
         u32 flags (bit0 IsUser, bit1 IsVirtualDisk, bit2 IsRequired), u32 reserved}; item data at >= 64 KiB.
 items:  File Parameters {u32 block size, u32 flags: bit0 LeaveBlockAllocated, bit1 HasParent}, Virtual Disk Size u64,
         Virtual Disk ID guid, Logical Sector Size u32, Physical Sector Size u32, Parent Locator
         {locator type guid, u16 reserved, u16 count, entries {u32 key off, u32 value off, u16 key len, u16 value len}},
         keys / values UTF-16-LE at offsets relative to the item.
 BAT:    u64 entries, state in bits 0-2, FileOffsetMB in bits 20-63.  chunk ratio = 2^23 * LogicalSectorSize / BlockSize;
         after every `ratio` payload entries follows one sector-bitmap entry.  Non-differencing: the BAT has
         PB + floor((PB-1)/ratio) entries; differencing: ceil(PB/ratio) * (ratio+1).
 sector bitmap block (1 MiB): bit (s mod 8), LSB first, of byte (s div 8), s = sector index within the chunk;
         1 = sector present in this file, 0 = read from the parent.
"""
from __future__ import annotations

import functools
import struct
import uuid

from mc import pattern
from mc.models import DATA, HOLE, ZERO, GuestDisk
from mc.vfile import Image, entries, entries1, slot_range

MB = 1 << 20
KB64 = 64 * 1024


def G(s):
    return uuid.UUID(s).bytes_le


BAT_GUID = G("2DC27766-F623-4200-9D64-115E9BFD4A08")
META_GUID = G("8B7CA206-4790-4B9A-B8FE-575F050F886E")
FILE_PARAMETERS = G("CAA16737-FA36-4D43-B3B6-33F0AA44E76B")
VIRTUAL_DISK_SIZE = G("2FA54224-CD1B-4876-B211-5DBED83BF4B8")
VIRTUAL_DISK_ID = G("BECA12AB-B2E6-4523-93EF-C309E000C746")
LOGICAL_SECTOR_SIZE = G("8141BF1D-A96F-4709-BA47-F233A8FAAB5F")
PHYSICAL_SECTOR_SIZE = G("CDA348C7-445D-4471-9CC9-E9885251C556")
PARENT_LOCATOR = G("A8D35F2D-B30B-454D-ABF7-D3D84834AB0C")
VHDX_LOCATOR_TYPE = G("B04AEFB7-D19E-4A81-B789-25B8E9445913")

# payload block states
NOT_PRESENT, UNDEFINED, ZERO_ST, UNMAPPED, FULL, PARTIAL = 0, 1, 2, 3, 6, 7

_crc_table = []
for _i in range(256):
    _c = _i
    for _ in range(8):
        _c = (_c >> 1) ^ 0x82F63B78 if _c & 1 else _c >> 1
    _crc_table.append(_c)


@functools.lru_cache(maxsize=256)
def crc32c(data: bytes) -> int:
    c = 0xFFFFFFFF
    for b in data:
        c = _crc_table[(c ^ b) & 0xFF] ^ (c >> 8)
    return c ^ 0xFFFFFFFF


def _with_crc(buf: bytes, total: int) -> bytes:
    buf = bytearray(buf.ljust(total, b"\0"))
    buf[4:8] = b"\0\0\0\0"
    struct.pack_into("<I", buf, 4, crc32c(bytes(buf)))
    return bytes(buf)


def header(seq, log_offset=MB, crc=True):
    raw = struct.pack("<4sIQ16s16s16sHHIQ", b"head", 0, seq, b"\x01" * 16, b"\x02" * 16, b"\0" * 16, 0, 1, MB, log_offset)
    return _with_crc(raw, 4096) if crc else raw.ljust(4096, b"\0")


def chunk_ratio(block_size, sector):
    return ((1 << 23) * sector) // block_size


def bat_index(block, ratio):
    return block + block // ratio


def sb_index(block, ratio):
    return (block // ratio + 1) * ratio + block // ratio


def locator_item(entries, locator_type=VHDX_LOCATOR_TYPE, order=None):
    """entries: list of (key, value) strings.  Key/value data laid out after the entry table, in `order` if given."""
    hdr = struct.pack("<16sHH", locator_type, 0, len(entries))
    table_len = 20 + 12 * len(entries)
    blobs = []
    for k, v in entries:
        blobs.append((k.encode("utf-16-le"), v.encode("utf-16-le")))
    idx = list(range(len(entries)))
    if order is not None and order != "shared":
        idx = list(order)
    pos = table_len
    where = {}
    data = b""
    if order == "shared":
        # every string is stored once; a string that is the beginning (or any aligned part) of one already stored points into it
        def place(b):
            nonlocal data
            at = data.find(b)
            while at >= 0 and at % 2:
                at = data.find(b, at + 1)
            if at < 0:
                at = len(data)
                data += b
            return table_len + at

        todo = sorted([(len(b), i, j) for i, kv in enumerate(blobs) for j, b in enumerate(kv)], reverse=True)
        offs = {}
        for _ln, i, j in todo:
            offs[(i, j)] = place(blobs[i][j])
        for i in range(len(entries)):
            where[i] = (offs[(i, 0)], offs[(i, 1)])
        idx = []
    for i in idx:
        kb, vb = blobs[i]
        where[i] = (pos, pos + len(kb))
        data += kb + vb
        pos += len(kb) + len(vb)
    tab = b""
    for i, (kb, vb) in enumerate(blobs):
        tab += struct.pack("<IIHH", where[i][0], where[i][1], len(kb), len(vb))
    return hdr + tab + data


def build(states, slots, block_size=MB, sector=512, size=None, layer=1, seqs=(7, 6), regions=("meta", "bat"),
          meta_mb=2, bat_mb=3, base_mb=None, bitmaps=None, parent=None, disk_id=b"\x11" * 16, nslots=None, label="vhdx",
          total_blocks=None, window_at=0, sb_slot_mb=None, name=None, leave_allocated=False, stale_offsets=False,
          extra_items=None, locator_at=None, locator_order=None, meta_len_mb=1, items_at=None):
    """meta_len_mb / items_at: length of the metadata region in MiB and the offset of the item area inside it (default 64 KiB;
    items may lie anywhere in the region behind the table).
    locator_at: position of the parent locator in the metadata table and in the item area (default: last); the item is then
    padded inside its own length to a multiple of 8, so that the next item is stored directly behind it.
    extra_items: [(where, guid16, data, flags)] further metadata items, where = 'first' | 'last'; flags bit 0 IsUser, bit 1
    IsVirtualDisk, bit 2 IsRequired.  An item is identified by (ItemId, IsUser); items a reader does not know are ignored
    unless IsRequired is set."""
    """states: per block of the *window* one of NOT_PRESENT/UNDEFINED/ZERO_ST/UNMAPPED/DATA('D')/PARTIAL.
    slots:   per block the physical slot (for DATA / PARTIAL blocks).
    window_at/total_blocks: the window sits at block `window_at` of a disk of `total_blocks` blocks (others NOT_PRESENT).
    bitmaps: {block index (absolute): list of 0/1 per sector of the block} for PARTIAL blocks.
    parent:  list of (key, value) locator entries -> differencing disk (HasParent).
    """
    W = len(states)
    nblocks = total_blocks or (window_at + W)
    if size is None:
        size = nblocks * block_size
    ratio = chunk_ratio(block_size, sector)
    spb = block_size // sector
    has_parent = parent is not None
    if has_parent:
        nbat = ((nblocks + ratio - 1) // ratio) * (ratio + 1)
    else:
        nbat = nblocks + (nblocks - 1) // ratio
    bat_len = (nbat * 8 + MB - 1) // MB * MB
    stride_mb = max(1, block_size // MB)
    if base_mb is None:
        base_mb = max(meta_mb + 1, bat_mb + bat_len // MB, 4)
    img = Image(label, name)
    # Creator: a diagnostic UTF-16 string; what follows its terminator is unspecified (here: stale text ending in an unpaired
    # surrogate), the field must not influence parsing
    img.put(0, b"vhdxfile" + "verif".encode("utf-16-le") + b"\0\0" + "stale creator".encode("utf-16-le") + b"\x3d\xd8" * 5)
    img.put(KB64, header(seqs[0]))
    img.put(2 * KB64, header(seqs[1]))
    items_at = KB64 if items_at is None else items_at
    ents = {"meta": struct.pack("<16sQII", META_GUID, meta_mb * MB, meta_len_mb * MB, 1),
            "bat": struct.pack("<16sQII", BAT_GUID, bat_mb * MB, bat_len, 1)}
    rt = struct.pack("<4sII4s", b"regi", 0, len(regions), b"") + b"".join(ents[r] for r in regions)
    rt = _with_crc(rt, KB64)
    img.put(3 * KB64, rt)
    img.put(4 * KB64, rt)
    # metadata
    items = [(FILE_PARAMETERS, struct.pack("<II", block_size, (2 if has_parent else 0) | (1 if leave_allocated else 0)), 4),
             (VIRTUAL_DISK_SIZE, struct.pack("<Q", size), 6), (VIRTUAL_DISK_ID, disk_id, 6),
             (LOGICAL_SECTOR_SIZE, struct.pack("<I", sector), 6), (PHYSICAL_SECTOR_SIZE, struct.pack("<I", 4096), 6)]
    if has_parent:
        if locator_at is None:
            items.append((PARENT_LOCATOR, locator_item(parent, order=locator_order), 4))
        else:
            li_ = locator_item(parent, order=locator_order)
            items.insert(locator_at, (PARENT_LOCATOR, li_ + b"\0" * ((-len(li_)) % 8), 4))
    n_std = len(items)
    for where, guid, data, flags in (extra_items or []):
        if where == "first":
            items.insert(0, (guid, data, flags))
        else:
            items.append((guid, data, flags))
    mt = struct.pack("<8s2sH20s", b"metadata", b"", len(items), b"")
    body = b""
    item_offsets = []
    for guid, data, flags in items:
        item_offsets.append(meta_mb * MB + items_at + len(body))
        mt += struct.pack("<16sIII", guid, items_at + len(body), len(data), flags) + b"\0" * 4
        body += data + b"\0" * ((-len(data)) % 8)
    img.put(meta_mb * MB, mt)
    img.put(meta_mb * MB + items_at, body)
    # BAT
    bat = {}
    used = {}
    for i, st, p in entries(states, slots):
        blk = window_at + i
        if st == DATA or st == PARTIAL:
            mb = base_mb + p * stride_mb
            bat[bat_index(blk, ratio)] = (FULL if st == DATA else PARTIAL) | (mb << 20)
            used[p] = blk
        else:
            e = st
            if stale_offsets:
                # FileOffsetMB of a block without data is reserved / left over from an earlier allocation (trimmed blocks keep
                # it): here it names the area directly behind the previous block's data, or the first slot
                prev = i - 1
                if prev >= 0 and states[prev] in (DATA, PARTIAL) and slots[prev] is not None:
                    e |= (base_mb + (slots[prev] + 1) * stride_mb) << 20
                else:
                    e |= base_mb << 20
            bat[bat_index(blk, ratio)] = e
    if nslots is None:
        nslots = max(used, default=-1) + 1
    end_mb = base_mb + (nslots + 1) * stride_mb
    bitmaps = bitmaps or {}
    sb_blocks = {}
    if has_parent:
        chunks = sorted({b // ratio for b in bitmaps})
        for n, ch in enumerate(chunks):
            mb = (sb_slot_mb if sb_slot_mb is not None else end_mb) + n
            sb_blocks[ch] = mb
            bat[sb_index(ch * ratio, ratio)] = 6 | (mb << 20)
    raw = bytearray(nbat * 8)
    for idx, v in bat.items():
        struct.pack_into("<Q", raw, idx * 8, v)
    # only the touched part of a huge BAT is materialised; the rest of the region is zeros (NOT_PRESENT)
    lo = min(bat) * 8 if bat else 0
    hi = (max(bat) + 1) * 8 if bat else 0
    img.put(bat_mb * MB + lo, bytes(raw[lo:hi]))
    img.meta_bytes += nbat * 8 - (hi - lo)
    # payload
    for p in slot_range(0, nslots + 1, used):
        off = (base_mb + p * stride_mb) * MB
        if p in used:
            blk = used[p]
            st = states[blk - window_at]
            if st == DATA:
                img.put_pattern(off, block_size, layer, blk * block_size)
            else:
                bm = bitmaps[blk]
                # present sectors hold this layer's pattern, absent ones hold slack (must never be returned); slack is
                # materialised only within 16 sectors of a present sector / the block edges (the rest stays sparse)
                ones = [i for i, b in enumerate(bm) if b]
                near = set()
                for lo_, hi_ in ([(min(ones) - 16, max(ones) + 16)] if ones else []) + [(0, 16), (spb - 16, spb)]:
                    near.update(range(max(0, lo_), min(spb, hi_ + 1)))
                s = 0
                while s < spb:
                    if not bm[s] and s not in near:
                        s += 1
                        continue
                    e = s
                    while e < spb and bm[e] == bm[s] and (bm[s] or e in near):
                        e += 1
                    if bm[s]:
                        img.put_pattern(off + s * sector, (e - s) * sector, layer, blk * block_size + s * sector)
                    else:
                        img.put_pattern(off + s * sector, (e - s) * sector, pattern.SLACK, off + s * sector)
                    s = e
        else:
            img.put_pattern(off, min(block_size, 4 * MB), pattern.SLACK, off)
    # sector bitmap blocks
    for ch, mb in sb_blocks.items():
        buf = bytearray(MB)
        first = last = None
        for blk, bm in bitmaps.items():
            if blk // ratio != ch:
                continue
            base = (blk % ratio) * spb
            for s, bit in enumerate(bm):
                if bit:
                    pos = (base + s) // 8
                    buf[pos] |= 1 << ((base + s) % 8)
                    first = pos if first is None or pos < first else first
                    last = pos if last is None or pos > last else last
        # materialise only the non-zero stretch
        if first is not None:
            img.put(mb * MB + first, bytes(buf[first:last + 1]))
        img.set_size((mb + 1) * MB)
    img.set_size(end_mb * MB)
    # field map
    for n, off in (("header1", KB64), ("header2", 2 * KB64)):
        for name_, o, w in (("signature", 0, 4), ("checksum", 4, 4), ("sequence", 8, 8), ("log_version", 64, 2),
                            ("version", 66, 2), ("log_length", 68, 4), ("log_offset", 72, 8)):
            img.field(f"{n}.{name_}", off + o, w, "<", "header")
    for n, off in (("regi1", 3 * KB64), ("regi2", 4 * KB64)):
        img.field(f"{n}.signature", off, 4, "<", "header")
        img.field(f"{n}.count", off + 8, 4, "<", "header")
        for i in range(len(regions)):
            img.field(f"{n}.entry{i}.guid", off + 16 + 32 * i, 16, "<", "header")
            img.field(f"{n}.entry{i}.offset", off + 32 + 32 * i, 8, "<", "header")
            img.field(f"{n}.entry{i}.length", off + 40 + 32 * i, 4, "<", "header")
    img.field("meta.signature", meta_mb * MB, 8, "<", "header")
    img.field("meta.count", meta_mb * MB + 10, 2, "<", "header")
    for i in range(len(items)):
        img.field(f"meta.entry{i}.id", meta_mb * MB + 32 + 32 * i, 16, "<", "header")
        img.field(f"meta.entry{i}.offset", meta_mb * MB + 48 + 32 * i, 4, "<", "header")
        img.field(f"meta.entry{i}.length", meta_mb * MB + 52 + 32 * i, 4, "<", "header")
    if has_parent:
        li = [i for i, it in enumerate(items) if it[0] == PARENT_LOCATOR][0]
        img.field("parent_locator.type", item_offsets[li], 16, "<", "header")
        img.field("parent_locator.key_value_count", item_offsets[li] + 18, 2, "<", "header")
    o = item_offsets[[i for i, it in enumerate(items) if it[0] == FILE_PARAMETERS and not it[2] & 1][0]]
    img.field("file_parameters.block_size", o, 4, "<", "header")
    img.field("file_parameters.flags", o + 4, 4, "<", "header")
    img.field("virtual_disk_size", o + 8, 8, "<", "header")
    img.field("logical_sector_size", o + 32, 4, "<", "header")
    for idx in sorted(bat):
        img.field(f"bat[{idx}]", bat_mb * MB + idx * 8, 8, "<", "table")
    return img


def unit_states(states, bitmaps=None, window_at=0):
    """BAT states -> reference-model unit states (HOLE / ZERO / DATA); PARTIAL blocks become per-sector maps."""
    out = []
    for st in states:
        out.append(DATA if st in (DATA, PARTIAL) else HOLE if st == NOT_PRESENT else ZERO)
    return out


def model(states, block_size=MB, sector=512, size=None, layer=1, parent=None, bitmaps=None, total_blocks=None,
          window_at=0):
    W = len(states)
    nblocks = total_blocks or (window_at + W)
    units = [HOLE] * nblocks if nblocks <= 200000 else {}
    smap = {}
    for i, st in entries1(states):
        blk = window_at + i
        if st == PARTIAL:
            units[blk] = DATA
            smap[blk] = [DATA if b else HOLE for b in bitmaps[blk]]
        else:
            units[blk] = DATA if st == DATA else HOLE if st == NOT_PRESENT else ZERO
    return GuestDisk(size if size is not None else nblocks * block_size, block_size, units, layer, parent, smap, sector)


def decode(read, file_size=None):
    """Independent mini-decoder over a `read(offset, n)` callable -> dict of what the file stores."""
    assert read(0, 8) == b"vhdxfile"
    hs = []
    for off in (KB64, 2 * KB64):
        h = read(off, 4096)
        sig, crc, seq = struct.unpack_from("<4sIQ", h, 0)
        ok = sig == b"head" and crc32c(h[:4] + b"\0\0\0\0" + h[8:]) == crc
        hs.append((seq, ok))
    rt = read(3 * KB64, KB64)
    sig, crc, cnt = struct.unpack_from("<4sII", rt, 0)
    assert sig == b"regi" and crc32c(rt[:4] + b"\0\0\0\0" + rt[8:]) == crc
    regions = {}
    for i in range(cnt):
        g, off, ln, req = struct.unpack_from("<16sQII", rt, 16 + 32 * i)
        regions[g] = (off, ln)
    moff, mlen = regions[META_GUID]
    mt = read(moff, KB64)
    assert mt[:8] == b"metadata"
    n, = struct.unpack_from("<H", mt, 10)
    items = {}
    for i in range(n):
        g, off, ln, flags = struct.unpack_from("<16sIII", mt, 32 + 32 * i)
        items[g] = read(moff + off, ln)
    block_size, flags = struct.unpack("<II", items[FILE_PARAMETERS])
    size, = struct.unpack("<Q", items[VIRTUAL_DISK_SIZE])
    sector, = struct.unpack("<I", items[LOGICAL_SECTOR_SIZE])
    out = {"headers": hs, "block_size": block_size, "has_parent": bool(flags & 2), "size": size, "sector": sector,
           "bat_offset": regions[BAT_GUID][0], "disk_id": items[VIRTUAL_DISK_ID]}
    if PARENT_LOCATOR in items:
        it = items[PARENT_LOCATOR]
        typ, _, cnt = struct.unpack_from("<16sHH", it, 0)
        kv = []
        for i in range(cnt):
            ko, vo, kl, vl = struct.unpack_from("<IIHH", it, 20 + 12 * i)
            kv.append((it[ko:ko + kl].decode("utf-16-le"), it[vo:vo + vl].decode("utf-16-le")))
        out["locator"] = (typ, kv)
    return out


def decode_block(read, d, block):
    ratio = chunk_ratio(d["block_size"], d["sector"])
    e, = struct.unpack("<Q", read(d["bat_offset"] + 8 * bat_index(block, ratio), 8))
    return e & 7, (e >> 20) * MB


def selfvalidate():
    import gzip
    import os

    from mc.bootstrap import repo_root
    from mc.diskcheck import window_models

    assert crc32c(b"123456789") == 0xE3069283
    n = 0
    for states, slots in window_models([NOT_PRESENT, ZERO_ST, DATA], 3, 4):
        img = build(states, slots, MB, 512, 3 * MB - 512, regions=("bat", "meta"), seqs=(3, 9))
        f = img.sparse(log=False)
        d = decode(f.peek_at)
        assert d["size"] == 3 * MB - 512 and d["block_size"] == MB and d["sector"] == 512 and not d["has_parent"]
        assert d["headers"] == [(3, True), (9, True)]
        for i, st, p in entries(states, slots):
            s, off = decode_block(f.peek_at, d, i)
            if st == DATA:
                assert s == 6 and f.peek_at(off + 4096, 512) == pattern.span(1, i * MB + 4096, 512)
            else:
                assert s == st
        n += 1
    assert chunk_ratio(MB, 512) == 4096 and chunk_ratio(256 * MB, 512) == 16 and chunk_ratio(32 * MB, 4096) == 1024
    assert bat_index(4096, 4096) == 4097 and sb_index(0, 4096) == 4096 and sb_index(4096, 4096) == 8193
    # fixtures: decode the repository samples with this transcription (incl. header / region table CRC-32C)
    for fn, par in (("fixed.vhdx.gz", False), ("dynamic.vhdx.gz", False), ("differencing.avhdx.gz", True)):
        p = os.path.join(repo_root(), "tests/data", fn)
        if os.path.exists(p):
            data = gzip.open(p).read()
            d = decode(lambda o, k: data[o:o + k])
            assert d["size"] == (8192 * MB if par else 10 * MB) and d["has_parent"] == par and d["sector"] == 512, d
            assert any(ok for _, ok in d["headers"])
            if par:
                assert d["locator"][0] == VHDX_LOCATOR_TYPE and "relative_path" in dict(d["locator"][1])
            n += 1
    return n
