"""QCOW2 serializer (QEMU docs/interop/qcow2.txt).  struct only.

Header (big endian): 0 u32 magic "QFI\\xfb" | 4 u32 version | 8 u64 backing_file_offset | 16 u32 backing_file_size |
 20 u32 cluster_bits | 24 u64 size | 32 u32 crypt_method | 36 u32 l1_size | 40 u64 l1_table_offset |
 48 u64 refcount_table_offset | 56 u32 refcount_table_clusters | 60 u32 nb_snapshots | 64 u64 snapshots_offset |
 -- version 3 only: 72 u64 incompatible (bit0 dirty, 1 corrupt, 2 external data file, 3 compression type, 4 extended L2) |
 80 u64 compatible | 88 u64 autoclear | 96 u32 refcount_order | 100 u32 header_length | 104 u8 compression_type | pad to 112.
 A version-2 header is 72 bytes long; readers must assume incompatible = compatible = autoclear = 0, refcount_order 4,
 header_length 72.
Header extensions from header_length: {u32 type, u32 length, data padded to 8}; 0 = end; 0xe2792aca backing format;
 0x6803f857 feature names; 0x44415441 external data file name.  Backing file name between the extensions and the end of
 the first cluster.
L1 entry: bits 9-55 offset of the L2 table, bit 63 COPIED.  Standard L2 entry: bit 0 zero flag, bits 9-55 host cluster
 offset, bit 62 compressed, bit 63 COPIED.  Compressed descriptor (bits 0-61): x = 62 - (cluster_bits - 8); bits 0..x-1
 host byte offset, bits x..61 number of additional 512-byte sectors.  Compressed data: raw deflate (window 2^12).
Extended L2 entry (incompatible bit 4): 128 bits = the standard entry (bit 0 reserved) + bitmap: bits 0-31 allocation
 status of sub-clusters 0-31, bits 32-63 "reads as zeros" status.  Sub-cluster = cluster / 32.
Snapshot table entry: u64 l1 offset | u32 l1 size | u16 id len | u16 name len | u32 sec | u32 nsec | u64 vm clock |
 u32 vm state size | u32 extra data size | extra data | id | name | padding to a multiple of 8.
"""
from __future__ import annotations

import struct
import zlib

from mc import pattern
from mc.models import DATA, HOLE, ZERO, GuestDisk
from mc.vfile import Image, entries, entries1, slot_range

MAGIC = 0x514649FB
V2HDR = ">IIQIIQIIQQIIQ"
V3TAIL = ">QQQII"
COPIED = 1 << 63
COMPRESSED = 1 << 62
ZERO_FLAG = 1

# cluster tokens (standard L2)
U, Z, A, N, C, I = "U", "Z", "A", "N", "C", "I"  # unallocated, zero plain, zero alloc, normal, compressed, compressed-incompressible
L = "L"  # compressed with a long stream: stored blocks flushed every 16 bytes (about 1.3 x the cluster size; the descriptor's
#          sector count allows up to twice the cluster size)


def long_deflate(data: bytes) -> bytes:
    co = zlib.compressobj(0, zlib.DEFLATED, -12)
    out = b""
    for i in range(0, len(data), 16):
        out += co.compress(data[i:i + 16]) + co.flush(zlib.Z_FULL_FLUSH)
    return out + co.flush()
PLACED = (N, A)
EXT_BACKING_FORMAT = 0xE2792ACA
EXT_FEATURE_TABLE = 0x6803F857
EXT_DATA_FILE = 0x44415441


def raw_deflate(data: bytes, level=6) -> bytes:
    co = zlib.compressobj(level, zlib.DEFLATED, -12)
    return co.compress(data) + co.flush()


def header_bytes(version, cluster_bits, size, l1_size, l1_off, backing_off=0, backing_len=0, incompatible=0, compatible=0,
                 autoclear=0, header_length=112, nb_snapshots=0, snapshots_off=0, crypt=0, refcount_off=None,
                 compression_type=0, refcount_order=4):
    cs = 1 << cluster_bits
    h = struct.pack(V2HDR, MAGIC, version, backing_off, backing_len, cluster_bits, size, crypt, l1_size, l1_off,
                    refcount_off if refcount_off is not None else cs, 1, nb_snapshots, snapshots_off)
    if version >= 3:
        h += struct.pack(V3TAIL, incompatible, compatible, autoclear, refcount_order, header_length)
        if header_length > 104:
            h += struct.pack(">B7s", compression_type, b"")
        h = h[:header_length].ljust(header_length, b"\0")
    return h


def extension(magic, data: bytes) -> bytes:
    return struct.pack(">II", magic, len(data)) + data + b"\0" * ((-len(data)) % 8)


def build(states, slots, cluster_bits=16, version=3, size=None, window_at=0, total_clusters=None, layer=1,
          layout="l1_first", table_base=None, data_base=None, backing_name=None, backing_format=None, header_length=112,
          v2_tail="l1", data_file=False, ext=None, comp=None, nslots=None, extensions=None, snapshots=None, l1_extra=0,
          label="qcow2", name=None, copied="parity", with_end_ext=True, comp_pack=False):
    """states: tokens per cluster of the window (standard L2) or, with ext != None, per cluster a dict
         {"kind": "N"|"U"|"C", "sub": [32 x 'u'|'a'|'z']}.
    comp:  per compressed cluster options {index in window: (in_sector_offset, extra_sectors, high)}.
    snapshots: list of dicts {"states":..., "slots":..., "id":..., "name":..., "extra": bytes, "l1_size": int|None,
         "l1_stale": bool (entries for tables beyond l1_size are left behind the table, as after a resize)}
         sharing this image's data slots (snapshot L1/L2 tables are separate).
    Returns (qcow2 Image, data-file Image | None).
    """
    cs = 1 << cluster_bits
    extl2 = ext is not None
    esz = 16 if extl2 else 8
    l2n = cs // esz
    W = len(states)
    total = total_clusters or (window_at + W)
    if size is None:
        size = total * cs
    l1_needed = (total + l2n - 1) // l2n
    l1_size = l1_needed + l1_extra
    img = Image(label, name)
    dimg = Image(label + "-data") if data_file else None
    target = dimg if data_file else img

    # ---- which L2 tables exist (active image) -------------------------------------------------------------------
    def _tok(st):
        return st["kind"] if isinstance(st, dict) else st

    def used_tables(sts, at):
        return sorted({(at + i) // l2n for i, st in entries1(sts) if _tok(st) != U or (isinstance(st, dict) and "z" in st["sub"])})

    snaps = snapshots or []
    act_tables = used_tables(states, window_at)
    snap_tables = [used_tables(s["states"], s.get("window_at", window_at)) for s in snaps]
    n_l2 = len(act_tables) + sum(len(t) for t in snap_tables)
    l1_clusters = (l1_size * 8 + cs - 1) // cs
    snap_l1_clusters = [((s.get("l1_size") or l1_size) * 8 + cs - 1) // cs for s in snaps]
    # ---- physical plan (cluster numbers) ---------------------------------------------------------------------------
    # cluster 0 header, cluster 1 refcount table, cluster 2 refcount block, cluster 3 snapshot table
    tb = 4 if table_base is None else table_base >> cluster_bits
    ntab = l1_clusters + sum(snap_l1_clusters) + n_l2
    used = set()
    for sts, sl in [(states, slots)] + [(s["states"], s["slots"]) for s in snaps]:
        used |= {p for _i, st, p in entries(sts, sl) if _tok(st) in PLACED and p is not None}
    if nslots is None:
        nslots = max(used, default=-1) + 1
    if layout == "tables_after_data":
        db = (4 if data_base is None else data_base >> cluster_bits) if not data_file else 0
        if table_base is None:
            tb = db + nslots + 2 if not data_file else 4
    else:
        if data_file:
            db = 0 if data_base is None else data_base >> cluster_bits
        else:
            db = (tb + ntab + 1) if data_base is None else data_base >> cluster_bits
    cur = tb
    if layout == "l2_first":
        l2_first = True
    else:
        l2_first = False
    plan = {}

    def alloc(n):
        nonlocal cur
        c = cur
        cur += n
        return c

    def place_tables():
        keys = []
        if not l2_first:
            keys.append(("l1", None, l1_clusters))
            for si, n in enumerate(snap_l1_clusters):
                keys.append(("sl1", si, n))
        tabs = [("l2", t, 1) for t in act_tables]
        for si, ts in enumerate(snap_tables):
            tabs += [("sl2", (si, t), 1) for t in ts]
        if layout in ("l2_first", "l2_reversed"):
            tabs = tabs[::-1]
        keys += tabs
        if l2_first:
            keys.append(("l1", None, l1_clusters))
            for si, n in enumerate(snap_l1_clusters):
                keys.append(("sl1", si, n))
        for kind, key, n in keys:
            plan[(kind, key)] = alloc(n)

    place_tables()
    tables_end = cur
    comp_base = (max(tables_end, db + nslots + 1) + 1) if not data_file else tables_end + 1
    comp = comp or {}

    # ---- data slots ----------------------------------------------------------------------------------------------
    owner = {}  # slot -> (guest cluster, layer) ; a slot may be shared by the active image and snapshots

    def l2_entries(sts, sl, at, lay, comp_opts, comp_area):
        ents = {}
        for i, st, p in entries(sts, sl):
            g = at + i
            tok = _tok(st)
            bitmap = 0
            if isinstance(st, dict):
                for k, s in enumerate(st["sub"]):
                    if s == "a":
                        bitmap |= 1 << k
                    elif s == "z":
                        bitmap |= 1 << (32 + k)
            if tok == U:
                e = 0
            elif tok == Z:
                e = ZERO_FLAG
            elif tok in (N, A):
                off = (db + p) << cluster_bits
                flag = COPIED if (copied == "all" or (copied == "parity" and p % 2 == 0) or (data_file and off == 0)) else 0
                e = off | flag | (ZERO_FLAG if tok == A else 0)
                prev = owner.get(p)
                if prev is not None and prev[0] != g:
                    raise ValueError("slot shared by different guest clusters")
                if prev is None:
                    owner[p] = (g, lay)
            elif tok in (C, I, L):
                insec, extra, high = comp_opts.get(i, (0, 0, False))
                body = pattern.span((pattern.COMPRESSIBLE | lay) if tok == C else lay, g * cs, cs)
                z = long_deflate(body) if tok == L else raw_deflate(body, 6 if tok == C else 0)
                if tok == L:
                    extra = 0
                x = 62 - (cluster_bits - 8)
                if comp_pack:
                    # byte-packed back to back, as qemu-img convert -c writes them: several clusters share a host sector
                    if len(comp_area) == 1:
                        comp_area.append((comp_area[0] << cluster_bits) + 1)
                    base, insec = comp_area[1], 0
                    comp_area[1] = base + len(z)
                    comp_area[0] = (comp_area[1] >> cluster_bits) + 2
                elif high:
                    base = (1 << x) - 2 * cs - 4 * 512 - (comp_area[0] - comp_base) * 4 * cs
                    base &= ~511
                    comp_area[0] += 3
                else:
                    base = comp_area[0] << cluster_bits
                    comp_area[0] += 3
                host = base + insec
                first_sector = host >> 9
                last_sector = (host + len(z) - 1) >> 9
                nb = last_sector - first_sector + extra
                if nb >= (1 << (cluster_bits - 8)):
                    raise ValueError("compressed data does not fit the descriptor")
                e = COMPRESSED | (nb << x) | host
                img.put(host, z, meta=False)
                tail = ((first_sector + nb + 1) << 9) - (host + len(z))
                if tail > 0 and not comp_pack:
                    img.put_pattern(host + len(z), tail, pattern.SLACK, host + len(z))
            else:
                raise ValueError(tok)
            ents[g] = (e, bitmap)
        return ents

    comp_area = [comp_base]
    act = l2_entries(states, slots, window_at, layer, comp, comp_area)
    snap_ents = []
    for si, s in enumerate(snaps):
        snap_ents.append(l2_entries(s["states"], s["slots"], s.get("window_at", window_at), s.get("layer", layer),
                                    s.get("comp", {}), comp_area))
    for p in slot_range(0, nslots + 1, owner):
        off = (db + p) << cluster_bits
        if p in owner:
            g, lay = owner[p]
            target.put_pattern(off, cs, lay, g * cs)
        else:
            target.put_pattern(off, cs, pattern.SLACK, off ^ (0x5A5A if data_file else 0))

    # sub-cluster granular content: un-allocated / zero sub-clusters of an allocated cluster hold slack in the file
    if extl2:
        sub = cs // 32
        for sts, sl, at, lay in [(states, slots, window_at, layer)] + [
                (s["states"], s["slots"], s.get("window_at", window_at), s.get("layer", layer)) for s in snaps]:
            for i, st, p in entries(sts, sl):
                if isinstance(st, dict) and st["kind"] == N:
                    off = (db + p) << cluster_bits
                    # rewrite the slot: remove the whole-cluster extent, add per sub-cluster extents
                    target.ext = [e for e in target.ext if not (e[0] == off and e[3] == cs)]
                    for k, s in enumerate(st["sub"]):
                        if s == "a":
                            target.put_pattern(off + k * sub, sub, lay, (at + i) * cs + k * sub)
                        else:
                            target.put_pattern(off + k * sub, sub, pattern.SLACK, off + k * sub)

    # ---- tables -----------------------------------------------------------------------------------------------------
    def emit_tables(ents, tables, l1_key, l2_kind, l2_key, l1n, stale=False):
        # stale: the table's cluster keeps entries of an earlier, longer table behind the l1n declared ones
        l1 = [0] * (max([l1n] + [t + 1 for t in tables]) if stale else l1n)
        assert len(l1) * 8 <= ((l1n * 8 + cs - 1) // cs) * cs, "stale entries must fit the table's last cluster"
        for t in tables:
            c = plan[(l2_kind, l2_key(t))]
            if t < len(l1):
                l1[t] = (c << cluster_bits) | COPIED
            buf = bytearray(cs)
            for j in range(l2n):
                g = t * l2n + j
                if g in ents:
                    e, bm = ents[g]
                    struct.pack_into(">Q", buf, j * esz, e)
                    if extl2:
                        struct.pack_into(">Q", buf, j * esz + 8, bm)
                    if l2_kind == "l2":
                        img.field(f"l2[{t}][{j}]", (c << cluster_bits) + j * esz, 8, ">", "table")
                        if extl2:
                            img.field(f"l2bitmap[{t}][{j}]", (c << cluster_bits) + j * esz + 8, 8, ">", "table")
            img.put(c << cluster_bits, bytes(buf))
        c1 = plan[l1_key]
        img.put(c1 << cluster_bits, struct.pack(f">{len(l1)}Q", *l1))
        if l1_key[0] == "l1":
            for t in range(min(l1n, 4)):
                img.field(f"l1[{t}]", (c1 << cluster_bits) + 8 * t, 8, ">", "table")
        return c1 << cluster_bits

    l1_off = emit_tables(act, act_tables, ("l1", None), "l2", lambda t: t, l1_size)
    # ---- snapshots ------------------------------------------------------------------------------------------------
    snap_off = 0
    if snaps:
        snap_off = 3 << cluster_bits
        tab = b""
        for si, s in enumerate(snaps):
            sl1n = s.get("l1_size") or l1_size
            so = emit_tables(snap_ents[si], [t for t in snap_tables[si]], ("sl1", si), "sl2", lambda t, si=si: (si, t), sl1n,
                             stale=bool(s.get("l1_stale")))
            sid = s.get("id", str(si + 1)).encode()
            nm = s.get("name", f"snap{si}").encode()
            extra = s.get("extra", struct.pack(">QQ", 0, size))
            ent = struct.pack(">QIHHIIQII", so, sl1n, len(sid), len(nm), 1700000000 + si, 0, 10 ** 9 * si, 0, len(extra))
            ent += extra + sid + nm
            ent += b"\0" * ((-len(ent)) % 8)
            for fname, o, w in (("l1_table_offset", 0, 8), ("l1_size", 8, 4), ("id_str_size", 12, 2), ("name_size", 14, 2),
                                ("vm_state_size", 32, 4), ("extra_data_size", 36, 4)):
                img.field(f"snapshot[{si}].{fname}", snap_off + len(tab) + o, w, ">", "table")
            tab += ent
        img.put(snap_off, tab)
    # ---- header ------------------------------------------------------------------------------------------------------
    incompat = (4 if data_file else 0) | (16 if extl2 else 0)
    exts = b""
    if version >= 3 or extensions or backing_format is not None:
        for m, d in (extensions or []):
            exts += extension(m, d)
        if backing_format is not None:
            exts += extension(EXT_BACKING_FORMAT, backing_format.encode())
        if data_file and data_file != "anon":  # the name extension is optional: the caller may have to supply the file anyway
            exts += extension(EXT_DATA_FILE, b"verif-data.raw")
        if with_end_ext and (version >= 3 or backing_format is not None):
            exts += extension(0, b"")
    hl = header_length if version >= 3 else 72
    boff = blen = 0
    braw = b""
    if backing_name is not None:
        braw = backing_name.encode()
        boff = hl + len(exts)
        blen = len(braw)
    # feature bits that say nothing about how to read: dirty (incompatible bit 0: refcounts may be stale), lazy refcounts
    # (compatible bit 0), consistent bitmaps (autoclear bit 0) -- set on part of the images
    if version >= 3 and cluster_bits % 2:
        incompat |= 1
    hdr = header_bytes(version, cluster_bits, size, l1_size, l1_off, boff, blen, incompat, 1 if total % 2 else 0,
                       1 if cluster_bits % 3 == 0 else 0, hl, len(snaps), snap_off)
    first = hdr + exts + braw
    if version == 2 and backing_name is None:
        if v2_tail == "junk":
            first += b"\xff" * 64
        elif v2_tail == "l1" and cs >= 512:
            pass  # an L1 table directly after the header is produced by table_base handling of tiny images; see check
    assert len(first) <= cs, "header + extensions + backing name must fit the first cluster"
    img.put(0, first)
    img.put(1 << cluster_bits, struct.pack(">Q", 2 << cluster_bits))  # refcount table -> one block (contents unused)
    for nm, o, w in (("magic", 0, 4), ("version", 4, 4), ("backing_file_offset", 8, 8), ("backing_file_size", 16, 4),
                     ("cluster_bits", 20, 4), ("size", 24, 8), ("crypt_method", 32, 4), ("l1_size", 36, 4),
                     ("l1_table_offset", 40, 8), ("refcount_table_offset", 48, 8), ("refcount_table_clusters", 56, 4),
                     ("nb_snapshots", 60, 4), ("snapshots_offset", 64, 8)):
        img.field("header." + nm, o, w, ">", "header")
    if version >= 3:
        for nm, o, w in (("incompatible", 72, 8), ("compatible", 80, 8), ("autoclear", 88, 8), ("refcount_order", 96, 4),
                         ("header_length", 100, 4), ("compression_type", 104, 1)):
            if o < hl:
                img.field("header." + nm, o, w, ">", "header")
    img.set_size(max(img.size, (cur + 1) << cluster_bits))
    return img, dimg


def sub_states(st):
    """Reference-model view of one extended-L2 cluster: list of 32 HOLE/ZERO/DATA."""
    out = []
    for s in st["sub"]:
        out.append(DATA if s == "a" else ZERO if s == "z" else HOLE)
    return out


def model(states, cluster_bits, size=None, window_at=0, total_clusters=None, layer=1, parent=None):
    cs = 1 << cluster_bits
    W = len(states)
    total = total_clusters or (window_at + W)
    units = [HOLE] * total if total <= 200000 else {}
    layers = {}
    smap = {}
    for i, st in entries1(states):
        g = window_at + i
        if isinstance(st, dict):
            if st["kind"] == C:
                units[g] = DATA
                layers[g] = pattern.COMPRESSIBLE | layer
            else:
                units[g] = DATA
                smap[g] = sub_states(st)
            continue
        if st == N:
            units[g] = DATA
        elif st == C:
            units[g] = DATA
            layers[g] = pattern.COMPRESSIBLE | layer
        elif st in (I, L):
            units[g] = DATA
        elif st in (Z, A):
            units[g] = ZERO
    return GuestDisk(size if size is not None else total * cs, cs, units, layer, parent, smap, 512, layers)


# ---- independent mini-decoder ------------------------------------------------------------------------------------
def decode(read):
    h = struct.unpack(V2HDR, read(0, 72))
    assert h[0] == MAGIC
    version, boff, blen, cb, size, crypt, l1n, l1off = h[1], h[2], h[3], h[4], h[5], h[6], h[7], h[8]
    incompat = 0
    if version >= 3:
        incompat, = struct.unpack(">Q", read(72, 8))
    extl2 = bool(incompat & 16)
    cs = 1 << cb
    esz = 16 if extl2 else 8
    l2n = cs // esz
    l1 = struct.unpack(f">{l1n}Q", read(l1off, 8 * l1n))

    def cluster(g, read_data=None):
        """-> list of (kind, bytes|None) per sub-cluster (1 element without extended L2)."""
        rd = read_data or read
        t, j = divmod(g, l2n)
        nsub = 32 if extl2 else 1
        l2off = l1[t] & 0x00FFFFFFFFFFFE00 if t < l1n else 0
        if not l2off:
            return [("hole", None)] * nsub
        e, = struct.unpack(">Q", read(l2off + j * esz, 8))
        bm = struct.unpack(">Q", read(l2off + j * esz + 8, 8))[0] if extl2 else 0
        if e & COMPRESSED:
            x = 62 - (cb - 8)
            host = e & ((1 << x) - 1)
            nb = ((e >> x) & ((1 << (cb - 8)) - 1)) + 1
            raw = read(host, nb * 512 - (host & 511))
            data = zlib.decompressobj(-12).decompress(raw, cs)
            sub = cs // nsub
            return [("data", data[k * sub:(k + 1) * sub]) for k in range(nsub)]
        off = e & 0x00FFFFFFFFFFFE00
        if not extl2:
            if e & 1:
                return [("zero", None)]
            if off or (incompat & 4 and e & COPIED):
                return [("data", rd(off, cs))]
            return [("hole", None)]
        out = []
        sub = cs // 32
        for k in range(32):
            if bm >> (32 + k) & 1:
                out.append(("zero", None))
            elif bm >> k & 1:
                out.append(("data", rd(off + k * sub, sub)))
            else:
                out.append(("hole", None))
        return out

    return {"version": version, "cluster_bits": cb, "size": size, "extl2": extl2, "cluster": cluster,
            "backing": read(boff, blen).decode() if boff else None}


def selfvalidate():
    from mc.diskcheck import window_models

    n = 0
    for cb, ver, layout in ((9, 2, "l1_first"), (12, 3, "l2_first"), (16, 3, "tables_after_data")):
        cs = 1 << cb
        l2n = cs // 8
        for states, slots in window_models([U, Z, A, N, C] if ver == 3 else [U, Z, N, C], 3, 4, placed=PLACED):
            img, _ = build(states, slots, cb, ver, None, l2n - 2, l2n + 1, layout=layout,
                           comp={i: (i * 255 + 1, i % 2, False) for i in range(3)})
            f = img.sparse(log=False)
            d = decode(f.peek_at)
            ref = model(states, cb, None, l2n - 2, l2n + 1)
            for i, st in entries1(states):
                g = l2n - 2 + i
                (kind, data), = d["cluster"](g)
                exp = ref.content(g * cs, cs)
                if st == U:
                    assert kind == "hole"
                elif st in (Z, A):
                    assert kind == "zero"
                else:
                    assert kind == "data" and data == exp, (cb, states, slots, i)
            n += 1
    # extended L2 round trip
    import itertools

    for subs in itertools.product("uaz", repeat=3):
        st = [{"kind": N, "sub": list(subs) + ["a"] * 13 + ["z"] * 8 + ["u"] * 8}, {"kind": U, "sub": ["u"] * 31 + ["z"]}]
        img, _ = build(st, [1, None], 14, 3, ext=True)
        f = img.sparse(log=False)
        d = decode(f.peek_at)
        assert d["extl2"]
        ref = model(st, 14)
        for g in (0, 1):
            for k, (kind, data) in enumerate(d["cluster"](g)):
                exp = ref.content(g * 16384 + k * 512, 512)
                want = st[g]["sub"][k]
                assert kind == {"u": "hole", "a": "data", "z": "zero"}[want]
                if kind == "data":
                    assert data == exp
        n += 1
    return n
