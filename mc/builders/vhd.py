"""VHD serializer (Microsoft "Virtual Hard Disk Image Format Specification" 1.0).  struct only.

Footer (big endian, 512 bytes; 511 in files written before Virtual PC 2004):
  0 cookie "conectix" | 8 u32 features (0x2 reserved bit always set) | 12 u32 version 0x00010000 | 16 u64 data offset
  (0xFFFFFFFFFFFFFFFF for fixed disks) | 24 u32 timestamp | 28 creator app | 32 creator version | 36 creator host OS |
  40 u64 original size | 48 u64 current size | 56 u32 geometry | 60 u32 disk type (2 fixed, 3 dynamic, 4 differencing) |
  64 u32 checksum (one's complement of the byte sum without the checksum field) | 68 uuid | 84 saved state | reserved.
Dynamic header (1024 bytes) at footer.data_offset:
  0 "cxsparse" | 8 u64 data offset (unused, all ones) | 16 u64 table offset | 24 u32 header version | 28 u32 max table
  entries | 32 u32 block size | 36 u32 checksum | 40 parent uuid | 56 parent timestamp | 60 reserved | 64 parent name
  (512 bytes UTF-16) | 576 8 x 24-byte parent locators | 768 reserved.
BAT: u32 BE sector number of each block, 0xFFFFFFFF = unallocated.  Block = sector bitmap (ceil(spb/8) bytes padded
to a whole sector) followed by the data.  Footer copy at offset 0 of dynamic disks, footer at the end of the file.
"""
from __future__ import annotations

import struct

from mc import pattern
from mc.models import DATA, HOLE, GuestDisk, RawDisk
from mc.vfile import Image, slot_range

FOOTER = ">8sIIQI4sI4sQQIII16sB"
DYN = ">8sQQIIII16sII512s"
FIXED_OFF = 0xFFFFFFFFFFFFFFFF


def _checksum(b: bytes, field_off: int) -> int:
    return (~sum(b[:field_off] + b[field_off + 4:])) & 0xFFFFFFFF


def footer(size, disk_type, data_offset, length=512, original_size=None, stale=False):
    """original_size (size at creation) differs from the current size in every image built here, as after a resize: smaller
    for even sector counts, larger for odd ones; only the current size describes the disk."""
    if original_size is None:
        original_size = max(512, size // 1024 * 512) if (size // 512) % 2 == 0 else size + 0x7700
    # features: bit 1 is reserved and always set; bit 0 (Temporary) is a documented flag that says nothing about the layout
    features = 3 if (size // 512) % 3 == 0 else 2
    uid = b"\x5a" * 16
    # the creator names the tool that wrote the file and the geometry is a BIOS hint (capped at 65535 x 16 x 255 and, as here,
    # stale after a resize); neither takes part in addressing: the current size field alone says how large the disk is
    creator = (b"vrf ", b"vpc ", b"win ", b"qemu", b"vs  ")[(size // 512) % 5]
    if stale:
        # the copy of the footer at the start of a dynamic disk is a backup for a damaged footer: here it still describes the
        # disk as it was before a resize / re-identification (intact checksum); the footer at the end is the one that counts
        uid = b"\xa5" * 16
        size = max(512, size - 512 * 7)
    raw = struct.pack(FOOTER, b"conectix", features, 0x00010000, data_offset, 0x2B3C4D5E, creator, 0x00010000, b"Wi2k", original_size,
                      size, 0x03FF103F, disk_type, 0, uid, 0).ljust(512, b"\0")
    raw = raw[:64] + struct.pack(">I", _checksum(raw, 64)) + raw[68:]
    return raw[:length]


def bitmap_sectors(spb):
    return ((spb + 7) // 8 + 511) // 512


def build_fixed(nsec, footer_len=512, layer=1, prefix=b""):
    img = Image("vhd-fixed")
    if prefix:
        img.put(0, prefix, meta=False)
    img.put_pattern(len(prefix), nsec * 512 - len(prefix), layer, len(prefix))
    img.put(nsec * 512, footer(nsec * 512, 2, FIXED_OFF, footer_len))
    return img


def model_fixed(nsec, layer=1, prefix=b""):
    return RawDisk(prefix + pattern.span(layer, len(prefix), nsec * 512 - len(prefix)))


def build_dynamic(states, slots, spb, size=None, max_entries=None, layout="std", footer_len=512, layer=1, nslots=None,
                  base_sector=None, hdr_at=None):
    """hdr_at: byte offset of the dynamic header behind all blocks (the footer's data_offset then points far into the file)."""
    n = len(states)
    bs = spb * 512
    if size is None:
        size = n * bs
    if max_entries is None:
        max_entries = n
    bms = bitmap_sectors(spb)
    stride = bms + spb  # sectors per stored block
    bat_len = (4 * max_entries + 511) // 512 * 512
    used = {p for st, p in zip(states, slots) if st == DATA}
    if nslots is None:
        nslots = max(used, default=-1) + 1
    if layout == "std":  # footer copy, header, BAT, blocks
        hdr_off, bat_off = 512, 1536
        first = (bat_off + bat_len) // 512
    elif layout == "hdr_after_bat":  # footer copy, BAT, header, blocks
        bat_off = 512
        hdr_off = 512 + bat_len
        first = (hdr_off + 1024) // 512
    elif layout == "bat_after_data":  # footer copy, header, blocks, BAT
        hdr_off = 512
        first = (512 + 1024) // 512
        bat_off = (first + (nslots + 1) * stride) * 512
    else:
        raise ValueError(layout)
    if base_sector is not None:
        assert base_sector >= first
        first = base_sector
    ents = []
    for st, p in zip(states, slots):
        ents.append(0xFFFFFFFF if st == HOLE else first + p * stride)
    ents += [0xFFFFFFFF] * (max_entries - n)
    img = Image("vhd-dyn")
    img.put(0, footer(size, 3, hdr_off, stale=True))
    dyn = struct.pack(DYN, b"cxsparse", FIXED_OFF, bat_off, 0x00010000, max_entries, bs, 0, b"", 0, 0, b"").ljust(1024, b"\0")
    dyn = dyn[:36] + struct.pack(">I", _checksum(dyn, 36)) + dyn[40:]
    old_hdr_off = hdr_off
    if hdr_at is None:
        img.put(hdr_off, dyn)
    img.put(bat_off, struct.pack(f">{max_entries}I", *ents).ljust(bat_len, b"\xff"))
    inv = {p: i for i, (st, p) in enumerate(zip(states, slots)) if st == DATA}
    end = 0
    for p in slot_range(0, nslots + 1, used):  # one slack slot after the last used one
        off = (first + p * stride) * 512
        if p in inv:
            img.put(off, b"\xff" * (bms * 512), meta=False)
            img.put_pattern(off + bms * 512, bs, layer, inv[p] * bs)
        else:
            img.put_pattern(off, stride * 512, pattern.SLACK, off)
        end = off + stride * 512
    end = max(end, bat_off + bat_len if layout == "bat_after_data" else 0)
    if hdr_at is not None:
        assert hdr_at >= end or (bat_off + bat_len <= hdr_at and hdr_at + 1024 <= first * 512), "header overlaps"
        hdr_off = hdr_at
        img.ext = [e for e in img.ext if e[0] != 0]
        img.put(0, footer(size, 3, hdr_off, stale=True))
        img.put(hdr_off, dyn)
        end = max(end, hdr_off + 1024 + (-(hdr_off + 1024)) % 512)
    img.put(end, footer(size, 3, hdr_off, footer_len))
    for name, off, w in (("cookie", 0, 8), ("features", 8, 4), ("version", 12, 4), ("data_offset", 16, 8),
                         ("original_size", 40, 8), ("current_size", 48, 8), ("disk_type", 60, 4), ("checksum", 64, 4)):
        img.field("footer." + name, end + off, w, ">", "header")
    for name, off, w in (("cookie", 0, 8), ("data_offset", 8, 8), ("table_offset", 16, 8), ("header_version", 24, 4),
                         ("max_table_entries", 28, 4), ("block_size", 32, 4), ("checksum", 36, 4)):
        img.field("dyn." + name, hdr_off + off, w, ">", "header")
    for i in range(n):
        img.field(f"bat[{i}]", bat_off + 4 * i, 4, ">", "table")
    return img


def model_dynamic(states, spb, size=None, layer=1):
    n = len(states)
    return GuestDisk(size if size is not None else n * spb * 512, spb * 512, list(states), layer)


def decode(data: bytes):
    """Independent mini-decoder: returns ('fixed', size) or ('dynamic', size, block_size, [file offset of data | None])."""
    for flen in (512, 511):
        f = data[len(data) - flen:]
        if f[:8] == b"conectix":
            break
    else:
        raise ValueError("no footer")
    data_offset, = struct.unpack_from(">Q", f, 16)
    size, = struct.unpack_from(">Q", f, 48)
    if data_offset == FIXED_OFF:
        return ("fixed", size)
    assert data[data_offset:data_offset + 8] == b"cxsparse"
    table_offset, _, nent, bs = struct.unpack_from(">QIII", data, data_offset + 16)
    ents = struct.unpack_from(f">{nent}I", data, table_offset)
    bms = bitmap_sectors(bs // 512)
    return ("dynamic", size, bs, [None if e == 0xFFFFFFFF else (e + bms) * 512 for e in ents])


def selfvalidate():
    import gzip
    import os

    from mc.bootstrap import repo_root
    from mc.diskcheck import window_models

    n = 0
    for layout in ("std", "hdr_after_bat", "bat_after_data"):
        for flen in (512, 511):
            for states, slots in window_models([HOLE, DATA], 3, 4):
                img = build_dynamic(states, slots, 8, 3 * 4096 - 512, 5, layout, flen)
                data = img.tobytes()
                kind, size, bs, offs = decode(data)
                assert (kind, size, bs) == ("dynamic", 3 * 4096 - 512, 4096)
                for i, st in enumerate(states):
                    if st == DATA:
                        assert data[offs[i]: offs[i] + 4096] == pattern.span(1, i * 4096, 4096)
                    else:
                        assert offs[i] is None
                n += 1
    assert bitmap_sectors(4096) == 1 and bitmap_sectors(8192) == 2 and bitmap_sectors(8) == 1
    # fixtures: footer fields and BAT of the repository samples decode with this transcription
    for fn, kind in (("fixed.vhd.gz", "fixed"), ("dynamic.vhd.gz", "dynamic")):
        p = os.path.join(repo_root(), "tests/data", fn)
        if os.path.exists(p):
            data = gzip.open(p).read()
            d = decode(data)
            assert d[0] == kind and d[1] == 10 * 1024 * 1024, d[:2]
            f = data[-512:]
            assert struct.unpack_from(">I", f, 64)[0] == _checksum(f, 64)
            if kind == "dynamic":
                assert d[2] == 2 << 20
            n += 1
    return n
