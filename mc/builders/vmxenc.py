"""Independent encryptor / decryptor for encrypted VMX files (PyCryptodome AES-CBC + hashlib / hmac).

 encryption.keySafe = vmware:key/list/(pair/(phrase/<id>/<dict>,<mac name>,<base64 blob>),...)   every component URL-quoted,
   <dict> = pass2key=<kdf>:cipher=<cipher>:rounds=<n>:salt=<base64>   (values URL-quoted again)
   blob   = IV(16) || AES-CBC(key = PBKDF2(kdf, passphrase, salt, rounds, keylen(cipher)), PKCS#7(plain)) || HMAC(key, plain)[:n]
   plain  = type=key:cipher=<data cipher>:key=<base64 data key>
 encryption.data    = base64( IV || AES-CBC(data key, PKCS#7(config text)) || HMAC(data key, config text)[:n] )
 MAC names: HMAC-SHA-1 (20 bytes), HMAC-SHA-1-128 (HMAC-SHA-1 truncated to 16 bytes), HMAC-SHA-256 (32 bytes).
"""
from __future__ import annotations

import base64
import hashlib
import hmac
from urllib.parse import quote, unquote

from Crypto.Cipher import AES

KEYLEN = {"AES-128": 16, "AES-192": 24, "AES-256": 32}
MACS = {"HMAC-SHA-1": ("sha1", 20), "HMAC-SHA-1-128": ("sha1", 16), "HMAC-SHA-256": ("sha256", 32)}
KDFS = {"PBKDF2-HMAC-SHA-1": "sha1", "PBKDF2-HMAC-SHA-256": "sha256"}


def q(s: str) -> str:
    """Key-locator component escaping as VMware writes it: everything but [A-Za-z0-9] as %xx (lower-case hex)."""
    return "".join(c if (c.isascii() and c.isalnum()) else "".join("%%%02x" % b for b in c.encode()) for c in s)


def qv(s: str) -> str:
    """Crypto-dict value escaping: only the structural characters % = : are escaped."""
    return "".join(c if c not in "%=:" else "%%%02x" % ord(c) for c in s)


def det_bytes(tag: str, n: int) -> bytes:
    out = b""
    i = 0
    while len(out) < n:
        out += hashlib.sha256(f"{tag}/{i}".encode()).digest()
        i += 1
    return out[:n]


def seal(key: bytes, plain: bytes, mac: str, iv: bytes) -> bytes:
    pad = 16 - len(plain) % 16
    ct = AES.new(key, AES.MODE_CBC, iv=iv).encrypt(plain + bytes([pad]) * pad)
    d, n = MACS[mac]
    return iv + ct + hmac.digest(key, plain, d)[:n]


def unseal(key: bytes, blob: bytes, mac: str) -> bytes:
    d, n = MACS[mac]
    iv, ct, tag = blob[:16], blob[16:-n], blob[-n:]
    plain = AES.new(key, AES.MODE_CBC, iv=iv).decrypt(ct)
    pad = plain[-1]
    assert 1 <= pad <= 16 and plain.endswith(bytes([pad]) * pad), "bad padding"
    plain = plain[:-pad]
    assert hmac.compare_digest(hmac.digest(key, plain, d)[:n], tag), "bad mac"
    return plain


def wrap_key(phrase: str, kdf: str, cipher: str, rounds: int, salt: bytes) -> bytes:
    return hashlib.pbkdf2_hmac(KDFS[kdf], phrase.encode(), salt, rounds, KEYLEN[cipher])


def pair_text(phrase, kdf, cipher, rounds, salt, mac, data_cipher, data_key, iv, pid="JTHVQF8/BHU=", order=None):
    wk = wrap_key(phrase, kdf, cipher, rounds, salt)
    plain = f"type=key:cipher={qv(data_cipher)}:key={qv(base64.b64encode(data_key).decode())}".encode()
    blob = seal(wk, plain, mac, iv)
    return pair_from_blob(kdf, cipher, rounds, salt, mac, blob, pid, order), blob


def pair_from_blob(kdf, cipher, rounds, salt, mac, blob, pid="JTHVQF8/BHU=", order=None):
    """order: permutation of the four entries of the phrase dictionary (a dictionary: their order carries no meaning)."""
    ents = [f"pass2key={qv(kdf)}", f"cipher={qv(cipher)}", f"rounds={rounds}", f"salt={qv(base64.b64encode(salt).decode())}"]
    pdict = ":".join(ents[i] for i in (order or range(4)))
    return f"pair/(phrase/{q(pid)}/{q(pdict)},{q(mac)},{q(base64.b64encode(blob).decode())})"


def vmx_text(pairs, data_blob, outer=None):
    outer = outer if outer is not None else [(".encoding", "UTF-8"), ("displayName", "Encrypted VM")]
    lines = [f'{k} = "{v}"' for k, v in outer]
    lines.append('encryption.keySafe = "vmware:key/list/(' + ",".join(pairs) + ')"')
    lines.append('encryption.data = "' + base64.b64encode(data_blob).decode() + '"')
    return "\n".join(lines) + "\n"


def parse_dictionary(text: str) -> dict:
    """Reference model of a VMX dictionary: keys case-insensitive, comments / blank lines ignored, last assignment wins."""
    d = {}
    for line in text.split("\n"):
        line = line.strip()
        if not line or line.startswith("#"):
            continue
        k, _, v = line.partition("=")
        d[k.strip().lower()] = v.strip().strip('"').strip() if False else v.strip(' "')
    return d


def decode_keysafe(text: str):
    """Independent parser of the one-level key safe this module writes (used on the repository fixture)."""
    assert text.startswith("vmware:key/list/(") and text.endswith(")")
    body = text[len("vmware:key/list/("):-1]
    out = []
    depth = 0
    cur = ""
    for ch in body:
        if ch == "(":
            depth += 1
        elif ch == ")":
            depth -= 1
        if ch == "," and depth == 0:
            out.append(cur)
            cur = ""
        else:
            cur += ch
    out.append(cur)
    pairs = []
    for p in out:
        assert p.startswith("pair/(phrase/") and p.endswith(")")
        inner = p[len("pair/("):-1]
        loc, mac, blob = inner.split(",")
        _, pid, pdict = loc.split("/", 2)
        kv = dict(x.split("=", 1) for x in unquote(pdict).split(":"))
        pairs.append({"id": unquote(pid), "kdf": unquote(kv["pass2key"]), "cipher": unquote(kv["cipher"]),
                      "rounds": int(kv["rounds"]), "salt": base64.b64decode(unquote(kv["salt"])), "mac": unquote(mac),
                      "blob": base64.b64decode(unquote(blob))})
    return pairs


def selfvalidate():
    import os

    from mc.bootstrap import repo_root

    n = 0
    p = os.path.join(repo_root(), "tests/data/encrypted.vmx")
    if os.path.exists(p):
        text = open(p).read()
        d = parse_dictionary(text)
        pairs = decode_keysafe(d["encryption.keysafe"])
        pr = pairs[0]
        wk = wrap_key("password", pr["kdf"], pr["cipher"], pr["rounds"], pr["salt"])
        plain = unseal(wk, pr["blob"], pr["mac"])
        kv = dict(x.split("=", 1) for x in plain.decode().split(":"))
        dk = base64.b64decode(unquote(kv["key"]))
        blob = base64.b64decode(d["encryption.data"])
        cfg = unseal(dk, blob, pr["mac"])
        assert b"dataFileKey" in cfg or b"datafilekey" in cfg.lower()
        # re-encrypt with the same IVs: identical bytes
        assert seal(wk, plain, pr["mac"], pr["blob"][:16]) == pr["blob"]
        assert seal(dk, cfg, pr["mac"], blob[:16]) == blob
        txt2, blob2 = pair_text("password", pr["kdf"], pr["cipher"], pr["rounds"], pr["salt"], pr["mac"],
                                unquote(kv["cipher"]), dk, pr["blob"][:16], pr["id"])
        assert blob2 == pr["blob"]
        assert "vmware:key/list/(" + txt2 + ")" == d["encryption.keysafe"], "key safe text differs from the fixture"
        n += 3
    for mac in MACS:
        for ln in range(0, 40):
            key = det_bytes("k", 32)
            pt = det_bytes("p", ln)
            assert unseal(key, seal(key, pt, mac, det_bytes("iv", 16)), mac) == pt
            n += 1
    return n
