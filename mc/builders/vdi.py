"""VDI serializer (VirtualBox VDICore.h, header v1.1).  struct only -- nothing from dissect.hypervisor is imported.

Header (little endian), offsets:   0 char[64] info text | 64 u32 signature 0xBEDA107F | 68 u32 version 0x00010001 |
72 u32 header size 0x190 | 76 u32 image type | 80 u32 flags | 84 char[256] description | 340 u32 offBlocks |
344 u32 offData | 348 u32 cylinders | 352 heads | 356 sectors | 360 u32 sector size | 364 unused | 368 u64 disk size |
376 u32 block size | 380 u32 block extra | 384 u32 blocks in HDD | 388 u32 blocks allocated | 392.. four UUIDs.
Block map: int32 LE per block: -1 unallocated (falls through to the parent / zeros), -2 zero block,
otherwise physical block index; block data at offData + index * (blockSize + blockExtra).
"""
from __future__ import annotations

import struct

from mc import pattern
from mc.models import DATA, HOLE, ZERO, GuestDisk
from mc.vfile import Image, slot_range

HDR = "<64sIIIII256sIIIIIIIQIIII16s16s16s16s"
SIGNATURE = 0xBEDA107F


def build(states, slots, block_size, disk_size=None, blocks_offset=512, data_offset=None, layer=1, nslots=None,
          tail_slack=True, image_type=1, parent_uuid=b""):
    """states: per block HOLE/ZERO/DATA; slots: per block physical index (for DATA blocks) or None."""
    n = len(states)
    if disk_size is None:
        disk_size = n * block_size
    map_bytes = 4 * n
    if data_offset is None:
        data_offset = (blocks_offset + map_bytes + 511) // 512 * 512
    assert data_offset >= blocks_offset + map_bytes
    entries = []
    for st, p in zip(states, slots):
        entries.append(-1 if st == HOLE else -2 if st == ZERO else p)
    used = {p for st, p in zip(states, slots) if st == DATA}
    if nslots is None:
        nslots = max(used, default=-1) + 1
    hdr = struct.pack(HDR, b"<<< Oracle VM VirtualBox Disk Image >>>\n", SIGNATURE, 0x00010001, 0x190, image_type, 0,
                      b"verif", blocks_offset, data_offset, 0, 0, 0, 512, 0, disk_size, block_size, 0, n, len(used),
                      b"\x11" * 16, b"\x22" * 16, b"", parent_uuid)
    img = Image("vdi")
    img.put(0, hdr)
    img.put(blocks_offset, struct.pack(f"<{n}i", *entries))
    for name, off, w in (("signature", 64, 4), ("version", 68, 4), ("header_size", 72, 4), ("image_type", 76, 4),
                         ("blocks_offset", 340, 4), ("data_offset", 344, 4), ("sector_size", 360, 4),
                         ("disk_size", 368, 8), ("block_size", 376, 4), ("block_extra", 380, 4),
                         ("blocks_in_hdd", 384, 4), ("blocks_allocated", 388, 4)):
        img.field(name, off, w, "<", "header")
    for i in range(n):
        img.field(f"map[{i}]", blocks_offset + 4 * i, 4, "<", "table")
    inv = {p: i for i, (st, p) in enumerate(zip(states, slots)) if st == DATA}
    for p in slot_range(0, nslots + (1 if tail_slack else 0), used):
        off = data_offset + p * block_size
        if p in inv:
            img.put_pattern(off, block_size, layer, inv[p] * block_size)
        else:
            img.put_pattern(off, block_size, pattern.SLACK, off)
    return img


def model(states, block_size, disk_size=None, layer=1, parent=None):
    n = len(states)
    return GuestDisk(disk_size if disk_size is not None else n * block_size, block_size, list(states), layer, parent)


def decode(data: bytes):
    """Independent mini-decoder (struct only): image bytes -> (block_size, disk_size, [(state, slot)])."""
    f = struct.unpack_from(HDR, data, 0)
    assert f[1] == SIGNATURE
    blocks_offset, data_offset, disk_size, block_size, n = f[7], f[8], f[14], f[15], f[17]
    ents = struct.unpack_from(f"<{n}i", data, blocks_offset)
    out = []
    for e in ents:
        out.append((HOLE, None) if e == -1 else (ZERO, None) if e == -2 else (DATA, e))
    return block_size, disk_size, data_offset, out


def selfvalidate():
    """decode(build(m)) == m over a small model space (round trip through the independent decoder)."""
    from mc.diskcheck import window_models

    n = 0
    for bs in (512, 4096):
        for states, slots in window_models([HOLE, ZERO, DATA], 3, 4):
            img = build(states, slots, bs, 3 * bs - 512, 1024, 8192)
            b, size, doff, ents = decode(img.tobytes())
            assert (b, size, doff) == (bs, 3 * bs - 512, 8192)
            assert ents == [(s, p) for s, p in zip(states, slots)], (ents, states, slots)
            data = img.tobytes()
            for i, (s, p) in enumerate(zip(states, slots)):
                if s == DATA:
                    assert data[doff + p * bs: doff + (p + 1) * bs] == pattern.span(1, i * bs, bs)
            n += 1
    return n
