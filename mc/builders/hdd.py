"""Parallels HDS / .hdd serializer (QEMU docs/interop/parallels.txt and prl-xml.txt).  struct only.

HDS header, 64 bytes little endian:  0 char[16] signature ("WithoutFreeSpace" v1 | "WithouFreSpacExt" v2) |
16 u32 version(2) | 20 u32 heads | 24 u32 cylinders | 28 u32 tracks = sectors per cluster | 32 u32 bat_entries |
36 u64 nb_sectors (v1: u32 + 4 unused bytes) | 44 u32 inuse | 48 u32 data_off (sectors) | 52 u32 flags | 56 u64 ext_off.
BAT: u32 LE per cluster directly after the header; 0 = unallocated (parent / zeros);
v1: sector number of the cluster in the file; v2: cluster number (offset = entry * tracks * 512).
"""
from __future__ import annotations

import struct

from mc import pattern
from mc.models import DATA, HOLE, GuestDisk
from mc.vfile import Image, slot_range

HDR = "<16sIIIIIQIIIQ"
SIG = {1: b"WithoutFreeSpace", 2: b"WithouFreSpacExt"}
NULL_GUID = "{00000000-0000-0000-0000-000000000000}"
DEFAULT_TOP = "{5fbaabe3-6958-40ff-92a7-860e329aab41}"


def build_hds(states, slots, spc, version=2, size_sectors=None, layer=1, skew=0, nslots=None, tail_slack=True,
              bat_entries=None, data_off=None):
    """states: HOLE/DATA per cluster; slots: slot p -> the cluster lives at file offset (p*spc + skew) sectors.
    skew (v1 only): extra sectors, so that v1 entries are not multiples of the cluster size."""
    n = len(states)
    if size_sectors is None:
        size_sectors = n * spc
    if version == 2:
        assert skew == 0
    cl = spc * 512
    entries = []
    for st, p in zip(states, slots):
        if st == HOLE:
            entries.append(0)
        else:
            entries.append(p * spc + skew if version == 1 else p)
    bat_entries = bat_entries if bat_entries is not None else n
    hdr_end = 64 + 4 * bat_entries
    used = {p for st, p in zip(states, slots) if st == DATA}
    first = min(used, default=1)
    assert all(p * cl + skew * 512 >= hdr_end for p in used), "data slot overlaps header/BAT"
    if data_off is None:
        data_off = (hdr_end + 511) // 512
    # version 1 keeps the sector count in 32 bits; the dword behind it is unused by the format and not necessarily zero
    size_field = size_sectors if version == 2 else ((size_sectors & 0xFFFFFFFF) | (0xA5C3F00D << 32))
    # inuse = 0x746F6E59 ("Yngt": the image was not closed cleanly) on the images with an odd sector count: nothing a reader
    # of the data has to care about
    hdr = struct.pack(HDR, SIG[version], 2, 16, max(1, size_sectors // (16 * 32)), spc, bat_entries, size_field,
                      0x746F6E59 if size_sectors % 2 else 0, data_off, 0, 0)
    img = Image("hds")
    img.put(0, hdr)
    img.put(64, struct.pack(f"<{bat_entries}I", *(entries + [0] * (bat_entries - n))))
    for name, off, w in (("signature", 0, 16), ("version", 16, 4), ("heads", 20, 4), ("cylinders", 24, 4),
                         ("tracks", 28, 4), ("bat_entries", 32, 4), ("nb_sectors", 36, 8), ("inuse", 44, 4),
                         ("data_off", 48, 4), ("flags", 52, 4), ("ext_off", 56, 8)):
        img.field(name, off, w, "<", "header")
    for i in range(n):
        img.field(f"bat[{i}]", 64 + 4 * i, 4, "<", "table")
    if nslots is None:
        nslots = max(used, default=0) + 1
    inv = {p: i for i, (st, p) in enumerate(zip(states, slots)) if st == DATA}
    lo = (hdr_end + cl - 1) // cl  # first whole slot after the tables
    for p in slot_range(min(lo, first), nslots + (1 if tail_slack else 0), used):
        off = p * cl + skew * 512
        if p in inv:
            img.put_pattern(off, cl, layer, inv[p] * cl)
        elif off >= hdr_end:
            img.put_pattern(off, cl, pattern.SLACK, off)
    return img


def model_hds(states, spc, size_sectors=None, layer=1, parent=None):
    n = len(states)
    size = (size_sectors if size_sectors is not None else n * spc) * 512
    return GuestDisk(size, spc * 512, list(states), layer, parent)


def decode_hds(data: bytes):
    sig, ver, heads, cyl, tracks, nbat, nsec, inuse, doff, flags, ext = struct.unpack_from(HDR, data, 0)
    version = {v: k for k, v in SIG.items()}[sig]
    if version == 1:
        nsec &= 0xFFFFFFFF
    ents = struct.unpack_from(f"<{nbat}I", data, 64)
    return version, tracks, nsec, [e * 512 if version == 1 else e * tracks * 512 for e in ents]


def descriptor_xml(disk_sectors, storages, shots, top_guid=None, version="1.0"):
    """storages: [(start, end, [(guid, type, file)])]; shots: [(guid, parent_guid)]; top_guid: str | None (element absent)."""
    x = ["<?xml version='1.0' encoding='UTF-8'?>", f'<Parallels_disk_image Version="{version}">',
         " <Disk_Parameters>", f"  <Disk_size>{disk_sectors}</Disk_size>", "  <Cylinders>400</Cylinders>",
         "  <PhysicalSectorSize>4096</PhysicalSectorSize>", "  <LogicSectorSize>512</LogicSectorSize>",
         "  <Heads>16</Heads>", "  <Sectors>32</Sectors>", "  <Padding>0</Padding>",
         "  <UID>{0610bb35-447e-4aae-aa79-f1571d969081}</UID>", "  <Name>verif</Name>", " </Disk_Parameters>",
         " <StorageData>"]
    for start, end, images in storages:
        x += ["  <Storage>", f"   <Start>{start}</Start>", f"   <End>{end}</End>", "   <Blocksize>2048</Blocksize>"]
        for guid, typ, fn in images:
            x += ["   <Image>", f"    <GUID>{guid}</GUID>", f"    <Type>{typ}</Type>", f"    <File>{_esc(fn)}</File>",
                  "   </Image>"]
        x += ["  </Storage>"]
    x += [" </StorageData>", " <Snapshots>"]
    if top_guid is not None:
        x += [f"  <TopGUID>{top_guid}</TopGUID>"]
    for guid, parent in shots:
        x += ["  <Shot>", f"   <GUID>{guid}</GUID>", f"   <ParentGUID>{parent}</ParentGUID>", "  </Shot>"]
    x += [" </Snapshots>", "</Parallels_disk_image>", ""]
    return "\n".join(x)


def _esc(s):
    return s.replace("&", "&amp;").replace("<", "&lt;").replace(">", "&gt;")


def selfvalidate():
    import gzip
    import os

    from mc.bootstrap import repo_root
    from mc.diskcheck import window_models

    n = 0
    for ver in (1, 2):
        for states, slots in window_models([HOLE, DATA], 3, 4, 1):
            img = build_hds(states, slots, 8, ver, 3 * 8 - 3, skew=3 if ver == 1 else 0)
            data = img.tobytes()
            v, tracks, nsec, offs = decode_hds(data)
            assert (v, tracks, nsec) == (ver, 8, 21)
            for i, (st, p) in enumerate(zip(states, slots)):
                if st == DATA:
                    assert data[offs[i]: offs[i] + 4096] == pattern.span(1, i * 4096, 4096), (ver, states, slots)
                else:
                    assert offs[i] == 0
            n += 1
    # fixture: the repository's expanding HDS must decode with this transcription (v2, in-order clusters)
    fx = os.path.join(repo_root(), "tests/data/expanding.hdd/expanding.hdd.0.{5fbaabe3-6958-40ff-92a7-860e329aab41}.hds.gz")
    if os.path.exists(fx):
        data = gzip.open(fx).read()
        v, tracks, nsec, offs = decode_hds(data)
        assert v in (1, 2) and nsec == 204800 and tracks == 2048, (v, tracks, nsec)
        assert offs[0] == 0  # cluster 0 of the fixture is a hole (its content byte is 0)
        for i, o in enumerate(offs[:100]):
            assert i == 0 or (o and data[o: o + 16] == bytes([i]) * 16), (i, o)
        n += 1
    return n
