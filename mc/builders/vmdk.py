"""VMDK extent serializers.  struct only.  Sources: VMware "Virtual Disk Format 1.1" (hosted sparse, stream-optimized,
ESX COWD), QEMU block/vmdk.c (SE-sparse).

Hosted sparse header (512 bytes LE): 0 "KDMV" | 4 u32 version (1; 3 = stream-optimized) | 8 u32 flags (bit0 newline
  test, bit1 redundant GT, bit2 zeroed-grain GTE, bit16 compressed, bit17 embedded LBA markers) | 12 u64 capacity |
  20 u64 grainSize | 28 u64 descriptorOffset | 36 u64 descriptorSize | 44 u32 numGTEsPerGT (512) | 48 u64 rgdOffset |
  56 u64 gdOffset (2^64-1: use the footer, a copy of the header 1024 bytes before the end) | 64 u64 overHead |
  72 u8 uncleanShutdown | 73 "\\n \\r\\n" | 77 u16 compressAlgorithm | pad.
  GD: u32 sector of each grain table, ceil(capacity / (numGTEs*grainSize)) entries; GT: u32 sector of each grain,
  0 = not allocated, 1 = zeroed grain (flag bit2).  Compressed grain: {u64 lba, u32 size} + zlib stream, sector padded.
  Stream-optimized files carry markers {u64 numSectors, u32 size=0, u32 type} before GTs (1), the GD (2), the footer (3)
  and end with an end-of-stream marker (0).
COWD header: "COWD" | u32 version 1 | u32 flags 3 | u32 capacity | u32 grainSize | u32 gdOffset | u32 numGDEntries |
  u32 nextFreeSector | ... (2048 bytes); grain tables have 4096 u32 entries; 0 = not allocated.
SE-sparse constant header: 26 x u64 (magic 0xCAFEBABE, version 0x0000000200000001, capacity, grain size, grain table
  size in sectors, flags, 4 reserved, volatile hdr off/size, journal hdr off/size, journal off/size, GD off/size,
  GT off/size, free bitmap off/size, backmap off/size, grains off/size), all in sectors.  GD entry =
  0x1000000000000000 | table index; GT entry: top nibble 0 unallocated, 1 fall through (SCSI unmapped), 2 zero,
  3 allocated with cluster c stored as ((c & 0xFFF) << 48) | (c >> 12); data at (grains off + c*grain size)*512.
"""
from __future__ import annotations

import struct
import zlib

from mc import pattern
from mc.models import DATA, HOLE, ZERO, GuestDisk, RawDisk
from mc.vfile import Image, entries, entries1, slot_range

S = 512
HOSTED = "<4sIIQQQQIQQQB4sH433s"
GD_AT_END = 0xFFFFFFFFFFFFFFFF
CDATA = "C"  # data grain with compressible content (pattern layer 0x8000 | layer)
FALL = "F"  # SE-sparse fall-through entry: reads like a hole
STALE = "S"  # SE-sparse unallocated entry (top nibble 0) whose lower bits still hold a stale value: reads like a hole
PLACED = (DATA, CDATA)


def layer_of(st, layer):
    return (pattern.COMPRESSIBLE | layer) if st == CDATA else layer


def descriptor_text(create_type, extents, cid="fffffffe", parent_cid="ffffffff", parent_hint=None, ddb=None, extra=None):
    """extents: list of (access, sectors, kind, filename | None, start | None)."""
    lines = ["# Disk DescriptorFile", "version=1", f"CID={cid}", f"parentCID={parent_cid}", f'createType="{create_type}"']
    if parent_hint is not None:
        lines.append(f'parentFileNameHint="{parent_hint}"')
    for k, v in (extra or []):
        lines.append(f"{k}={v}")
    lines += ["", "# Extent description"]
    for access, sectors, kind, fn, start in extents:
        ln = f"{access} {sectors} {kind}"
        if fn is not None:
            ln += f' "{fn}"'
        if start is not None:
            ln += f" {start}"
        lines.append(ln)
    lines += ["", "# The Disk Data Base", "#DDB", ""]
    for k, v in (ddb or [("ddb.virtualHWVersion", "4"), ("ddb.adapterType", "lsilogic")]):
        lines.append(f'{k} = "{v}"')
    return "\n".join(lines) + "\n"


def _hosted_header(version, flags, capacity, grain, desc_off, desc_size, ngte, rgd, gd, overhead, comp):
    return struct.pack(HOSTED, b"KDMV", version, flags, capacity, grain, desc_off, desc_size, ngte, rgd, gd, overhead, 0,
                       b"\n \r\n", comp, b"")


def _marker(num_sectors, typ):
    return struct.pack("<QII", num_sectors, 0, typ).ljust(S, b"\0")


def build_hosted(states, slots, grain=8, ngte=512, capacity=None, window_at=0, total_grains=None, footer=False,
                 compressed=False, descriptor=None, stride=None, data_base=None, table_base=None, elide_empty_gt=True,
                 layer=1, gt_order="asc", gd_entries=None, nslots=None, label="kdmv", name=None, zero_flag=True, explicit=None,
                 embedded_lba=True, gd_at=None):
    """gd_at: sector of the grain directory when it does not sit directly in front of the grain tables (its offset is a
    64-bit field, the tables' sectors are 32-bit entries)."""
    W = len(states)
    total = total_grains or (window_at + W)
    if capacity is None:
        capacity = total * grain
    cover = ngte * grain
    ngd = gd_entries or (capacity + cover - 1) // cover
    gt_sectors = (ngte * 4 + S - 1) // S
    img = Image(label, name)
    desc_off = desc_size = 0
    pos = 1
    if descriptor is not None:
        raw = descriptor.encode()
        desc_off, desc_size = 1, max(20, (len(raw) + S - 1) // S)
        area = raw.ljust(desc_size * S, b"\0")
        # the descriptor is the text up to its NUL terminator; behind it the area may still hold the tail of an earlier, longer
        # descriptor that was overwritten in place (whenever there is room)
        stale = b'\nparentCID=ffffffff\nparentFileNameHint="gone-away.vmdk"\nRW 7 SPARSE "stale-s001.vmdk"\nddb.adapterType = "ide"\n'
        if len(raw) + 64 + len(stale) < len(area):
            at = len(area) - len(stale) - 7
            area = area[:at] + stale + area[at + len(stale):]
        img.put(S, area)
        pos = 1 + desc_size
    if stride is None:
        stride = grain
    used_tables = sorted({(window_at + i) // ngte for i, st in entries1(states) if st != HOLE} if elide_empty_gt
                         else set(range(ngd)))
    gd_sectors = (ngd * 4 + S - 1) // S
    # --- physical plan -------------------------------------------------------------------------------------
    if not footer:
        gd_sector = table_base if table_base is not None else pos
        gt0 = gd_sector + gd_sectors
        if gd_at is not None:
            gd_sector = gd_at
        tables_end = gt0 + len(used_tables) * gt_sectors
        d0 = data_base if data_base is not None else (tables_end + grain - 1) // grain * grain
    else:
        d0 = data_base if data_base is not None else (pos + grain - 1) // grain * grain
    used = {p for _i, st, p in entries(states, slots) if st in PLACED}
    if nslots is None:
        nslots = max(used, default=-1) + 1
    data_end = d0 + (nslots + 1) * stride
    if footer:
        # stream-optimized order: grains, [GT marker, GTs], GD marker, GD, footer marker, footer, EOS
        gt0 = (table_base if table_base is not None else data_end) + 1
        tables_end = gt0 + len(used_tables) * gt_sectors
        gd_sector = tables_end + 1
    order = list(used_tables)
    if gt_order == "desc":
        order = order[::-1]
    elif gt_order == "mid":  # first and last table where they usually are, the ones in between in reverse order
        order = order[:1] + order[1:-1][::-1] + order[-1:]
    gt_sector = {t: gt0 + order.index(t) * gt_sectors for t in used_tables}
    # --- grains ----------------------------------------------------------------------------------------------
    ent = {}
    inv = {}
    for i, st, p in entries(states, slots):
        g = window_at + i
        if st in PLACED:
            ent[g] = d0 + p * stride
            inv[p] = (g, st)
        elif st == ZERO:
            ent[g] = 1
    for p in slot_range(0, nslots + 1, used):
        sec = d0 + p * stride
        if p in inv:
            g, st = inv[p]
            lay = layer_of(st, layer)
            if compressed:
                body = (explicit or {}).get(g) or pattern.span(lay, g * grain * S, grain * S)
                z = zlib.compress(body, 6)
                rec = (struct.pack("<QI", g * grain, len(z)) if embedded_lba else struct.pack("<I", len(z))) + z
                rec_sectors = (len(rec) + S - 1) // S
                if rec_sectors > stride:
                    raise ValueError(f"compressed record of {rec_sectors} sectors does not fit stride {stride}")
                img.put(sec * S, rec.ljust(rec_sectors * S, b"\0"), meta=False)
                if rec_sectors < stride:
                    img.put_pattern((sec + rec_sectors) * S, (stride - rec_sectors) * S, pattern.SLACK,
                                    (sec + rec_sectors) * S)
            elif explicit and g in explicit:
                img.put(sec * S, explicit[g], meta=False)
            else:
                img.put_pattern(sec * S, grain * S, lay, g * grain * S)
                if stride > grain:
                    img.put_pattern((sec + grain) * S, (stride - grain) * S, pattern.SLACK, (sec + grain) * S)
        else:
            img.put_pattern(sec * S, stride * S, pattern.SLACK, sec * S)
    # --- tables ----------------------------------------------------------------------------------------------
    gd = [0] * ngd
    for t in used_tables:
        if t < ngd:
            gd[t] = gt_sector[t]
        tab = [ent.get(t * ngte + j, 0) for j in range(ngte)]
        img.put(gt_sector[t] * S, struct.pack(f"<{ngte}I", *tab).ljust(gt_sectors * S, b"\0"))
        for j in range(ngte):
            if t * ngte + j in ent or window_at <= t * ngte + j < window_at + W:
                img.field(f"gt[{t}][{j}]", gt_sector[t] * S + 4 * j, 4, "<", "table")
    img.put(gd_sector * S, struct.pack(f"<{ngd}I", *gd).ljust(gd_sectors * S, b"\0"))
    for t in range(min(ngd, 8)):
        img.field(f"gd[{t}]", gd_sector * S + 4 * t, 4, "<", "table")
    flags = 1 | (4 if zero_flag else 0) | ((0x30000 if embedded_lba else 0x10000) if compressed else 0)
    # flag bit 1 (a redundant directory is in use) is clear: the rgdOffset field means nothing; it is not zero on the images
    # with an odd capacity
    rgd_stale = (gd_sector + 7777) if capacity % 2 else 0
    version = 3 if compressed else 1
    comp = 1 if compressed else 0
    overhead = d0
    if footer:
        img.put((gt0 - 1) * S, _marker(len(used_tables) * gt_sectors, 1))
        img.put((gd_sector - 1) * S, _marker(gd_sectors, 2))
        fsec = gd_sector + gd_sectors
        img.put(fsec * S, _marker(1, 3))
        img.put((fsec + 1) * S, _hosted_header(version, flags, capacity, grain, desc_off, desc_size, ngte, rgd_stale, gd_sector,
                                               overhead, comp))
        img.put((fsec + 2) * S, _marker(0, 0))
        img.put(0, _hosted_header(version, flags, capacity, grain, desc_off, desc_size, ngte, rgd_stale, GD_AT_END, overhead, comp))
        hdr_offs = [0, (fsec + 1) * S]
    else:
        img.put(0, _hosted_header(version, flags, capacity, grain, desc_off, desc_size, ngte, rgd_stale, gd_sector, overhead, comp))
        hdr_offs = [0]
    for n, base in enumerate(hdr_offs):
        pre = "header." if n == 0 else "footer."
        for nm, o, w in (("magic", 0, 4), ("version", 4, 4), ("flags", 8, 4), ("capacity", 12, 8), ("grain_size", 20, 8),
                         ("descriptor_offset", 28, 8), ("descriptor_size", 36, 8), ("num_gtes", 44, 4),
                         ("rgd_offset", 48, 8), ("gd_offset", 56, 8), ("overhead", 64, 8), ("compress", 77, 2)):
            img.field(pre + nm, base + o, w, "<", "header")
    return img


def build_cowd(states, slots, grain=8, capacity=None, window_at=0, total_grains=None, layer=1, data_base=None,
               nslots=None, elide_empty_gt=True, label="cowd", name=None, gd_entries=None):
    NGTE = 4096
    W = len(states)
    total = total_grains or (window_at + W)
    if capacity is None:
        capacity = total * grain
    ngd = gd_entries or (capacity + NGTE * grain - 1) // (NGTE * grain)
    gd_sector = 4
    gd_sectors = (ngd * 4 + S - 1) // S
    used_tables = sorted({(window_at + i) // NGTE for i, st in entries1(states) if st != HOLE} if elide_empty_gt
                         else set(range(ngd)))
    gt0 = gd_sector + gd_sectors
    gt_sectors = NGTE * 4 // S
    d0 = data_base if data_base is not None else (gt0 + len(used_tables) * gt_sectors + grain - 1) // grain * grain
    used = {p for _i, st, p in entries(states, slots) if st == DATA}
    if nslots is None:
        nslots = max(used, default=-1) + 1
    img = Image(label, name)
    hdr = struct.pack("<4sIIIIIII", b"COWD", 1, 3, capacity, grain, gd_sector, ngd, d0 + (nslots + 1) * grain)
    img.put(0, hdr.ljust(2048, b"\0"))
    ent = {}
    inv = {}
    for i, st, p in entries(states, slots):
        if st == DATA:
            ent[window_at + i] = d0 + p * grain
            inv[p] = window_at + i
    for p in slot_range(0, nslots + 1, used):
        sec = d0 + p * grain
        if p in inv:
            img.put_pattern(sec * S, grain * S, layer, inv[p] * grain * S)
        else:
            img.put_pattern(sec * S, grain * S, pattern.SLACK, sec * S)
    gd = [0] * ngd
    for n, t in enumerate(used_tables):
        gd[t] = gt0 + n * gt_sectors
        tab = [ent.get(t * NGTE + j, 0) for j in range(NGTE)]
        img.put(gd[t] * S, struct.pack(f"<{NGTE}I", *tab))
        for j in range(NGTE):
            if window_at <= t * NGTE + j < window_at + W:
                img.field(f"gt[{t}][{j}]", gd[t] * S + 4 * j, 4, "<", "table")
    img.put(gd_sector * S, struct.pack(f"<{ngd}I", *gd).ljust(gd_sectors * S, b"\0"))
    for nm, o, w in (("magic", 0, 4), ("version", 4, 4), ("flags", 8, 4), ("capacity", 12, 4), ("grain_size", 16, 4),
                     ("gd_offset", 20, 4), ("num_gd_entries", 24, 4), ("next_free", 28, 4)):
        img.field("header." + nm, o, w, "<", "header")
    for t in range(min(ngd, 8)):
        img.field(f"gd[{t}]", gd_sector * S + 4 * t, 4, "<", "table")
    return img


def se_entry(c):
    return 0x3000000000000000 | ((c & 0xFFF) << 48) | (c >> 12)


def build_sesparse(states, slots, grain=8, gt_sectors=64, capacity=None, window_at=0, total_grains=None, layer=1,
                   gt_order="asc", cluster_base=0, nslots=None, label="sesparse", name=None, elide_empty_gt=True):
    gte = gt_sectors * S // 8
    W = len(states)
    total = total_grains or (window_at + W)
    if capacity is None:
        capacity = total * grain
    ngt = (capacity + gte * grain - 1) // (gte * grain)
    gd_sectors = max(1, (ngt * 8 + S - 1) // S)
    gd_off = 16
    gt_off = gd_off + gd_sectors
    used_tables = sorted({(window_at + i) // gte for i, st in entries1(states) if st != HOLE} if elide_empty_gt
                         else set(range(ngt)))
    order = list(used_tables)
    if gt_order == "desc":
        order = order[::-1]
    elif gt_order == "mid":
        order = order[:1] + order[1:-1][::-1] + order[-1:]
    tindex = {t: order.index(t) for t in used_tables}  # physical table index named by the GD entry
    grains_off = (gt_off + max(1, len(used_tables)) * gt_sectors + 8 + grain - 1) // grain * grain
    used = {p for _i, st, p in entries(states, slots) if st == DATA}
    if nslots is None:
        nslots = max(used, default=-1) + 1
    img = Image(label, name)
    hdr = struct.pack("<26Q", 0xCAFEBABE, 0x0000000200000001, capacity, grain, gt_sectors, 0, 0, 0, 0, 0, 1, 1, 2, 1, 3, 4,
                      gd_off, gd_sectors, gt_off, max(1, len(used_tables)) * gt_sectors, 8, 1, 9, 1, grains_off,
                      (cluster_base + nslots + 1) * grain)
    img.put(0, hdr.ljust(S, b"\0"))
    names = ("magic version capacity grain_size grain_table_size flags r1 r2 r3 r4 vol_off vol_size jh_off jh_size j_off "
             "j_size gd_off gd_size gt_off gt_size fb_off fb_size bm_off bm_size grains_off grains_size").split()
    for i, nm in enumerate(names):
        img.field("header." + nm, 8 * i, 8, "<", "header")
    gd = bytearray(gd_sectors * S)
    for t in used_tables:
        struct.pack_into("<Q", gd, t * 8, 0x1000000000000000 | tindex[t])
        img.field(f"gd[{t}]", gd_off * S + 8 * t, 8, "<", "table")
    img.put(gd_off * S, bytes(gd))
    tabs = {t: bytearray(gt_sectors * S) for t in used_tables}
    inv = {}
    for i, st, p in entries(states, slots):
        g = window_at + i
        t = g // gte
        if st == HOLE:
            continue
        if st == ZERO:
            e = 0x2000000000000000
        elif st == FALL:
            e = 0x1000000000000000
        elif st == STALE:
            e = (0x0004000000000002, 0x0000000000000007, 0x0FFF00000000FFFF)[g % 3]
        else:
            c = cluster_base + p
            e = se_entry(c)
            inv[p] = g
        struct.pack_into("<Q", tabs[t], (g % gte) * 8, e)
        img.field(f"gt[{t}][{g % gte}]", (gt_off + tindex[t] * gt_sectors) * S + (g % gte) * 8, 8, "<", "table")
    for t in used_tables:
        img.put((gt_off + tindex[t] * gt_sectors) * S, bytes(tabs[t]))
    for p in slot_range(0, nslots + 1, used):
        sec = grains_off + (cluster_base + p) * grain
        if p in inv:
            img.put_pattern(sec * S, grain * S, layer, inv[p] * grain * S)
        else:
            img.put_pattern(sec * S, grain * S, pattern.SLACK, sec * S)
    return img


def build_flat(nsec, layer=1, slack_sectors=0, label="flat", name=None):
    img = Image(label, name)
    img.put_pattern(0, nsec * S, layer, 0)
    if slack_sectors:
        img.put_pattern(nsec * S, slack_sectors * S, pattern.SLACK, nsec * S)
    return img


def model_flat(nsec, layer=1):
    return RawDisk(pattern.sectors(layer, 0, nsec))


def tuned_grain(grain_sectors, target_len, seed=0):
    """Grain content (incompressible prefix + constant fill) whose zlib stream is exactly target_len bytes long, or None."""
    import hashlib

    n = grain_sectors * S
    rnd = b"".join(hashlib.sha256(b"tuned/%d/%d" % (seed, i)).digest() for i in range(n // 32 + 1))
    lo, hi = 0, n
    for k in range(max(0, target_len - 60), min(n, target_len + 8)):
        body = rnd[:k] + bytes([0x41 + seed % 20]) * (n - k)
        if len(zlib.compress(body, 6)) == target_len:
            return body
    return None


def model(states, grain, capacity=None, window_at=0, total_grains=None, layer=1, parent=None, explicit=None):
    W = len(states)
    total = total_grains or (window_at + W)
    units = [HOLE] * total if total <= 200000 else {}
    layers = {}
    for i, st in entries1(states):
        g = window_at + i
        if st in PLACED:
            units[g] = DATA
            if st == CDATA:
                layers[g] = layer_of(st, layer)
        elif st == ZERO:
            units[g] = ZERO
        elif st == STALE:
            units[g] = HOLE
        else:
            units[g] = HOLE
    size = (capacity if capacity is not None else total * grain) * S
    return GuestDisk(size, grain * S, units, layer, parent, unit_layers=layers, unit_bytes=explicit)


# ---- independent mini-decoders --------------------------------------------------------------------------------
def decode_hosted(read, size):
    h = struct.unpack(HOSTED, read(0, 512))
    if h[9] == GD_AT_END:
        h = struct.unpack(HOSTED, read(size - 1024, 512))
    assert h[0] == b"KDMV"
    flags, capacity, grain, ngte, gd_off = h[2], h[3], h[4], h[7], h[9]
    ngd = (capacity + ngte * grain - 1) // (ngte * grain)
    gd = struct.unpack(f"<{ngd}I", read(gd_off * S, 4 * ngd))

    def grain_bytes(g):
        t, j = divmod(g, ngte)
        if not gd[t]:
            return None
        e, = struct.unpack("<I", read(gd[t] * S + 4 * j, 4))
        if e == 0:
            return None
        if e == 1:
            return b"\0" * (grain * S)
        if flags & 0x10000:
            lba, n = struct.unpack("<QI", read(e * S, 12))
            assert lba == g * grain
            return zlib.decompress(read(e * S + 12, n))
        return read(e * S, grain * S)

    return capacity, grain, grain_bytes


def decode_sesparse(read):
    h = struct.unpack("<26Q", read(0, 208))
    assert h[0] == 0xCAFEBABE
    capacity, grain, gts, gd_off, gt_off, grains_off = h[2], h[3], h[4], h[16], h[18], h[24]
    gte = gts * S // 8

    def grain_bytes(g):
        t, j = divmod(g, gte)
        d, = struct.unpack("<Q", read(gd_off * S + 8 * t, 8))
        if d >> 60 != 1:
            return None
        e, = struct.unpack("<Q", read((gt_off + (d & 0xFFFFFFFF) * gts) * S + 8 * j, 8))
        typ = e >> 60
        if typ in (0, 1):
            return None
        if typ == 2:
            return b"\0" * (grain * S)
        c = ((e >> 48) & 0xFFF) | ((e & 0xFFFFFFFFFFFF) << 12)
        return read((grains_off + c * grain) * S, grain * S)

    return capacity, grain, grain_bytes


def selfvalidate():
    import gzip
    import os

    from mc.bootstrap import repo_root
    from mc.diskcheck import window_models

    n = 0
    for footer, comp in ((False, False), (True, True), (False, True)):
        alpha = [HOLE, ZERO, DATA] + ([CDATA] if comp else [])
        for states, slots in window_models(alpha, 3, 4, placed=PLACED):
            img = build_hosted(states, slots, 8, 512, 513 * 8 - 1, window_at=510, total_grains=513, footer=footer,
                               compressed=comp, stride=10 if comp else None)
            f = img.sparse(log=False)
            cap, grain, gb = decode_hosted(f.peek_at, f.size)
            assert (cap, grain) == (513 * 8 - 1, 8)
            ref = model(states, 8, 513 * 8, 510, 513)
            for i, st in entries1(states):
                got = gb(510 + i)
                exp = ref.content((510 + i) * 4096, 4096)
                assert (got is None and st == HOLE) or got == exp, (states, slots, i)
            n += 1
    for states, slots in window_models([HOLE, ZERO, FALL, DATA], 3, 4):
        img = build_sesparse(states, slots, 8, 64, window_at=4095, total_grains=4098, gt_order="desc", cluster_base=4090)
        f = img.sparse(log=False)
        cap, grain, gb = decode_sesparse(f.peek_at)
        ref = model(states, 8, None, 4095, 4098)
        for i, st in entries1(states):
            got = gb(4095 + i)
            assert (got is None and st in (HOLE, FALL)) or got == ref.content((4095 + i) * 4096, 4096), (states, slots, i)
        n += 1
    # fixture: the SE-sparse sample decodes with this transcription (16 MiB of 'a' in the first grains)
    p = os.path.join(repo_root(), "tests/data/sesparse.vmdk.gz")
    if os.path.exists(p):
        data = gzip.open(p).read()
        cap, grain, gb = decode_sesparse(lambda o, k: data[o:o + k])
        assert gb(0) == b"a" * (grain * S) and gb(1) == b"a" * (grain * S)
        n += 1
    return n
