"""vmtar (ESXi visor tar) serializer.  struct only; layout from /bin/vmtar output (repository fixture test.vgz).

A visor member header is a 512-byte ustar-shaped header with magic "visor  " at 257 and, little endian,
u32 data offset at 496, u32 text offset at 500, u32 textPgs at 504, u32 fixUpPgs at 508.  All headers are contiguous, followed by two zero blocks;
file data lives in a data area behind them, at the absolute offset named by each header (vmtar aligns it to 4096, the
alignment is not needed to read it).  Directories and empty files carry no data.  Standard ustar members keep their data
inline (512-byte padded).  GNU long names: a pseudo member of type 'L' whose data is the name precedes the real header.
"""
from __future__ import annotations

import gzip
import struct


def hdr(name, size, typ=b"0", visor=True, offset_data=0, text=0, fix=0, mode=0o644, mtime=0o14000000000, prefix="", linkname=""):
    """prefix: ustar prefix field (155 bytes at 345; the member is <prefix>/<name>); a visor header overlays its last bytes."""
    b = bytearray(512)
    pb = prefix.encode()[:155]
    b[345:345 + len(pb)] = pb
    lb = linkname.encode()[:100]
    b[157:157 + len(lb)] = lb
    nb = (name if isinstance(name, bytes) else name.encode())[:100]
    b[0:len(nb)] = nb
    b[100:108] = b"%07o\0" % mode
    b[108:116] = b"%07o\0" % 0
    b[116:124] = b"%07o\0" % 0
    b[124:136] = b"%011o\0" % size
    b[136:148] = b"%011o\0" % mtime
    b[156:157] = typ
    if visor:
        b[257:265] = b"visor  \0"
        struct.pack_into("<I", b, 496, offset_data)
        # 500: offset of the text section inside the member (vmtar writes it for executables); it does not take part in locating
        # the member's data and is never zero here
        struct.pack_into("<I", b, 500, 0x1000 * (text + 1) + 4)
        struct.pack_into("<II", b, 504, text, fix)
    else:
        b[257:263] = b"ustar\0"
        b[263:265] = b"00"
    b[148:156] = b" " * 8
    chk = sum(b)
    b[148:156] = b"%06o\0 " % chk
    return bytes(b)


def pad512(d):
    return d + b"\0" * ((-len(d)) % 512)


def build(members, align=4096, data_order=None, gap=0, gz=False, trailing=0):
    """members: list of (name, kind, data); kind in visor | vempty | vdir | dir | ustar | uempty.
    data_order: order (member indices) in which the visor data areas are laid out.
    Returns (bytes, offsets {member index: data offset})."""
    head = bytearray()
    visor_idx = [i for i, m in enumerate(members) if m[1] == "visor"]
    order = list(data_order) if data_order is not None else visor_idx
    # size of the header area first
    size = 0
    for name, kind, data in members:
        if len(name.encode()) > 100:
            size += 512 + len(pad512(name.encode() + b"\0"))
        size += 512
        if kind == "ustar":
            size += len(pad512(data))
    size += 1024
    start = size + gap
    if align > 1:
        start = (start + align - 1) // align * align
    offs = {}
    area = bytearray()
    for i in order:
        if align > 1:
            area += b"\xEE" * ((-len(area)) % align)
        offs[i] = start + len(area)
        area += members[i][2]
        area += b"\xEE" * gap
    for i, (name, kind, data) in enumerate(members):
        if len(name.encode()) > 100:
            ln = name.encode() + b"\0"
            head += hdr("././@LongLink", len(ln), typ=b"L", visor=False) + pad512(ln)
        if kind == "visor":
            head += hdr(name, len(data), offset_data=offs[i], text=(i * 3) % 5, fix=i % 2)
        elif kind == "vempty":
            head += hdr(name, 0)
        elif kind == "vdir":
            head += hdr(name, 0, typ=b"5", mode=0o755)
        elif kind == "dir":
            head += hdr(name, 0, typ=b"5", visor=False, mode=0o755)
        elif kind == "uempty":
            head += hdr(name, 0, visor=False)
        elif kind == "ustar":
            head += hdr(name, len(data), visor=False) + pad512(data)
        else:
            raise ValueError(kind)
    head += b"\0" * 1024
    assert len(head) == size
    out = bytes(head).ljust(start, b"\0") + bytes(area) + b"\0" * trailing
    return (gzip.compress(out, mtime=0) if gz else out), offs


def build_sparse(members, offsets):
    """Visor-only archive as a sparse Image: member i's data lives at the absolute offset offsets[i] (any u32 value)."""
    from mc.vfile import Image

    head = bytearray()
    img = Image("vmtar")
    for (name, kind, data), off in zip(members, offsets):
        assert kind == "visor"
        head += hdr(name, len(data), offset_data=off)
        img.put(off, data, meta=False)
    head += b"\0" * 1024
    img.put(0, bytes(head))
    return img


def selfvalidate():
    import os

    from mc.bootstrap import repo_root

    n = 0
    p = os.path.join(repo_root(), "tests/data/test.vgz")
    if os.path.exists(p):
        raw = open(p, "rb").read()
        if raw[:2] == b"\x1f\x8b":
            raw = gzip.decompress(raw)
        # walk the fixture with this transcription
        pos = 0
        found = {}
        while raw[pos:pos + 512] != b"\0" * 512:
            h = raw[pos:pos + 512]
            assert h[257:264] == b"visor  "
            name = h[:100].rstrip(b"\0").decode()
            size = int(h[124:135], 8)
            off, = struct.unpack_from("<I", h, 496)
            found[name.rstrip("/")] = raw[off:off + size] if h[156:157] == b"0" and size else b""
            pos += 512
        assert found["test/file1"] == b"a" * 512 + b"\n" and found["test/subdir/file4"] == b"f" * 2048 + b"\n"
        # the header builder reproduces a fixture header apart from owner / time fields: compare the visor fields
        n += 1
    return n
