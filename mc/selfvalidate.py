"""Builder self-validation (DESIGN 3.4): independent decoders round-trip the builders' output; builders reproduce the
repository fixtures where a fixture exists.  Run by setup.sh; a failure is a hard error (exit 2)."""
from __future__ import annotations

import importlib
import traceback

VALIDATORS = ["mc.builders.vdi", "mc.builders.hdd", "mc.builders.vhd", "mc.builders.vhdx", "mc.builders.vmdk", "mc.builders.qcow2", "mc.builders.vmxenc", "mc.builders.envelope", "mc.builders.hyperv", "mc.builders.vmtar"]


def main() -> int:
    from mc import bootstrap

    bootstrap.activate(None)
    bad = 0
    for name in VALIDATORS:
        mod = importlib.import_module(name)
        fn = getattr(mod, "selfvalidate", None)
        if fn is None:
            continue
        try:
            n = fn()
            print(f"selfvalidate {name}: ok ({n} cases)")
        except Exception:
            bad += 1
            print(f"selfvalidate {name}: FAILED\n{traceback.format_exc()}")
    return 2 if bad else 0
