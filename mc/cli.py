from __future__ import annotations

import argparse
import os
import sys


def main(argv=None) -> int:
    ap = argparse.ArgumentParser(prog="check")
    ap.add_argument("what", help="C01..C20 | replay | selfvalidate")
    ap.add_argument("path", nargs="?")
    ap.add_argument("--tier", default=os.environ.get("VERIF_TIER") or "quick", choices=["quick", "thorough"])
    ap.add_argument("--seed", type=int, default=None)
    ap.add_argument("--jobs", type=int, default=None)
    a = ap.parse_args(argv)
    seed = a.seed if a.seed is not None else int(os.environ.get("VERIF_SEED", "0") or 0)

    from mc import engine

    if a.what == "replay":
        if not a.path:
            ap.error("replay needs a path")
        return engine.replay(a.path)
    if a.what == "selfvalidate":
        from mc import selfvalidate

        return selfvalidate.main()
    pid = a.what.upper()
    modname = f"mc.checks.{pid.lower()}"
    return engine.run_check(modname, a.tier, seed, a.jobs)


if __name__ == "__main__":
    sys.exit(main())
