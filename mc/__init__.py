"""Bounded-exhaustive explorer for dissect.hypervisor (see /verif/DESIGN.md)."""
