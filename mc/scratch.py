"""Per-case scratch directories for the APIs that insist on paths.  /dev/shm when present; always removed."""
from __future__ import annotations

import contextlib
import os
import shutil
import stat
import tempfile


def _base():
    return "/dev/shm" if os.path.isdir("/dev/shm") and os.access("/dev/shm", os.W_OK) else None


@contextlib.contextmanager
def scratch_dir(prefix="verif-"):
    d = tempfile.mkdtemp(prefix=prefix, dir=_base())
    try:
        yield d
    finally:
        for root, dirs, files in os.walk(d):
            for n in dirs + files:
                try:
                    os.chmod(os.path.join(root, n), stat.S_IRWXU)
                except OSError:
                    pass
        try:
            os.chmod(d, stat.S_IRWXU)
        except OSError:
            pass
        shutil.rmtree(d, ignore_errors=True)


def make_readonly(d):
    """chmod a-w on every file and directory below d (and d itself)."""
    for root, dirs, files in os.walk(d, topdown=False):
        for n in files:
            os.chmod(os.path.join(root, n), 0o444)
        for n in dirs:
            os.chmod(os.path.join(root, n), 0o555)
    os.chmod(d, 0o555)


def tree_digest(d):
    import hashlib

    h = hashlib.sha256()
    for root, dirs, files in sorted(os.walk(d)):
        dirs.sort()
        for n in sorted(files):
            p = os.path.join(root, n)
            st = os.stat(p)
            h.update(os.path.relpath(p, d).encode() + b"\0%d\0%d\0" % (st.st_size, st.st_mtime_ns))
            with open(p, "rb") as f:
                # holes of sparse files are skipped (their extent list is part of the digest): a write into a hole shows
                # up as a new data extent
                fd, pos = f.fileno(), 0
                while pos < st.st_size:
                    try:
                        data = os.lseek(fd, pos, os.SEEK_DATA)
                    except OSError:
                        break
                    hole = os.lseek(fd, data, os.SEEK_HOLE)
                    h.update(b"%d-%d\0" % (data, hole))
                    os.lseek(fd, data, os.SEEK_SET)
                    left = hole - data
                    while left > 0:
                        b = os.read(fd, min(left, 1 << 20))
                        if not b:
                            break
                        h.update(b)
                        left -= len(b)
                    pos = hole
        h.update(("|".join(sorted(dirs))).encode())
    return h.hexdigest()
