"""Payload pattern: every (layer, guest sector) has its own 512-byte content.

sector(L, s) = pack(">HQ", L, s) + filler derived from (L, s).  Different layers, guest sectors and a distinct
slack layer are pairwise different, no sector is all zeros, and a shift that is not a multiple of 512 moves the
10-byte header, so bytes of the right length from the wrong place never compare equal over a whole sector.
"""
from __future__ import annotations

import hashlib
import struct
from functools import lru_cache

SECTOR = 512
SLACK = 0xFFFF  # layer tag for physical space no guest sector maps to (addressed by *physical* sector)
BITMAP = 0xFFFE  # layer tag used to fill structures that must never be returned as data (VHD block bitmaps)

_base = b"".join(hashlib.sha512(b"dissect.hypervisor/verif/%d" % i).digest() for i in range(8))[:SECTOR - 10]
_xor = [bytes(b ^ k for b in range(256)) for k in range(256)]


COMPRESSIBLE = 0x8000  # layers 0x8000..0xFEFF: same header, constant filler (deflates to a few dozen bytes/sector)


@lru_cache(maxsize=1 << 16)
def sector(layer: int, s: int) -> bytes:
    k = (s * 37 + layer * 101 + 1) & 0xFF
    if COMPRESSIBLE <= layer < 0xFF00:
        return struct.pack(">HQ", layer & 0xFFFF, s & 0xFFFFFFFFFFFFFFFF) + bytes([k or 1]) * (SECTOR - 10)
    return struct.pack(">HQ", layer & 0xFFFF, s & 0xFFFFFFFFFFFFFFFF) + _base.translate(_xor[k])


def sectors(layer: int, first: int, count: int) -> bytes:
    return b"".join(sector(layer, s) for s in range(first, first + count))


def span(layer: int, byte_off: int, length: int) -> bytes:
    """length bytes of the layer's pattern starting at byte offset byte_off (not necessarily sector aligned)."""
    if length <= 0:
        return b""
    s0 = byte_off // SECTOR
    s1 = (byte_off + length + SECTOR - 1) // SECTOR
    buf = sectors(layer, s0, s1 - s0)
    d = byte_off - s0 * SECTOR
    return buf[d : d + length]


def describe(buf: bytes, limit: int = 6) -> list:
    """Decode which (layer, sector) headers a returned buffer carries -- used in violation reports."""
    out = []
    for i in range(0, min(len(buf), limit * SECTOR), SECTOR):
        chunk = buf[i : i + 10]
        if len(chunk) < 10:
            break
        if chunk == b"\0" * 10:
            out.append("zero")
        else:
            layer, s = struct.unpack(">HQ", chunk)
            out.append(f"L{layer:x}:s{s}")
    return out
