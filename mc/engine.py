"""Explorer engine: dispatches shards of a finite, explicitly enumerated space to worker processes, merges their
coverage counts, confirms violations by replaying them twice in a fresh process, matches them against
known_findings.json, writes evidence/<id>.json and sets the exit code.

A check module (mc/checks/cXX.py) provides
    PROPERTY, LEVEL, RULE, ASSUMPTIONS, TECHNIQUE (strings / lists)
    shards(tier)            -> list of JSON-able dicts; optional key "buf" = DISSECT_STREAM_BUFFER_SIZE for that shard
    run_shard(shard, ctx)   -> enumerates every case of the shard and calls run_case(case, ctx)
    run_case(case, ctx)     -> executes one case against the real library, reporting through ctx
    EXPECT_OUTCOMES         -> outcome classes the space is known to contain (vacuity guard)
"""
from __future__ import annotations

import contextlib
import hashlib
import importlib
import json
import os
import resource
import signal
import sys
import time
import traceback
from collections import Counter

VERIF = os.path.dirname(os.path.dirname(os.path.abspath(__file__)))
MAX_VIOL_PER_SHARD = 3
WATCHDOG_S = int(os.environ.get("VERIF_WATCHDOG_S", "120"))
AS_LIMIT = int(os.environ.get("VERIF_AS_LIMIT", str(6 << 30)))


class Timeout(BaseException):
    """Raised by the SIGALRM watchdog: derives from BaseException so `except Exception` in the library cannot eat it."""


class StopShard(BaseException):
    pass


def _on_alarm(signum, frame):
    raise Timeout()


def jkey(obj) -> str:
    return json.dumps(obj, sort_keys=True, separators=(",", ":"), default=str)


def h64(obj) -> int:
    return int.from_bytes(hashlib.blake2b(jkey(obj).encode(), digest_size=8).digest(), "big")


def _plain(x):
    if isinstance(x, bool) or x is None or type(x) in (int, float, str):
        return x
    if isinstance(x, int):
        return int(x)
    if isinstance(x, float):
        return float(x)
    if isinstance(x, str):
        return str(x)
    if isinstance(x, (bytes, bytearray)):
        return bytes(x).hex()
    if isinstance(x, dict):
        return {str(k): _plain(v) for k, v in x.items()}
    if isinstance(x, (list, tuple, set, frozenset)):
        return [_plain(v) for v in (sorted(x, key=repr) if isinstance(x, (set, frozenset)) else x)]
    return repr(x)[:300]


class Ctx:
    """Per-shard (or per-replay) collector handed to run_shard / run_case."""

    def __init__(self, prop: str, shard=None, seed: int = 0, collect_all: bool = False):
        self.prop = prop
        self.shard = shard
        self.seed = seed
        self.executions = 0  # cases: one built input + its request set / one history
        self.transitions = 0  # API calls compared with the model
        self.states = 0  # distinct (model, request) pairs / history nodes
        self.nontrivial = 0
        self.models = set()
        self.models_count = 0
        self.outcomes = Counter()
        self.violations = []
        self.samples = []
        self.extra = Counter()  # free-form additive counters (per check)
        self.maxima = {}  # free-form max trackers
        self.collect_all = collect_all
        self._sample_every = 1

    # -- coverage ------------------------------------------------------------------------------------------
    def model(self, key):
        self.models_count += 1
        if len(self.models) < 300000:
            self.models.add(h64(key))

    def outcome(self, cls: str, n: int = 1):
        self.outcomes[cls] += n

    def sample(self, case):
        # keep a handful, spread over the shard, rotated by the seed (never influences what is explored)
        self._sample_every += 1
        if len(self.samples) < 2 or (self.executions + self.seed) % 9973 == 0:
            if len(self.samples) < 4:
                self.samples.append(case)

    def maxi(self, name, value):
        if value > self.maxima.get(name, float("-inf")):
            self.maxima[name] = value

    # -- violations ----------------------------------------------------------------------------------------
    def violation(self, case, witness: dict, detail: dict):
        # plain JSON values only: what the library returns may be instances of its own generated types (cstruct integers),
        # which neither pickle across the worker boundary nor serialise into a replay file
        self.violations.append({"case": _plain(case), "witness": _plain(witness), "detail": _plain(detail)})
        if not self.collect_all and len(self.violations) >= MAX_VIOL_PER_SHARD:
            raise StopShard()

    @contextlib.contextmanager
    def watch(self, case, seconds: int | None = None):
        """Watchdog + resource backstop around the library calls of one case."""
        signal.signal(signal.SIGALRM, _on_alarm)
        signal.setitimer(signal.ITIMER_REAL, seconds or WATCHDOG_S)
        try:
            yield
        except Timeout:
            signal.setitimer(signal.ITIMER_REAL, 0)
            self.violations.append({"case": case, "witness": {"kind": "did-not-return"},
                                    "detail": {"what": f"no return within {seconds or WATCHDOG_S}s"}})
            raise StopShard()  # one hang per shard is enough: do not wait for the watchdog again and again
        except MemoryError as e:
            signal.setitimer(signal.ITIMER_REAL, 0)
            self.violation(case, {"kind": "memory-exhausted"}, {"what": f"MemoryError: {e}"})
        finally:
            signal.setitimer(signal.ITIMER_REAL, 0)

    def result(self):
        return {
            "executions": self.executions,
            "transitions": self.transitions,
            "states": self.states,
            "nontrivial": self.nontrivial,
            "models": sorted(self.models) if len(self.models) < 300000 else None,
            "models_count": self.models_count,
            "outcomes": dict(self.outcomes),
            "violations": self.violations,
            "samples": self.samples,
            "extra": dict(self.extra),
            "maxima": self.maxima,
        }


# ---------------------------------------------------------------------------------------------------------------
# worker side
# ---------------------------------------------------------------------------------------------------------------
def _winit(repo: str, buf, as_limit: int):
    os.environ["VERIF_REPO"] = repo
    sys.setrecursionlimit(3000)
    try:
        resource.setrlimit(resource.RLIMIT_AS, (as_limit, as_limit))
    except (ValueError, OSError):
        pass
    try:
        soft, hard = resource.getrlimit(resource.RLIMIT_NOFILE)
        resource.setrlimit(resource.RLIMIT_NOFILE, (hard, hard))
    except (ValueError, OSError):
        pass
    from mc import bootstrap

    bootstrap.activate(buf)


SHARD_DEADLINE_S = int(os.environ.get("VERIF_SHARD_DEADLINE_S", "7200"))


def _wrun(modname: str, shard, seed: int):
    import threading

    mod = importlib.import_module(modname)
    ctx = Ctx(mod.PROPERTY, shard, seed)
    t = time.time()
    err = None
    # last line of defence: a shard that hangs outside every ctx.watch() kills its worker instead of hanging the check
    # (the parent then reports a harness error, never a silent pass)
    killer = threading.Timer(SHARD_DEADLINE_S, lambda: os._exit(70))
    killer.daemon = True
    killer.start()
    try:
        mod.run_shard(shard, ctx)
    except StopShard:
        pass
    except Timeout:
        err = "watchdog fired outside ctx.watch"
    except Exception:
        err = traceback.format_exc()
    finally:
        signal.setitimer(signal.ITIMER_REAL, 0)
        killer.cancel()
    res = ctx.result()
    res["wall"] = time.time() - t
    res["error"] = err
    res["shard"] = shard
    return res


def _wreplay(modname: str, case, times: int = 2):
    """Re-execute exactly one case `times` times; return the list of observed violation lists (witness+detail)."""
    mod = importlib.import_module(modname)
    runs = []
    for _ in range(times):
        ctx = Ctx(mod.PROPERTY, None, 0, collect_all=True)
        try:
            mod.run_case(case, ctx)
        except StopShard:
            pass
        except Exception:
            ctx.violations.append({"case": case, "witness": {"kind": "harness-error"},
                                   "detail": {"trace": traceback.format_exc()}})
        finally:
            signal.setitimer(signal.ITIMER_REAL, 0)
        runs.append([{"witness": v["witness"], "detail": v["detail"]} for v in ctx.violations])
    return runs


# ---------------------------------------------------------------------------------------------------------------
# parent side
# ---------------------------------------------------------------------------------------------------------------
def load_known():
    path = os.path.join(VERIF, "known_findings.json")
    if not os.path.exists(path):
        return {"open": [], "fixed": []}
    with open(path) as f:
        return json.load(f)


def match_known(known, prop, witness):
    for ent in known.get("open", []):
        if ent.get("property") != prop:
            continue
        if all(witness.get(k) == v for k, v in ent.get("match", {}).items()):
            return ent
    return None


def _pool(repo, buf, nworkers):
    import multiprocessing as mp
    from concurrent.futures import ProcessPoolExecutor

    return ProcessPoolExecutor(max_workers=nworkers, mp_context=mp.get_context("spawn"), initializer=_winit,
                               initargs=(repo, buf, AS_LIMIT))


def run_check(modname: str, tier: str, seed: int, jobs: int | None = None) -> int:
    from concurrent.futures import as_completed

    from mc import bootstrap

    t0 = time.time()
    mod = importlib.import_module(modname)
    prop = mod.PROPERTY
    repo = bootstrap.repo_root()
    jobs = jobs or int(os.environ.get("VERIF_JOBS", "0")) or min(16, os.cpu_count() or 1)
    shards = list(mod.shards(tier))
    if not shards:
        print(f"HARNESS-ERROR property={prop} no shards")
        return 2
    # seed only rotates dispatch order
    rot = seed % len(shards)
    shards = shards[rot:] + shards[:rot]
    groups = {}
    for s in shards:
        groups.setdefault(s.get("buf"), []).append(s)

    tot = Ctx(prop)
    models = set()
    models_exact = True
    errors = []
    viols = []
    shard_walls = []
    stopped_early = False
    for buf, group in groups.items():
        if stopped_early:
            break
        with _pool(repo, buf, min(jobs, len(group))) as ex:
            futs = [ex.submit(_wrun, modname, s, seed) for s in group]
            for f in as_completed(futs):
                if f.cancelled():
                    continue
                try:
                    r = f.result()
                except Exception as e:  # BrokenProcessPool etc.
                    errors.append(f"worker died: {e!r}")
                    continue
                tot.executions += r["executions"]
                tot.transitions += r["transitions"]
                tot.states += r["states"]
                tot.nontrivial += r["nontrivial"]
                tot.models_count += r["models_count"]
                if r["models"] is None:
                    models_exact = False
                else:
                    models.update(r["models"])
                tot.outcomes.update(r["outcomes"])
                tot.extra.update(r["extra"])
                for k, v in r["maxima"].items():
                    tot.maxi(k, v)
                for v in r["violations"]:
                    v["buf"] = buf
                    viols.append(v)
                if len(tot.samples) < 6:
                    tot.samples.extend(r["samples"][: 2 if (len(tot.samples) + seed) % 2 else 1])
                if r["error"]:
                    errors.append(f"shard {jkey(r['shard'])[:200]}: {r['error']}")
                shard_walls.append(r["wall"])
                if len(viols) >= 40 and not stopped_early:
                    # the property is broken all over the place: stop dispatching, report what was found
                    stopped_early = True
                    for g in futs:
                        g.cancel()

    # ---- confirm + classify violations --------------------------------------------------------------------
    known = load_known()
    by_witness = {}
    fine = ("touched", "start_aligned", "past_end", "short", "long")  # report one representative per coarse class
    for v in viols:
        by_witness.setdefault(jkey({k: x for k, x in v["witness"].items() if k not in fine}), []).append(v)
    confirmed = []
    rdir = os.path.join(VERIF, "replays", prop)
    unstable = 0
    for wkey, cands in list(by_witness.items())[:12]:
        # a violation that depends on what the worker process did before (module-level state poisoned by an earlier case)
        # does not reproduce from its own case alone: try up to 5 cases of the class and keep the first that replays
        stable, v = False, cands[0]
        for cand in cands[: 1 if cands[0]["witness"].get("kind") == "did-not-return" else 5]:  # a hang costs a watchdog period per replay
            runs = []
            for _ in range(2):  # two separate fresh processes: module-level state of one replay cannot leak into the other
                with _pool(repo, cand["buf"], 1) as ex:
                    try:
                        runs += ex.submit(_wreplay, modname, cand["case"], 1).result()
                    except Exception as e:
                        runs.append([{"witness": {"kind": "replay-died"}, "detail": {"err": repr(e)}}])
            # identity = the witnesses (details may carry environment-dependent values such as generated temporary names)
            if len(runs) == 2 and _wkey(runs[0]) == _wkey(runs[1]) and len(runs[0]) > 0:
                stable, v = True, cand
                break
        if not stable:
            unstable += 1
        os.makedirs(rdir, exist_ok=True)
        path = os.path.join(rdir, f"{h64([v['case'], v['buf']]):016x}.json")
        with open(path, "w") as f:
            json.dump({"property": prop, "module": modname, "buf": v["buf"], "case": v["case"],
                       "witness": v["witness"], "detail": v["detail"], "replayed_twice_identically": stable,
                       "how": f"./check replay {os.path.relpath(path, VERIF)}"}, f, indent=1, default=str)
        confirmed.append((v, path, stable))

    known_hits = []
    new = []
    for v, path, stable in confirmed:
        ent = match_known(known, prop, v["witness"])
        if ent is not None and stable:
            known_hits.append((ent, v, path))
        else:
            new.append((v, path, stable))

    # ---- vacuity guards -----------------------------------------------------------------------------------
    expect = set(getattr(mod, "EXPECT_OUTCOMES", {}).get(tier, getattr(mod, "EXPECT_OUTCOMES", {}).get("quick", []))
                 if isinstance(getattr(mod, "EXPECT_OUTCOMES", None), dict) else getattr(mod, "EXPECT_OUTCOMES", []))
    missing = sorted(expect - set(tot.outcomes))
    harness_fail = list(errors)
    if not new and not viols:
        if tot.executions == 0:
            harness_fail.append("no executions")
        if tot.nontrivial == 0:
            harness_fail.append("no non-trivial case (vacuous exploration)")
        if missing:
            harness_fail.append(f"outcome classes never observed: {missing}")

    exhaustive = not errors and not viols and not stopped_early
    wall = time.time() - t0
    ev = {
        "property_id": prop,
        "tier": tier,
        "seed": seed,
        "level": mod.LEVEL,
        "coverage": {
            "evaluations": tot.executions,
            "distinct_nontrivial": tot.nontrivial,
            "rule": mod.RULE,
            "samples": tot.samples[:6] or [{"none": True}],
            "states": tot.states,
            "transitions": tot.transitions,
            "traces_validated_against_impl": tot.executions,
            "exhaustive": exhaustive,
            "distinct_models": len(models) if models_exact else tot.models_count,
            "distinct_models_measured_by": "union of 64-bit model hashes over all shards" if models_exact
            else "per-shard enumeration count (shards partition the space)",
            "models_enumerated": tot.models_count,
            "outcome_classes": dict(sorted(tot.outcomes.items())),
            "shards": len(shards),
            "buffer_sizes": sorted(str(b) for b in groups),
            "bound": getattr(mod, "BOUND", {}).get(tier, ""),
            "alphabet": getattr(mod, "ALPHABET", ""),
            "counters": dict(sorted(tot.extra.items())),
            "maxima": tot.maxima,
            "repo": repo,
            "technique": getattr(mod, "TECHNIQUE", ""),
            "known_findings_matched": [e.get("what") for e, _, _ in known_hits],
            "harness_errors": harness_fail,
            "slowest_shard_s": round(max(shard_walls), 2) if shard_walls else 0,
        },
        "assumptions": list(mod.ASSUMPTIONS),
        "wall_s": round(wall, 2),
        "violations": len(new),
    }
    # VERIF_EVIDENCE_DIR: where runs against a deliberately altered tree (seeded changes, VERIF_REPO) put their evidence, so
    # that evidence/ only ever holds runs against /repo itself
    evdir = os.environ.get("VERIF_EVIDENCE_DIR") or os.path.join(VERIF, "evidence")
    os.makedirs(evdir, exist_ok=True)
    with open(os.path.join(evdir, f"{prop}.json"), "w") as f:
        json.dump(ev, f, indent=1, default=str)

    for ent, v, path in known_hits:
        print(f"KNOWN-FINDING: property={prop} {ent.get('what')}")
    for v, path, stable in new:
        note = "" if stable else " unstable-replay=true"
        print(f"VIOLATION property={prop} replay={os.path.relpath(path, VERIF)}{note}")
        print(f"  witness={jkey(v['witness'])[:300]}")
        print(f"  detail={jkey(v['detail'])[:600]}")
    print(f"{prop} tier={tier} seed={seed} shards={len(shards)} executions={tot.executions} states={tot.states} "
          f"transitions={tot.transitions} nontrivial={tot.nontrivial} outcomes={len(tot.outcomes)} "
          f"violations={len(new)} known={len(known_hits)} wall={wall:.1f}s")
    if new:
        return 1
    if harness_fail:
        for e in harness_fail:
            print(f"HARNESS-ERROR property={prop} {e[:2000]}")
        return 2
    return 0


def _wkey(run):
    return jkey([v.get("witness") for v in run])


def replay(path: str) -> int:
    from mc import bootstrap

    with open(path) as f:
        rec = json.load(f)
    repo = bootstrap.repo_root()
    runs = []
    for _ in range(2):
        with _pool(repo, rec.get("buf"), 1) as ex:
            runs += ex.submit(_wreplay, rec["module"], rec["case"], 1).result()
    same = _wkey(runs[0]) == _wkey(runs[1])
    print(json.dumps({"deterministic": same, "violations": runs[0]}, indent=1, default=str)[:6000])
    if not same:
        print("replay is not deterministic")
        return 2
    if runs[0]:
        print(f"VIOLATION property={rec['property']} replay={path}")
        return 1
    print("replay: no violation on this tree")
    return 0
