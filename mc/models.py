"""Reference models: plain Python, computed from the abstract model alone (never from image bytes)."""
from __future__ import annotations

from mc import pattern

SECTOR = 512

# unit states of the abstract disk model
HOLE = "H"  # falls through to the parent; zeros below the base
ZERO = "Z"  # reads as zeros, hides the parent
DATA = "D"  # reads the layer's own pattern for the guest offset


class GuestDisk:
    """size + unit map -> guest-visible bytes.  units: list of HOLE/ZERO/DATA (or per-sector lists via `sector_map`)."""

    def __init__(self, size: int, unit: int, units: list, layer: int = 1, parent: "GuestDisk | None" = None,
                 sector_map: dict | None = None, sector_size: int = SECTOR, unit_layers: dict | None = None,
                 unit_bytes: dict | None = None):
        self.size = size
        self.unit = unit
        self.units = units
        self.layer = layer
        self.parent = parent
        self.sector_map = sector_map or {}  # unit index -> list of HOLE/ZERO/DATA per sector (sub-unit granularity)
        self.sector_size = sector_size
        self.unit_layers = unit_layers or {}  # unit index -> pattern layer of that unit's data (default self.layer)
        self.unit_bytes = unit_bytes or {}  # unit index -> explicit content of that (DATA) unit
        self._cache = None

    def _state_at(self, off: int):
        u = off // self.unit
        if u in self.sector_map:
            sub = self.sector_map[u]
            gran = self.unit // len(sub)
            return sub[(off - u * self.unit) // gran], gran
        if isinstance(self.units, dict):  # sparse map for very large disks: absent = HOLE
            return self.units.get(u, HOLE), self.unit
        st = self.units[u] if u < len(self.units) else HOLE
        return st, self.unit

    def content(self, off: int, n: int) -> bytes:
        """Guest bytes [off, off+n) clipped to the disk size."""
        end = min(off + n, self.size)
        if off >= end:
            return b""
        if self._cache is not None:
            return self._cache[off:end]
        out = []
        pos = off
        while pos < end:
            st, gran = self._state_at(pos)
            stop = min(end, (pos // gran + 1) * gran)
            ln = stop - pos
            if st == DATA and (pos // self.unit) in self.unit_bytes:
                u = pos // self.unit
                out.append(self.unit_bytes[u][pos - u * self.unit: pos - u * self.unit + ln])
            elif st == DATA:
                out.append(pattern.span(self.unit_layers.get(pos // self.unit, self.layer), pos, ln))
            elif st == ZERO:
                out.append(b"\0" * ln)
            else:
                if self.parent is not None:
                    got = self.parent.content(pos, ln)
                    out.append(got + b"\0" * (ln - len(got)))  # beyond a shorter parent: zeros
                else:
                    out.append(b"\0" * ln)
            pos = stop
        return b"".join(out)

    def materialize(self, limit: int = 64 << 20):
        if self._cache is None and self.size <= limit:
            self._cache = self.content(0, self.size)
        return self._cache

    def source(self, off: int) -> str:
        """Outcome class of one byte: which layer/state supplies it."""
        if off >= self.size:
            return "eof"
        st, _ = self._state_at(off)
        if st == DATA:
            return f"data@L{self.layer}"
        if st == ZERO:
            return f"zero@L{self.layer}"
        if self.parent is not None:
            if off >= self.parent.size:
                return "zero-beyond-parent"
            return self.parent.source(off)
        return "zero-below-base"


class RawDisk:
    """A model whose content is literally given bytes (fixed VHD, flat VMDK, plain Parallels images)."""

    def __init__(self, data: bytes):
        self.data = data
        self.size = len(data)

    def content(self, off, n):
        return self.data[off : min(off + n, self.size)] if off < self.size else b""

    def materialize(self, limit=None):
        return self.data

    def source(self, off):
        return "raw" if off < self.size else "eof"


class ConcatDisk:
    def __init__(self, parts):
        self.parts = parts
        self.size = sum(p.size for p in parts)

    def content(self, off, n):
        end = min(off + n, self.size)
        out = []
        base = 0
        for p in self.parts:
            a = max(off, base)
            b = min(end, base + p.size)
            if a < b:
                out.append(p.content(a - base, b - a))
            base += p.size
        return b"".join(out)

    def materialize(self, limit=None):
        return self.content(0, self.size)

    def source(self, off):
        base = 0
        for i, p in enumerate(self.parts):
            if off < base + p.size:
                return f"x{i}:" + p.source(off - base)
            base += p.size
        return "eof"


def boundaries(size: int, unit: int, align: int, lo: int = 0, hi: int | None = None, sector: int = SECTOR,
               rich: bool = True) -> list:
    """The boundary set B(S) of DESIGN section 4, restricted to [lo, hi] (defaults: whole disk)."""
    if hi is None:
        hi = size
    pts = set()
    deltas = {0, 1, sector - 1, sector, unit // 2, unit - sector, unit - 1} if rich else {0, 1, unit // 2, unit - 1}
    k0 = lo // unit
    k1 = hi // unit + 1
    for k in range(k0, k1 + 1):
        for d in deltas:
            pts.add(k * unit + d)
    anchors = [k * unit for k in range(k0, k1 + 1)] + [0, size]
    for a in anchors:
        for m in (a // align - 1, a // align, a // align + 1):
            if m >= 0:
                for d in (-1, 0, 1):
                    pts.add(m * align + d)
    pts.update({size - 1, size, size + 1, size - sector, size + sector})
    top = min(hi + align, size + align)
    return sorted(p for p in pts if max(lo - align, 0) <= p <= top)


def request_pairs(points: list, max_len: int | None = None) -> list:
    out = []
    for i, a in enumerate(points):
        for b in points[i:]:
            if max_len is not None and b - a > max_len:
                break
            out.append((a, b - a))
    return out


class StreamModel:
    """io semantics of AlignedStream over an immutable byte array of `size` bytes (content via `disk.content`)."""

    def __init__(self, disk):
        self.disk = disk
        self.size = disk.size
        self.pos = 0

    def apply(self, op):
        k = op[0]
        S = self.size
        if k == "seek":
            p, w = op[1], op[2]
            if w == 0:
                if p < 0:
                    return ("raises", "ValueError")
                new = p
            elif w == 1:
                new = max(0, self.pos + p)
            else:
                new = max(0, S + p)
            self.pos = new
            return new
        if k in ("read", "readinto", "peek"):
            n = op[1]
            if n == -1:
                n = max(0, S - self.pos)
            r = self.disk.content(self.pos, n) if self.pos < S else b""
            if k != "peek":
                self.pos += len(r)
            return r if k != "readinto" else (len(r), r)
        if k == "readoffset":
            self.pos = op[1]
            r = self.disk.content(self.pos, op[2]) if self.pos < S else b""
            self.pos += len(r)
            return r
        if k == "tell":
            return self.pos
        if k == "size":
            return S
        raise ValueError(op)
