"""Select the tree under verification and the stream buffer size *before* anything from dissect is imported.

`dissect.util.stream` freezes DISSECT_STREAM_BUFFER_SIZE at import time, and /venv resolves
`dissect.hypervisor` through an editable-install finder that points at /repo.  `activate()` must therefore
be the first thing a worker does.
"""
from __future__ import annotations

import os
import sys

DEFAULT_REPO = "/repo"
_activated = None


def repo_root() -> str:
    return os.path.realpath(os.environ.get("VERIF_REPO", DEFAULT_REPO))


def activate(bufsize: int | None = None) -> str:
    """Point the import system at repo_root() and fix the buffer size; returns the repo root."""
    global _activated
    root = repo_root()
    if _activated is not None:
        if _activated != (root, bufsize) and bufsize is not None and _activated[1] != bufsize:
            raise RuntimeError(f"worker already activated with {_activated}, asked for {(root, bufsize)}")
        return root
    if "dissect.util.stream" in sys.modules or "dissect.hypervisor" in sys.modules:
        raise RuntimeError("dissect was imported before mc.bootstrap.activate()")
    if bufsize is not None:
        os.environ["DISSECT_STREAM_BUFFER_SIZE"] = str(bufsize)
    else:
        os.environ.pop("DISSECT_STREAM_BUFFER_SIZE", None)
    os.environ.pop("DISSECT_HYPERVISOR_VERIF", None)  # no source hooks exist; never let a stray flag matter
    pkg = os.path.join(root, "dissect", "hypervisor")
    if not os.path.isfile(os.path.join(pkg, "__init__.py")):
        raise RuntimeError(f"{pkg} is not a dissect.hypervisor tree")
    # redirect the editable finder (a meta-path finder with a MAPPING dict) to the tree we were asked to verify
    redirected = False
    for name in list(sys.modules):
        if name.startswith("__editable___dissect_hypervisor"):
            sys.modules[name].MAPPING["dissect.hypervisor"] = pkg
            redirected = True
    if not redirected:
        import importlib
        import pkgutil

        for m in pkgutil.iter_modules():
            if m.name.startswith("__editable___dissect_hypervisor"):
                importlib.import_module(m.name).MAPPING["dissect.hypervisor"] = pkg
                redirected = True
    if not redirected:
        sys.path.insert(0, root)
    import dissect.hypervisor  # noqa

    got = os.path.realpath(dissect.hypervisor.__file__)
    if not got.startswith(pkg + os.sep):
        raise RuntimeError(f"dissect.hypervisor imported from {got}, expected under {pkg}")
    import dissect.util.stream as st

    if bufsize is not None and st.STREAM_BUFFER_SIZE != bufsize:
        raise RuntimeError(f"STREAM_BUFFER_SIZE={st.STREAM_BUFFER_SIZE}, wanted {bufsize}")
    _activated = (root, bufsize)
    return root


def bufsize() -> int:
    import dissect.util.stream as st

    return st.STREAM_BUFFER_SIZE
