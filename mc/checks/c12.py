"""C12 -- foreign or unsupported inputs are refused, not misread.   Fault enumeration over a gate table."""
from __future__ import annotations

import io
import itertools
import os
import struct
from pathlib import Path

from mc.models import DATA, HOLE
from mc.scratch import scratch_dir

PROPERTY = "C12"
LEVEL = "fault_enumeration"
TECHNIQUE = "exhaustive enumeration of out-of-set values per validation gate on otherwise valid inputs"
RULE = ("one row per gate (magic / signature / GUID / version / geometry / feature flag / identifier of every parser); faults "
        "per row: every single-bit flip of a magic or GUID (thorough: every 2-bit flip), for numeric fields every value 0..255, "
        "every single-bit flip, max and max-1, for textual identifiers every string at edit distance 1 (case flip, dropped, "
        "added, replaced character) and removal of a required item. Oracle: a value outside the accepted set makes the "
        "constructor / open / unlock call raise before content is served; a value inside it (e.g. cluster_bits 9..21, the "
        "other HDS signature) and the un-faulted seed are accepted. non-trivial = fault whose value lies outside the accepted set")
ASSUMPTIONS = [
    "a bare handle given to VMDK() whose first bytes are not a sparse magic is by design a flat extent; the sparse magic is a "
    "validated structure for descriptor-declared sparse extents and for the footer copy",
    "lazily checked features count as refused when the first read of affected content raises",
    "any exception type counts as refusal",
]
ALPHABET = "gate x fault value"
BOUND = {"quick": "single-bit flips, 0..255, edit distance 1",
         "thorough": "adds all 2-bit flips of every magic up to 8 bytes, all 3-bit flips of 4-byte magics, every value of every single byte"}
EXPECT_OUTCOMES = ["refused", "accepted-in-set"]


# ---- seeds ---------------------------------------------------------------------------------------------------------------
def _seed_qcow2(**kw):
    from mc.builders import qcow2 as B

    img, _ = B.build(["N", "U"], [0, None], kw.pop("cb", 12), 3, **kw)
    return img.tobytes()


def _open_qcow2(raw, **kw):
    from dissect.hypervisor.disk.qcow2 import QCow2

    q = QCow2(io.BytesIO(raw), **kw)
    return q.read(512)


def _seed_vhdx(parent=None):
    from mc.builders import vhdx as B

    return B.build([DATA, 0], [0, None], parent=parent)


def _open_vhdx_sparse(img_or_raw):
    from dissect.hypervisor.disk.vhdx import VHDX

    v = VHDX(img_or_raw)
    return v.read(512)


class _Patched:
    """A SparseFile with a few bytes overridden (VHDX images are too large to materialise)."""

    def __init__(self, sparse, patches):
        self.s = sparse
        self.patches = patches  # {offset: bytes}
        self.name = None

    def seek(self, *a):
        return self.s.seek(*a)

    def tell(self):
        return self.s.tell()

    def read(self, n=-1):
        pos = self.s.tell()
        data = bytearray(self.s.read(n))
        for off, b in self.patches.items():
            lo, hi = max(off, pos), min(off + len(b), pos + len(data))
            if lo < hi:
                data[lo - pos:hi - pos] = b[lo - off:hi - off]
        return bytes(data)


def _gates(tier):
    """Yields dicts: name, kind ('magic' | 'numeric' | 'text' | 'single'), and what the kind needs."""
    from mc.builders import envelope as BE
    from mc.builders import hdd as BH
    from mc.builders import hyperv as BHV
    from mc.builders import qcow2 as BQ
    from mc.builders import vdi as BV
    from mc.builders import vhd as BVHD
    from mc.builders import vhdx as BX
    from mc.builders import vmdk as BM

    # ---- QCOW2
    q = _seed_qcow2()
    yield dict(name="qcow2.magic", kind="magic", raw=q, off=0, width=4, open=_open_qcow2)
    yield dict(name="qcow2.version", kind="numeric", raw=q, off=4, width=4, endian=">", accepted=lambda v: v in (2, 3),
               open=_open_qcow2)
    yield dict(name="qcow2.cluster_bits", kind="numeric", raw=q, off=20, width=4, endian=">", accepted=lambda v: 9 <= v <= 21,
               open=lambda raw: __import__("dissect.hypervisor.disk.qcow2", fromlist=["QCow2"]).QCow2(io.BytesIO(raw)).size,
               accept_check="open-only")
    yield dict(name="qcow2.crypt_method", kind="numeric", raw=q, off=32, width=4, endian=">", accepted=lambda v: v == 0,
               open=_open_qcow2)
    qe = BQ.build([{"kind": "N", "sub": ["a"] * 32}], [0], 14, 3, ext=True)[0].tobytes()
    yield dict(name="qcow2.extl2.subcluster_size", kind="numeric", raw=qe, off=20, width=4, endian=">",
               accepted=lambda v: 14 <= v <= 21,
               open=lambda raw: __import__("dissect.hypervisor.disk.qcow2", fromlist=["QCow2"]).QCow2(io.BytesIO(raw)).size,
               accept_check="open-only")
    qd, qdd = BQ.build(["N"], [0], 12, 3, data_file=True)
    yield dict(name="qcow2.data_file_required", kind="single", seed_ok=lambda: _open_qcow2(qd.tobytes(), data_file=qdd.bytesio()),
               fault=lambda: _open_qcow2(qd.tobytes()))
    qb = BQ.build(["N", "U"], [0, None], 12, 3, backing_name="base.img")[0].tobytes()
    yield dict(name="qcow2.backing_file_required", kind="single",
               seed_ok=lambda: _open_qcow2(qb, backing_file=io.BytesIO(b"\1" * 8192)), fault=lambda: _open_qcow2(qb))
    # both companions named by one image: each is required on its own
    qdb, qdbd = BQ.build(["N", "U"], [0, None], 12, 3, data_file=True, backing_name="base.img")
    both = lambda **kw: _open_qcow2(qdb.tobytes(), **kw)  # noqa: E731
    yield dict(name="qcow2.backing_file_required.with_data_file", kind="single",
               seed_ok=lambda: both(data_file=qdbd.bytesio(), backing_file=io.BytesIO(b"\1" * 8192)),
               fault=lambda: both(data_file=qdbd.bytesio()))
    yield dict(name="qcow2.data_file_required.with_backing_file", kind="single",
               seed_ok=lambda: both(data_file=qdbd.bytesio(), backing_file=io.BytesIO(b"\1" * 8192)),
               fault=lambda: both(backing_file=io.BytesIO(b"\1" * 8192)))
    qz = bytearray(BQ.build(["C"], [None], 12, 3)[0].tobytes())
    struct.pack_into(">Q", qz, 72, 8)  # incompatible bit 3: compression type field is in use
    qz[104] = 1  # zstd
    yield dict(name="qcow2.zstd_without_module", kind="single", seed_ok=lambda: _open_qcow2(_seed_qcow2()),
               fault=lambda: _open_qcow2(bytes(qz)))
    # incompatible-feature bits nobody has defined (qcow2.txt: "an implementation must fail to open an image if an unknown
    # bit is set"): bits 0 (dirty) and 1 (corrupt) only concern writers, 2 / 3 / 4 have gates of their own
    def q_incompat(bits):
        b = bytearray(q)
        v, = struct.unpack_from(">Q", b, 72)
        for bit in bits:
            v |= 1 << bit
        struct.pack_into(">Q", b, 72, v)
        return _open_qcow2(bytes(b))

    yield dict(name="qcow2.incompatible_features.unknown_bit", kind="multi", seed_ok=lambda: q_incompat([0, 1]),
               faults=[(f"bit{k}", (lambda k=k: q_incompat([k]))) for k in range(5, 64)]
               + [("bit5+bit0", lambda: q_incompat([0, 5])), ("all-unknown", lambda: q_incompat(list(range(5, 64))))])
    # compression methods other than 0 (deflate) and 1 (zstd): the field only exists behind byte 104 and counts when bit 3 is set
    def q_comp(ctype, bit=None):
        b = bytearray(BQ.build(["N", "N", "C"], [0, 1, None], 12, 3)[0].tobytes())
        hl, = struct.unpack_from(">I", b, 100)
        assert hl >= 112, hl
        struct.pack_into(">Q", b, 72, (8 if ctype else 0) if bit is None else bit)
        b[104] = ctype
        q_ = __import__("dissect.hypervisor.disk.qcow2", fromlist=["QCow2"]).QCow2(io.BytesIO(bytes(b)))
        return q_.read(512)  # clusters 0 and 1 (one stream buffer) are not compressed

    yield dict(name="qcow2.compression_type", kind="multi", seed_ok=lambda: q_comp(0),
               faults=[(f"type{t}", (lambda t=t: q_comp(t))) for t in list(range(2, 17)) + [0x80, 0xFE, 0xFF]]
               # the same values while the feature bit that announces the field is clear (the field is there and is not 0)
               + [(f"type{t}-without-feature-bit", (lambda t=t: q_comp(t, 0))) for t in (2, 3, 7, 0x80, 0xFF)])
    # ---- VHDX (sparse + patches)
    vimg = _seed_vhdx()
    fields = {f[0]: f for f in vimg.fields}

    def vopen(patches):
        return _open_vhdx_sparse(_Patched(vimg.sparse(log=False), patches))

    for nm, off, w in (("vhdx.file_identifier", 0, 8), ("vhdx.header_signature", fields["header1.signature"][1], 4),
                       ("vhdx.region_table_signature", fields["regi1.signature"][1], 4),
                       ("vhdx.metadata_signature", fields["meta.signature"][1], 8),
                       ("vhdx.region_guid.metadata", fields["regi1.entry0.guid"][1], 16),
                       ("vhdx.region_guid.bat", fields["regi1.entry1.guid"][1], 16)):
        yield dict(name=nm, kind="magic", sparse=vimg, off=off, width=w, open_patched=vopen)
    # the format version of the current header ([MS-VHDX] 2.2.2: must be 1, otherwise the file must not be parsed as VHDX)
    cur = "header1" if struct.unpack("<Q", vimg.sparse(log=False).peek_at(fields["header1.sequence"][1], 8))[0] > struct.unpack(
        "<Q", vimg.sparse(log=False).peek_at(fields["header2.sequence"][1], 8))[0] else "header2"
    yield dict(name="vhdx.header_version", kind="numeric", sparse=vimg, off=fields[cur + ".version"][1], width=2, endian="<",
               accepted=lambda v: v == 1, open_patched=vopen)
    # a region nobody knows: ignored when optional, the file is unsupported when the entry says Required
    def vhdx_region(*required):
        sp = vimg.sparse(log=False)
        patches = {}
        for n in ("regi1", "regi2"):
            base = fields[n + ".signature"][1]
            cnt, = struct.unpack("<I", sp.peek_at(base + 8, 4))
            patches[base + 8] = struct.pack("<I", cnt + len(required))
            for j, req in enumerate(required):
                patches[base + 16 + 32 * (cnt + j)] = bytes(range(0xA0, 0xB0)) + struct.pack("<QII", 0x300000, 0x100000, req)
        return vopen(patches)

    yield dict(name="vhdx.unknown_required_region", kind="single", seed_ok=lambda: vhdx_region(0), fault=lambda: vhdx_region(1))
    # the same unknown region listed twice, required in one of the two entries
    yield dict(name="vhdx.unknown_required_region.twice.required-first", kind="single", seed_ok=lambda: vhdx_region(0, 0),
               fault=lambda: vhdx_region(1, 0))
    yield dict(name="vhdx.unknown_required_region.twice.required-last", kind="single", seed_ok=lambda: vhdx_region(0, 0),
               fault=lambda: vhdx_region(0, 1))
    for i in range(5):
        yield dict(name=f"vhdx.metadata_item_guid[{i}]", kind="magic", sparse=vimg, off=fields[f"meta.entry{i}.id"][1], width=16,
                   open_patched=vopen, thin=4)
    # ---- VHDX metadata items nobody knows: optional ones are ignored, required ones make the file unsupported
    def vhdx_items(flags_list):
        im = BX.build([DATA, 0], [0, None], extra_items=[("last", bytes(range(0x70 + i, 0x80 + i)), b"\x00" * 8, fl)
                                                        for i, fl in enumerate(flags_list)])
        return _open_vhdx_sparse(im.sparse(log=False))

    for fl, nm in ((4, "system"), (5, "user"), (6, "system-virtual-disk"), (7, "user-virtual-disk")):
        yield dict(name=f"vhdx.unknown_required_metadata_item.{nm}", kind="single", seed_ok=lambda fl=fl: vhdx_items([fl & 3]),
                   fault=lambda fl=fl: vhdx_items([fl]))
    # an unknown required item and an optional twin with the same ItemId in the other (user / system) id space, in both orders
    def vhdx_twins(flags_pair):
        G = bytes(range(0x90, 0xA0))
        im = BX.build([DATA, 0], [0, None], extra_items=[("last", G, b"\x00" * 8, fl) for fl in flags_pair])
        return _open_vhdx_sparse(im.sparse(log=False))

    for pair, nm in (((4, 1), "required-system-then-optional-user"), ((1, 4), "optional-user-then-required-system"),
                     ((5, 0), "required-user-then-optional-system"), ((0, 5), "optional-system-then-required-user")):
        yield dict(name=f"vhdx.unknown_required_metadata_item.twin.{nm}", kind="single",
                   seed_ok=lambda pair=pair: vhdx_twins([f & 3 for f in pair]), fault=lambda pair=pair: vhdx_twins(list(pair)))
    # ---- VHDX differencing images: locator type, parent present, parent reachable at all
    cimg = BX.build([0, DATA], [None, 0], layer=2, parent=[("relative_path", ".\\base.vhdx"), ("parent_linkage", "{x}")])
    loc_off = [f for f in cimg.fields if f[0] == "parent_locator.type"][0][1]
    yield dict(name="vhdx.parent_locator_type", kind="magic", sparse=cimg, off=loc_off, width=16,
               open_patched=lambda patches: _open_vhdx_child(cimg, patches), thin=2)
    yield dict(name="vhdx.parent_required.missing_file", kind="single", seed_ok=lambda: _open_vhdx_child(cimg, {}),
               fault=lambda: _open_vhdx_child(cimg, {}, parent_present=False))
    yield dict(name="vhdx.parent_required.anonymous_stream", kind="single", seed_ok=lambda: _open_vhdx_child(cimg, {}),
               fault=lambda: _open_vhdx_child(cimg, {}, as_stream=True))
    yield dict(name="vhdx.parent_required.bytesio", kind="single", seed_ok=lambda: _open_vhdx_child(cimg, {}),
               fault=lambda: _open_vhdx_child(cimg, {}, as_stream="bytesio"))
    # ---- VDI / HDS / VHD
    v = BV.build([DATA, HOLE], [0, None], 4096).tobytes()

    def open_vdi(raw):
        from dissect.hypervisor.disk.vdi import VDI

        return VDI(io.BytesIO(raw)).read(512)

    yield dict(name="vdi.signature", kind="magic", raw=v, off=64, width=4, open=open_vdi)
    # header version: 1.1 is the only layout this reader knows (a 0.1 header has its fields elsewhere)
    yield dict(name="vdi.version", kind="numeric", raw=v, off=68, width=4, endian="<", accepted=lambda x: x == 0x00010001,
               open=open_vdi, extra_values=[0x00000001, 0x00010000, 0x00010002, 0x00020001, 0x00010101, 0x01010001])
    h = BH.build_hds([DATA, HOLE], [1, None], 8, 2).tobytes()

    def open_hds(raw):
        from dissect.hypervisor.disk.hdd import HDS

        return HDS(io.BytesIO(raw)).read(512)

    yield dict(name="hds.signature", kind="magic", raw=h, off=0, width=16, open=open_hds)
    yield dict(name="hds.signature.other_accepted", kind="single", seed_ok=lambda: open_hds(BH.SIG[1] + h[16:]),
               fault=lambda: open_hds(b"WithoutFreeSpacE" + h[16:]))
    # ---- Parallels image type / descriptor presence
    yield dict(name="parallels.image_type", kind="text", value="Compressed", others=["Plain"], open_text=_open_hdd_type)
    yield dict(name="parallels.image_type.ancestor", kind="text", value="Compressed", others=["Plain"],
               open_text=lambda s: _open_hdd_type("Compressed", ancestor_type=s))
    yield dict(name="parallels.descriptor_present", kind="single", seed_ok=lambda: _open_hdd_type("Compressed"),
               fault=lambda: _open_hdd_type("Compressed", drop_descriptor=True))
    # ---- VMDK descriptor-declared sparse extents and footer copy
    for kind, magic_w in (("SPARSE", 4), ("VMFSSPARSE", 4), ("SESPARSE", 8)):
        yield dict(name=f"vmdk.extent_magic.{kind}", kind="magic", raw=_vmdk_extent(kind), off=0, width=magic_w,
                   open=lambda raw, kind=kind: _open_vmdk_desc(raw, kind))
    # format versions of the three sparse headers: hosted 1..3 (3 = compressed / stream-optimised), COWD 1, SE-sparse 2.1
    def open_vmdk_raw(raw):
        from dissect.hypervisor.disk.vmdk import VMDK

        return VMDK(io.BytesIO(raw)).read(512)

    yield dict(name="vmdk.hosted_version", kind="numeric", raw=_vmdk_extent("SPARSE"), off=4, width=4, endian="<",
               accepted=lambda v: v in (1, 2, 3), open=open_vmdk_raw, accept_check="open-only")
    yield dict(name="vmdk.cowd_version", kind="numeric", raw=_vmdk_extent("VMFSSPARSE"), off=4, width=4, endian="<",
               accepted=lambda v: v == 1, open=open_vmdk_raw)
    yield dict(name="vmdk.sesparse_version", kind="numeric", raw=_vmdk_extent("SESPARSE"), off=8, width=8, endian="<",
               accepted=lambda v: v == 0x0000000200000001, open=open_vmdk_raw)
    # extent kinds the grammar accepts but the reader cannot map (raw device mappings): the disk must not be served without them
    for kind in ("VMFSRDM", "VMFSRAW"):
        yield dict(name=f"vmdk.extent_type.{kind}", kind="single", seed_ok=lambda: _open_vmdk_kinds(["FLAT", "FLAT"]),
                   fault=lambda kind=kind: _open_vmdk_kinds(["FLAT", kind]))
        yield dict(name=f"vmdk.extent_type.{kind}.first", kind="single", seed_ok=lambda: _open_vmdk_kinds(["FLAT", "FLAT"]),
                   fault=lambda kind=kind: _open_vmdk_kinds([kind, "FLAT"]))
    fimg = BM.build_hosted([DATA, HOLE], [0, None], 8, 512, 16, footer=True, compressed=True, stride=10)
    fraw = fimg.tobytes()
    foff = [f for f in fimg.fields if f[0] == "footer.magic"][0][1]

    def open_vmdk(raw):
        from dissect.hypervisor.disk.vmdk import VMDK

        return VMDK(io.BytesIO(raw)).read(512)

    yield dict(name="vmdk.footer_magic", kind="magic", raw=fraw, off=foff, width=4, open=open_vmdk)
    # ---- Hyper-V
    tree = {"configuration": (BHV.T_NODE, {"a": (BHV.T_INT, 1), "n": (BHV.T_NODE, {"s": (BHV.T_STR, "x")})})}
    hv = BHV.build(tree, ntables=2)

    def open_hv(raw):
        from dissect.hypervisor.descriptor.hyperv import HyperVFile

        return HyperVFile(io.BytesIO(raw)).as_dict()

    yield dict(name="hyperv.header_signature", kind="magic", raw=hv, off=0, width=4, open=open_hv)
    yield dict(name="hyperv.version", kind="numeric", raw=hv, off=10, width=4, endian="<", accepted=lambda v: v == 0x400,
               open=open_hv, extra_values=[0x300, 0x401, 0x500, 0x4000400 & 0xFFFFFFFF])
    yield dict(name="hyperv.replay_log_signature", kind="magic", raw=hv, off=0x8000, width=4, open=open_hv)
    yield dict(name="hyperv.object_table_signature", kind="magic", raw=hv, off=0x2000, width=4, open=open_hv)
    # the size the headers record for the replay log is not part of what makes the log's signature valid
    for lsize in (0, 0x200, 0x2000):
        hvl = bytearray(hv.tobytes() if hasattr(hv, "tobytes") else hv)
        for hoff in (0, 0x1000):
            if hvl[hoff : hoff + 4] == hvl[0:4]:
                struct.pack_into("<Q", hvl, hoff + 34, lsize)
        yield dict(name=f"hyperv.replay_log_signature.log_size_{lsize:#x}", kind="magic", raw=bytes(hvl), off=0x8000, width=4,
                   open=open_hv)
    yield dict(name="hyperv.key_table_signature", kind="magic", raw=hv, off=0x10000, width=2, open=open_hv)
    # structures that are only listed in object tables 1..3 levels below the first one (chained or fanned out): the
    # chained tables themselves, the key table and the replay log listed in the deepest one
    tree3 = {"configuration": (BHV.T_NODE, {"a": (BHV.T_INT, 1), "n": (BHV.T_NODE, {"s": (BHV.T_STR, "x"), "b": (BHV.T_BOOL, True)}),
                                            "z": (BHV.T_UINT, 5)})}
    # the same structures behind unallocated object-table slots (slots are not handed out front to back)
    rawh = BHV.build(tree3, ntables=3, extra_replay_log=True, holes=2)
    yield dict(name="hyperv.holes.key_table_signature[1]", kind="magic", raw=rawh, off=0x11000, width=2, open=open_hv)
    yield dict(name="hyperv.holes.key_table_signature[2]", kind="magic", raw=rawh, off=0x12000, width=2, open=open_hv)
    yield dict(name="hyperv.holes.replay_log_signature", kind="magic", raw=rawh, off=0x9000, width=4, open=open_hv)
    # object-table entries whose "allocated" byte is non-zero but not 1 (0x02, 0x80, 0xFE): the entry is in use
    for alloc in (2, 0x80, 0xFE):
        rawa = bytearray(BHV.build(tree3, ntables=3, extra_replay_log=True))
        sig_, n_ = struct.unpack_from("<II", rawa, 0x2000)
        for i_ in range(n_):
            if rawa[0x2008 + 18 * i_ + 17] == 1:
                rawa[0x2008 + 18 * i_ + 17] = alloc
        rawa = bytes(rawa)
        yield dict(name=f"hyperv.allocated-{alloc:#x}.key_table_signature", kind="magic", raw=rawa, off=0x11000, width=2, open=open_hv)
        yield dict(name=f"hyperv.allocated-{alloc:#x}.replay_log_signature", kind="magic", raw=rawa, off=0x9000, width=4, open=open_hv)
    # more object-table entries than fit one 4 KiB block: the structure named by the last entry
    many = BHV.build({"configuration": (BHV.T_NODE, {f"k{i}": (BHV.T_INT, i) for i in range(245)})}, ntables=240)
    yield dict(name="hyperv.many.key_table_signature[239]", kind="magic", raw=many, off=0x10000 + 239 * 0x1000, width=2, open=open_hv)
    yield dict(name="hyperv.many.key_table_signature[228]", kind="magic", raw=many, off=0x10000 + 228 * 0x1000, width=2, open=open_hv)
    # a superseded copy of a key table (same index, lower sequence number), listed before or after the current one
    for where, positions in (("first", [0]), ("last", [99])):
        for seq in (3, 9):
            raws = BHV.build(tree3, ntables=2, table_seq=5, stale={1: seq}, stale_tree=tree3, stale_positions=positions)
            yield dict(name=f"hyperv.competing-copy.{where}.seq{seq}.key_table_signature", kind="magic", raw=raws, off=0x12000, width=2,
                       open=open_hv)
    for depth, shape in ((1, "chain"), (2, "chain"), (3, "chain"), (2, "tail"), (3, "fan")):
        # 3 key tables + 1 replay log = 4 object entries dealt round-robin over depth+1 tables
        raw = BHV.build(tree3, ntables=3, object_table_chain=depth, chain_shape=shape, extra_replay_log=True, holes=depth % 2)
        deepest_kt = {1: 0x11000, 2: 0x12000, 3: 0x12000}[depth]
        tag = f"depth{depth}.{shape}"
        yield dict(name=f"hyperv.{tag}.object_table_signature", kind="magic", raw=raw, off=0x3000 + 0x1000 * (depth - 1), width=4,
                   open=open_hv)
        yield dict(name=f"hyperv.{tag}.key_table_signature", kind="magic", raw=raw, off=deepest_kt, width=2, open=open_hv)
        yield dict(name=f"hyperv.{tag}.replay_log_signature", kind="magic", raw=raw, off=0x9000, width=4, open=open_hv)
    # ---- envelope
    key, iv = BE.det("k", 32), BE.det("iv", 12)
    env, regions = BE.build(BE.det("p", 100), key, iv)

    def open_env(raw):
        from dissect.hypervisor.util.envelope import Envelope

        return Envelope(io.BytesIO(raw)).decrypt(key)

    yield dict(name="envelope.magic", kind="magic", raw=env, off=0, width=21, open=open_env)
    yield dict(name="envelope.version", kind="numeric", raw=env, off=508, width=4, endian="<", accepted=lambda v: v == 2,
               open=open_env)
    yield dict(name="envelope.aead_footer_version", kind="numeric", raw=env, off=len(env) - 4, width=4, endian="<",
               accepted=lambda v: v == 1, open=open_env)
    def open_env_noverify(raw):
        from dissect.hypervisor.util.envelope import Envelope

        return Envelope(io.BytesIO(raw), verify=False).decrypt(key)

    # the same gates through the non-default constructor argument (what is supported does not depend on whether the tag will
    # be checked)
    yield dict(name="envelope.aead_footer_version.verify_false", kind="numeric", raw=env, off=len(env) - 4, width=4, endian="<",
               accepted=lambda v: v == 1, open=open_env_noverify)
    yield dict(name="envelope.version.verify_false", kind="numeric", raw=env, off=508, width=4, endian="<", accepted=lambda v: v == 2,
               open=open_env_noverify)
    yield dict(name="envelope.magic.verify_false", kind="magic", raw=env, off=0, width=21, open=open_env_noverify, thin=4)
    for drop in ("vmware.keyInfo", "vmware.cipherName", "vmware.keyHash", "vmware.iv"):
        attrs = [a for a in BE.standard_attrs(key, iv) if a[2] != drop]
        bad = BE.build(BE.det("p", 100), key, iv, attrs)[0]
        yield dict(name=f"envelope.required_attribute.{drop}", kind="single", seed_ok=lambda: open_env(env),
                   fault=lambda bad=bad: open_env(bad))
    yield dict(name="envelope.cipher_name", kind="text", value="AES-256-GCM", others=[],
               open_text=lambda s: open_env(BE.build(BE.det("p", 100), key, iv, BE.standard_attrs(key, iv, cipher=s))[0]))
    # ---- keystore
    yield dict(name="keystore.mode", kind="text", value="NONE", others=[], open_text=_open_keystore, also_missing=True)
    # ---- VMX key safe
    yield dict(name="keysafe.identifier", kind="text", value="vmware:key", others=[], open_text=lambda s: _open_keysafe(ident=s))
    yield dict(name="keysafe.locator_kind", kind="text", value="phrase", others=[], open_text=lambda s: _open_keysafe(kind=s),
               extra_values=["rawkey", "ldap", "script", "role", "fqid"])
    # the same kinds judged where the key safe is opened (KeySafe.from_text), alone and next to a valid phrase pair in both orders
    yield dict(name="keysafe.locator_kind.from_text", kind="text", value="phrase", others=[],
               open_text=lambda s: _open_keysafe(kind=s, unlock=False), extra_values=["rawkey", "ldap", "script", "role", "fqid"])
    for where in ("before", "after"):
        yield dict(name=f"keysafe.locator_kind.{where}_valid_pair", kind="text", value="phrase", others=[],
                   open_text=lambda s, where=where: _open_keysafe(kind=s, beside=where),
                   extra_values=["rawkey", "ldap", "script", "role", "fqid"])
    # a list whose members are not pairs (a bare phrase locator): nothing in it can be unsealed
    yield dict(name="keysafe.list_of_non_pairs", kind="single", seed_ok=lambda: _open_keysafe(),
               fault=lambda: _open_keysafe(bare=True, unlock=False))
    yield dict(name="keysafe.mac", kind="text", value="HMAC-SHA-1", others=["HMAC-SHA-1-128", "HMAC-SHA-256"],
               open_text=lambda s: _open_keysafe(mac=s), rebuild=True)
    yield dict(name="keysafe.cipher", kind="text", value="AES-256", others=["AES-128", "AES-192"],
               open_text=lambda s: _open_keysafe(cipher=s), rebuild=True)
    yield dict(name="keysafe.kdf", kind="text", value="PBKDF2-HMAC-SHA-1", others=["PBKDF2-HMAC-SHA-256"],
               open_text=lambda s: _open_keysafe(kdf=s), rebuild=True)


def _open_vhdx_child(cimg, patches, parent_present=True, as_stream=False):
    """A differencing VHDX (block 0 lives in the parent) next to / without its parent, by path or as an anonymous stream."""
    from dissect.hypervisor.disk.vhdx import VHDX

    from mc.builders import vhdx as BX

    if as_stream == "bytesio":
        return VHDX(io.BytesIO(cimg.tobytes())).read(512)
    if as_stream:
        return _open_vhdx_sparse(_Patched(cimg.sparse(log=False), patches))
    with scratch_dir() as d:
        if parent_present:
            BX.build([DATA, DATA], [0, 1], layer=1).write_to(os.path.join(d, "base.vhdx"))
        cimg.write_to(os.path.join(d, "child.avhdx"))
        with open(os.path.join(d, "child.avhdx"), "r+b") as f:
            for off, b in patches.items():
                f.seek(off)
                f.write(b)
        v = VHDX(Path(d) / "child.avhdx")
        try:
            return v.read(512)
        finally:
            for x in (v, v.parent):
                try:
                    x.fh.close()
                except Exception:
                    pass


def _vmdk_extent(kind):
    from mc.builders import vmdk as BM

    st, sl = [DATA, HOLE], [0, None]
    if kind == "SPARSE":
        return BM.build_hosted(st, sl, 8, 512, 16).tobytes()
    if kind == "VMFSSPARSE":
        return BM.build_cowd(st, sl, 8, 16).tobytes()
    return BM.build_sesparse(st, sl, 8, 64, 16).tobytes()


def _open_vmdk_desc(raw, kind):
    from dissect.hypervisor.disk.vmdk import VMDK

    from mc.builders import vmdk as BM

    with scratch_dir() as d:
        with open(os.path.join(d, "e.vmdk"), "wb") as f:
            f.write(raw)
        with open(os.path.join(d, "disk.vmdk"), "w") as f:
            f.write(BM.descriptor_text("custom", [("RW", 16, kind, "e.vmdk", None)]))
        v = VMDK(Path(d) / "disk.vmdk")
        try:
            return v.read(512)
        finally:
            for dsk in v.disks:
                dsk.fh.close()


def _open_vmdk_kinds(kinds):
    from dissect.hypervisor.disk.vmdk import VMDK

    from mc.builders import vmdk as BM

    with scratch_dir() as d:
        ext = []
        for i, kind in enumerate(kinds):
            BM.build_flat(16, layer=i + 1).write_to(os.path.join(d, f"e{i}.vmdk"))
            ext.append(("RW", 16, kind, f"e{i}.vmdk", 0 if kind in ("FLAT", "VMFS") else None))
        with open(os.path.join(d, "disk.vmdk"), "w") as f:
            f.write(BM.descriptor_text("custom", ext))
        v = VMDK(Path(d) / "disk.vmdk")
        try:
            return v.read(512)
        finally:
            for dsk in v.disks:
                dsk.fh.close()


def _open_hdd_type(typ, drop_descriptor=False, ancestor_type=None):
    from dissect.hypervisor.disk.hdd import HDD

    from mc.builders import hdd as BH

    with scratch_dir() as d:
        hd = os.path.join(d, "x.hdd")
        os.mkdir(hd)
        BH.build_hds([DATA, HOLE], [1, None], 8, 2).write_to(os.path.join(hd, "x.hds"))
        images, shots = [(BH.DEFAULT_TOP, typ, "x.hds")], [(BH.DEFAULT_TOP, BH.NULL_GUID)]
        if ancestor_type is not None:
            g0 = "{00000001-0000-4000-8000-000000000000}"
            if ancestor_type == "Plain":
                from mc import pattern

                with open(os.path.join(hd, "base.hds"), "wb") as f:
                    f.write(pattern.sectors(3, 0, 16))
            else:
                BH.build_hds([DATA, DATA], [1, 2], 8, 2, layer=3).write_to(os.path.join(hd, "base.hds"))
            images = [(g0, ancestor_type, "base.hds")] + images
            shots = [(g0, BH.NULL_GUID), (BH.DEFAULT_TOP, g0)]
        if not drop_descriptor:
            with open(os.path.join(hd, "DiskDescriptor.xml"), "w") as f:
                f.write(BH.descriptor_xml(16, [(0, 16, images)], shots))
        h = HDD(Path(hd))
        try:
            s = h.open()
        except Exception:
            # the same object asked again (and for the snapshot by GUID) must refuse again
            for again in (lambda: h.open(), lambda: h.open(BH.DEFAULT_TOP), lambda: h.open()):
                try:
                    s2 = again()
                except Exception:
                    continue
                data = s2.read(512)
                for _, x in s2.streams:
                    try:
                        getattr(x, "fh", x).close()
                    except Exception:
                        pass
                return data  # accepted on a later attempt: the caller expects an exception
            raise
        try:
            return s.read(512)
        finally:
            for _, x in s.streams:
                try:
                    getattr(x, "fh", x).close()
                except Exception:
                    pass


def _open_keystore(mode, missing=False):
    from dissect.hypervisor.util.envelope import KeyStore

    from mc.builders import envelope as BE

    text = BE.keystore_text(BE.det("id", 16), BE.det("a", 16), BE.det("b", 16), mode=None if missing else mode)
    return KeyStore.from_text(text).key


def _open_keysafe(ident="vmware:key", kind="phrase", mac="HMAC-SHA-1", cipher="AES-256", kdf="PBKDF2-HMAC-SHA-1", bare=False,
                  unlock=True, beside=None):
    from dissect.hypervisor.descriptor.vmx import VMX

    from mc.builders import vmxenc as BV

    # build with the *valid* names the altered one is closest to, then substitute the name in the text
    def valid(name, table, default):
        return name if name in table else default

    vmac, vcipher, vkdf = valid(mac, BV.MACS, "HMAC-SHA-1"), valid(cipher, BV.KEYLEN, "AES-256"), valid(kdf, BV.KDFS, "PBKDF2-HMAC-SHA-1")
    dk = BV.det_bytes("dk", BV.KEYLEN[vcipher])
    salt = BV.det_bytes("salt", 16)
    pair, blob = BV.pair_text("pw", vkdf, vcipher, 1, salt, vmac, vcipher, dk, BV.det_bytes("iv", 16))
    if mac != vmac:
        pair = pair.replace("," + BV.q(vmac) + ",", "," + BV.q(mac) + ",")
    if cipher != vcipher:
        pair = pair.replace(BV.q("cipher=" + BV.qv(vcipher)), BV.q("cipher=" + BV.qv(cipher)))
    if kdf != vkdf:
        pair = pair.replace(BV.q("pass2key=" + BV.qv(vkdf)), BV.q("pass2key=" + BV.qv(kdf)))
    if kind != "phrase":
        pair = pair.replace("pair/(phrase/", f"pair/({kind}/")
    data = BV.seal(dk, b'a = "b"\nmemsize = "1"', vmac, BV.det_bytes("iv2", 16))
    if bare:
        # list/(phrase/...) instead of list/(pair/(phrase/...,mac,blob))
        inner = pair[len("pair/("):]
        pair = inner[:inner.index(",")]
        assert pair.startswith("phrase/"), pair
    pairs = [pair]
    if beside:
        good, _ = BV.pair_text("pw", vkdf, vcipher, 1, salt, vmac, vcipher, dk, BV.det_bytes("iv", 16))
        pairs = [pair, good] if beside == "before" else [good, pair]
    text = BV.vmx_text(pairs, data).replace("vmware:key/list", ident + "/list")
    if not unlock:
        from dissect.hypervisor.descriptor.vmx import KeySafe

        v = VMX.parse(text)
        return KeySafe.from_text(v.attr["encryption.keysafe"])
    v = VMX.parse(text)
    v.unlock_with_phrase("pw")
    return v.attr["a"]


# ---- fault generators -----------------------------------------------------------------------------------------------------
def _bitflips(width, two=False):
    n = width * 8
    for i in range(n):
        yield (i,)
    if two:
        for i, j in itertools.combinations(range(n), 2):
            yield (i, j)
        if width <= 4:
            for t in itertools.combinations(range(n), 3):
                yield t
        # every other value of every single byte
        for b in range(width):
            for x in range(1, 256):
                bits = tuple(b * 8 + k for k in range(8) if x >> k & 1)
                if len(bits) > (3 if width <= 4 else 2):
                    yield bits


def _edits(s):
    out = []
    alphabet = "aZ9-:_ "
    for i in range(len(s)):
        out.append(s[:i] + s[i + 1:])  # dropped
        c = s[i]
        if c.swapcase() != c:
            out.append(s[:i] + c.swapcase() + s[i + 1:])
        for a in alphabet:
            if a != c:
                out.append(s[:i] + a + s[i + 1:])
    for i in range(len(s) + 1):
        for a in alphabet:
            out.append(s[:i] + a + s[i:])
    out.append("")
    # the dictionary layers strip surrounding blanks and quotes before the gate sees the value: those are not other values
    return sorted(set(x for x in out if x.strip(' "') != s and x == x.strip(' "')))


def shards(tier):
    names = [g["name"] for g in _gates(tier)]
    return [{"gate": n, "tier": tier} for n in names]


def run_shard(shard, ctx):
    run_case({"gate": shard["gate"], "tier": shard["tier"]}, ctx)


def run_case(case, ctx):
    gate = next(g for g in _gates(case["tier"]) if g["name"] == case["gate"])
    only = case.get("only")
    ctx.executions += 1
    ctx.model(case["gate"])
    ctx.sample({"gate": case["gate"], "kind": gate["kind"]})
    subject = gate["name"]

    def attempt(fn, fault_desc, must_raise):
        ctx.transitions += 1
        ctx.states += 1
        try:
            with ctx.watch(dict(case, only=fault_desc), 180):
                fn()
            raised = None
        except Exception as e:
            raised = e
        if must_raise:
            ctx.nontrivial += 1
            if raised is None:
                ctx.violation(dict(case, only=fault_desc), {"subject": subject, "kind": "unsupported-input-accepted"},
                              {"fault": fault_desc})
                return False
            ctx.outcome("refused")
        else:
            if raised is not None:
                ctx.violation(dict(case, only=fault_desc), {"subject": subject, "kind": "supported-input-refused"},
                              {"fault": fault_desc, "exception": repr(raised)[:300]})
                return False
            ctx.outcome("accepted-in-set")
        return True

    kind = gate["kind"]
    if kind == "single":
        if not attempt(gate["seed_ok"], "seed", False):
            return
        attempt(gate["fault"], "fault", True)
        return
    if kind == "multi":
        if not attempt(gate["seed_ok"], "seed", False):
            return
        for desc, fn in gate["faults"]:
            if only is not None and only != desc:
                continue
            if not attempt(fn, desc, True):
                return
        return
    if kind in ("magic", "numeric"):
        if "sparse" in gate:
            base = gate["sparse"].sparse(log=False).peek_at(gate["off"], gate["width"])
            opener = lambda b: gate["open_patched"]({gate["off"]: b})  # noqa: E731
        else:
            base = gate["raw"][gate["off"]:gate["off"] + gate["width"]]
            opener = lambda b: gate["open"](gate["raw"][:gate["off"]] + b + gate["raw"][gate["off"] + gate["width"]:])  # noqa: E731
        if not attempt(lambda: opener(base), "seed", False):
            return
        if kind == "magic":
            thin = gate.get("thin", 1)
            for n, bits in enumerate(_bitflips(gate["width"], case["tier"] != "quick" and gate["width"] <= 8)):
                if n % thin:
                    continue
                if only is not None and only != list(bits):
                    continue
                b = bytearray(base)
                for bit in bits:
                    b[bit // 8] ^= 1 << (bit % 8)
                if not attempt(lambda: opener(bytes(b)), list(bits), True):
                    return
            return
        w, en = gate["width"], gate["endian"]
        fmt = en + {1: "B", 2: "H", 4: "I", 8: "Q"}[w]
        cur, = struct.unpack(fmt, base)
        mx = (1 << (8 * w)) - 1
        vals = set(range(256)) | {cur ^ (1 << i) for i in range(8 * w)} | {mx, mx - 1, cur + 1, cur - 1} | set(gate.get("extra_values", []))
        for v in sorted(x for x in vals if 0 <= x <= mx and x != cur):
            if only is not None and only != v:
                continue
            ok = gate["accepted"](v)
            if not attempt(lambda: opener(struct.pack(fmt, v)), v, not ok):
                return
        return
    if kind == "text":
        if not attempt(lambda: gate["open_text"](gate["value"]), "seed", False):
            return
        for o in gate["others"]:
            if not attempt(lambda: gate["open_text"](o), o, False):
                return
        for s in _edits(gate["value"]) + gate.get("extra_values", []):
            if s in gate["others"] or (only is not None and only != s):
                continue
            if not attempt(lambda: gate["open_text"](s), s, True):
                return
        if gate.get("also_missing"):
            attempt(lambda: gate["open_text"](gate["value"], missing=True), "missing", True)
