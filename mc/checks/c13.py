"""C13 -- lazy access: I/O bounded by metadata + request, correct at multi-terabyte scale.   Shape A over configurations.

Images live in SparseFile objects that log every read.  Oracles: (1) content at extreme offsets, (2) bytes requested during
open + read <= 2*M + 4*request + 64 KiB with M = all mapping metadata in the image, (3) differential: an image whose
tables are fully populated costs exactly the same I/O for the same request as one with the same tables nearly empty, and
(4) no read touches payload that the request does not map to (+- one buffer).
"""
from __future__ import annotations

import io

import itertools

from mc import bootstrap
from mc.diskcheck import describe_mismatch
from mc.models import DATA, HOLE, ZERO

PROPERTY = "C13"
LEVEL = "model_checking"
TECHNIQUE = "exhaustive enumeration of scale x placement x density x request configurations with an I/O meter on the backing file"
RULE = ("format {qcow2, vmdk hosted, vmdk se-sparse, vhdx, vhd, vdi, hds v1/v2} x virtual size {small, > 4 GiB, > 2 TiB, "
        "format limit} x placement of tables and data {low, > 2^32 bytes, > 2^32 sectors, top of the field range} x "
        "allocation density {targets only, 64-unit window + 16 groups of several hundred units} x request {first unit, last "
        "unit, boundary crossing, unallocated}: full product where the format can express it. non-trivial = configuration "
        "with a placement or virtual size beyond 2^32 bytes. Plus: compressed grains whose deflate stream is 484..528 bytes "
        "long (around a sector minus either marker size), with and without embedded LBA markers: bytes requested per grain read")
ASSUMPTIONS = [
    "a reader may load whole tables eagerly, so the I/O bound uses the size of ALL mapping metadata in the image (M), not "
    "only the part on the lookup path; bound = 2*M + 4*(request + 2 buffers) + 64 KiB; on the large configurations the "
    "allocated payload is >= 3x that bound (ratio reported under maxima), so a scan or payload-proportional cost exceeds it",
    "format limits used: QCOW2 host offsets < 2^56, hosted VMDK 2^32-1 sectors, SE-sparse 2^35 sectors (table sizes kept "
    "loadable), VHDX 64 TiB, SE-sparse also at 20 TiB (directory of 10 MiB), VHD 2040 GiB, VDI int32 block indices, HDS uint32 BAT entries",
    "reads that fall into gaps between the builder's extents (zero padding of structures) are not payload",
]
ALPHABET = "format x scale x placement x density x request"
BOUND = {"quick": "all formats, 4 scales x 4 placements x 2 densities x 4 requests (where expressible), buffer 8192",
         "thorough": "same with buffers {512, 8192, 65536}"}
EXPECT_OUTCOMES = ["qcow2", "qcow2-512", "vmdk-hosted-8m", "qcow2-2m", "vhdx-4k", "vmdk-hosted", "vmdk-stream", "vmdk-sesparse", "vhdx", "vhd", "vdi", "hds2", "hds1"]
MB = 1 << 20
GROUPS = 16
GROUP_UNITS = 400

FORMATS = {
    # unit bytes, scales (units), placements
    "qcow2": dict(unit=65536, scales={"small": 1 << 14, "4g": (1 << 16) + 77, "2t": (1 << 25) + 5, "limit": 1 << 30},
                  places=["low", "b32", "s32", "top"]),
    # 512-byte clusters: 64 L2 entries per table, so a disk of 4 GiB + already needs more than 131072 L1 entries (1 MiB of L1)
    "qcow2-512": dict(unit=512, scales={"4g": (1 << 23) + 77, "16g": (1 << 25) + 5}, places=["low", "b32"]),
    "vmdk-hosted": dict(unit=65536, scales={"small": 1 << 14, "4g": (1 << 16) + 77, "limit": (1 << 25) - 1},
                        places=["low", "b32", "top", "gd-ffffffff", "gd-1ffffffff", "gd-7fffffff"]),
    # allocation units far above the stream buffer: what a small request costs does not follow the unit size the header declares
    "vmdk-hosted-8m": dict(unit=8 * MB, scales={"small": 4099, "limit": (1 << 18) - 1}, places=["low", "b32"]),
    "qcow2-2m": dict(unit=2 * MB, scales={"small": 4099, "2t": (1 << 20) + 5}, places=["low", "b32"]),
    "vmdk-stream": dict(unit=65536, scales={"small": 1 << 14, "4g": (1 << 16) + 77, "limit": (1 << 25) - 1},
                        places=["low", "b32", "top"]),
    "vmdk-sesparse": dict(unit=4096, scales={"small": 1 << 16, "4g": (1 << 20) + 77, "2t": (1 << 29) + 5, "limit": 1 << 32, "20t": (5 << 30) + 3},
                          places=["low", "b32", "s32", "top"]),
    "vhdx": dict(unit=32 * MB, scales={"small": 64, "4g": 130, "2t": (1 << 16) + 3, "limit": 1 << 21},
                 places=["low", "b32", "s32", "top"]),
    "vhdx-4k": dict(unit=32 * MB, scales={"small": 64, "2t": (1 << 16) + 3}, places=["low", "b32"]),  # 4096-byte logical sectors
    "vhd": dict(unit=2 * MB, scales={"small": 512, "4g": 2050, "limit": 1044480},
                places=["low", "b32", "top", "hdr-ffffffff", "hdr-4g", "hdr-6g", "hdr-top"]),
    "vdi": dict(unit=MB, scales={"small": 1024, "4g": 4100, "2t": (1 << 21) + 3}, places=["low", "b32", "s32", "top"]),
    "hds2": dict(unit=MB, scales={"small": 1024, "4g": 4100, "2t": (1 << 21) + 3}, places=["low", "b32", "s32", "top"]),
    "hds1": dict(unit=MB, scales={"small": 1024, "4g": 4100, "limit": (1 << 21) - 1}, places=["low", "b32", "top"]),
}


def shards(tier):
    out = []
    bufs = [8192] if tier == "quick" else [512, 8192, 65536]
    for buf in bufs:
        for fmt, f in FORMATS.items():
            for scale in f["scales"]:
                for place in f["places"]:
                    out.append({"buf": buf, "fmt": fmt, "scale": scale, "place": place})
        for lba in (True, False):
            out.append({"buf": buf, "fmt": "vmdk-stream", "tuned": True, "lba": lba})
        for cb in (16, 20):
            out.append({"buf": buf, "fmt": "qcow2", "snapview": True, "cb": cb})
        out.append({"buf": buf, "fmt": "vmdk-sesparse", "tablecache": True})
        for cb in (16, 18):
            out.append({"buf": buf, "fmt": "qcow2", "extcomp": True, "cb": cb})
    return out


def _tuned(case, ctx):
    """Compressed grains whose deflate stream is L bytes long, L around the sector size minus either marker length: the
    bytes requested for reading one such grain are bounded by a few sectors + buffers, whatever L is."""
    from dissect.hypervisor.disk.vmdk import VMDK

    from mc.builders import vmdk as B

    buf = bootstrap.bufsize()
    L, lba = case["len"], case["lba"]
    grain = 8
    explicit = {}
    for gi, seed in ((0, 11), (1, 12)):
        b = B.tuned_grain(grain, L + gi, seed)
        if b is not None:
            explicit[gi] = b
    ctx.executions += 1
    ctx.model(case)
    ctx.outcome("vmdk-stream")
    if not explicit:
        return
    n = 300  # ~1.2 MiB of further grains behind the two tuned ones: a scan to the end of the file is 1000x the bound
    states = [DATA if i in explicit else (B.CDATA if i < 2 else DATA) for i in range(n)]
    slots = list(range(n))
    img = B.build_hosted(states, slots, grain, 512, n * grain, footer=True, compressed=True, stride=9, explicit=explicit,
                         embedded_lba=lba)
    model = B.model(states, grain, n * grain, explicit=explicit)
    fh = img.sparse(log=True)
    with ctx.watch(case, 120):
        v = VMDK(fh)
        for gi in sorted(explicit):
            ctx.transitions += 1
            ctx.states += 1
            ctx.nontrivial += 1
            fh.reset_meter()
            got = v.read_sectors(gi * grain, grain)
            if got != model.content(gi * grain * 512, grain * 512):
                ctx.violation(case, {"subject": "vmdk-stream.tuned.read", "kind": "mismatch", "lba": lba}, {"grain": gi, "deflate_len": L + gi})
                return
            cost, bound = fh.bytes_requested, 16 * 512 + 4 * buf + 4096
            ctx.maxi("tuned_cost_over_bound_permille", int(1000 * cost / bound))
            if cost > bound:
                ctx.violation(case, {"subject": "vmdk-stream.io", "kind": "io-bound-exceeded", "request": "tuned-grain", "lba": lba},
                              {"deflate_len": L + gi, "read_bytes": cost, "bound": bound, "reads": [list(r) for r in fh.reads[:6]]})
                return


def _snapview(case, ctx):
    """A snapshot view read with many small requests that fall into one L2 table: the table (one cluster, up to 2 MiB) is
    not re-read per request -- total I/O stays within metadata + a few times the bytes asked for, exactly as for the image."""
    from dissect.hypervisor.disk.qcow2 import QCow2

    from mc.builders import qcow2 as B

    buf = bootstrap.bufsize()
    cb = case["cb"]
    cs = 1 << cb
    n = 48
    act = ["N" if i % 3 == 0 else "U" for i in range(n)]
    snp = ["N" if i % 3 != 1 else "U" for i in range(n)]
    sl = lambda st, base: [base + i if x == "N" else None for i, x in enumerate(st)]  # noqa: E731
    img, _ = B.build(act, sl(act, 0), cb, 3, n * cs, snapshots=[{"states": snp, "slots": sl(snp, n), "layer": 2}])
    models = [B.model(act, cb, n * cs, layer=1), B.model(snp, cb, n * cs, layer=2)]
    ctx.executions += 1
    ctx.model(case)
    ctx.outcome("qcow2")
    fh = img.sparse(log=True)
    with ctx.watch(case, 300):
        q = QCow2(fh)
        views = [q, q.snapshots[0].open()]
        # first the two views alternately (they share the handle and the table cache), then each on its own
        fh.reset_meter()
        asked = 0
        for k in range(n * 2):
            for vi, v in enumerate(views):
                off = ((k * 2 + vi) * 7919 * 4096) % (n * cs - 4096)
                v.seek(off)
                got = v.read(4096)
                asked += 4096
                ctx.transitions += 1
                ctx.states += 1
                if got != models[vi].content(off, 4096):
                    ctx.violation(case, {"subject": "qcow2.snapshot-view.read", "kind": "mismatch", "view": vi, "alternating": True},
                                  {"offset": off})
                    return
        bound = 2 * img.meta_bytes + 4 * (asked + n * 4 * 2 * buf) + 65536
        ctx.maxi("snapview_alternating_cost_over_bound_permille", int(1000 * fh.bytes_requested / bound))
        if fh.bytes_requested > bound:
            ctx.violation(case, {"subject": "qcow2.snapshot-view.io", "kind": "io-bound-exceeded", "view": "alternating"},
                          {"read_bytes": fh.bytes_requested, "bound": bound, "asked": asked, "cluster_size": cs})
            return
        costs = []
        for vi, v in enumerate(views):
            fh.reset_meter()
            asked = 0
            for k in range(n * 4):
                off = (k * 7919 * 4096) % (n * cs - 4096)
                v.seek(off)
                got = v.read(4096)
                asked += 4096
                ctx.transitions += 1
                ctx.states += 1
                if got != models[vi].content(off, 4096):
                    ctx.violation(case, {"subject": "qcow2.snapshot-view.read", "kind": "mismatch", "view": vi}, {"offset": off})
                    return
            ctx.nontrivial += 1
            costs.append(fh.bytes_requested)
            bound = 2 * img.meta_bytes + 4 * (asked + n * 4 * 2 * buf) + 65536
            ctx.maxi("snapview_cost_over_bound_permille", int(1000 * fh.bytes_requested / bound))
            if fh.bytes_requested > bound:
                ctx.violation(case, {"subject": "qcow2.snapshot-view.io" if vi else "qcow2.io", "kind": "io-bound-exceeded", "view": vi},
                              {"read_bytes": fh.bytes_requested, "bound": bound, "asked": asked, "cluster_size": cs})
                return
        # differential: the view costs what the image costs (same number of data clusters touched per request on average)
        if costs[1] > 3 * costs[0] + (1 << 20):
            ctx.violation(case, {"subject": "qcow2.snapshot-view.io", "kind": "view-costs-more-than-image"},
                          {"image_bytes": costs[0], "view_bytes": costs[1]})


def _tablecache(case, ctx):
    """200 grain tables of 32 KiB are each touched once, then 1000 sector reads go to two of the late ones in turn: all of it
    together costs the metadata (twice at most) plus what the requests and the stream buffer account for -- a table that is in
    use is not fetched again for every request."""
    from dissect.hypervisor.disk.vmdk import VMDK

    from mc.builders import vmdk as B

    buf = bootstrap.bufsize()
    ctx.executions += 1
    ctx.model(case)
    ctx.sample(case)
    ctx.outcome("vmdk-sesparse")
    ctx.nontrivial += 1
    T, per, unit = 200, 4096, 4096
    total = T * per
    units = [t * per + 1 for t in range(T)] + [tl * per + 2 + j for tl in (150, 151) for j in range(40)]
    placed = {u: (i * 7919) % len(units) for i, u in enumerate(units)}
    states, slots = _dense_lists(placed, total, DATA, HOLE, fmt="vmdk-sesparse")
    img = B.build_sesparse(states, slots, 8, 64, total * 8, 0, total, cluster_base=(1 << 29) + 5)
    model = B.model(states, 8, total * 8, 0, total)
    fh = img.sparse(log=False)
    M = img.meta_bytes
    with ctx.watch(case, 900):
        v = VMDK(fh)
        reqs = [((t * per + 1) * unit, 512) for t in range(T)]
        reqs += [(((150 + k % 2) * per + 2 + (k * 7) % 40) * unit + (k % 8) * 512, 512) for k in range(1000)]
        allow = 2 * M + 65536
        for k, (a, n) in enumerate(reqs):
            ctx.transitions += 1
            ctx.states += 1
            v.seek(a)
            got = v.read(n)
            if got != model.content(a, n):
                ctx.violation(case, {"subject": "vmdk-sesparse.table-cache.read", "kind": "mismatch"}, {"offset": a, "request": k})
                return
            allow += 2 * n + 2 * buf
            if fh.bytes_requested > allow:
                ctx.violation(case, {"subject": "vmdk-sesparse.io", "kind": "io-bound-exceeded", "request": "table-in-use-fetched-again"},
                              {"read_bytes_so_far": fh.bytes_requested, "bound": allow, "metadata_bytes": M, "after_request": k,
                               "tables": T})
                return
        ctx.maxi("tablecache_cost_over_bound_permille", int(1000 * fh.bytes_requested / allow))


def _extcomp(case, ctx):
    """Extended L2 entries next to compressed clusters whose descriptors cover 30 / 100 KiB of the file: a request inside one
    compressed cluster fetches it once, whatever the number of sub-cluster borders the request crosses."""
    from dissect.hypervisor.disk.qcow2 import QCow2

    from mc.builders import qcow2 as B

    buf = bootstrap.bufsize()
    cb = case["cb"]
    cs = 1 << cb
    ctx.executions += 1
    ctx.model(case)
    ctx.sample(case)
    ctx.outcome("qcow2")
    ctx.nontrivial += 1
    sub_u = ["u"] * 32
    states = [{"kind": B.C, "sub": sub_u}, {"kind": B.N, "sub": ["a"] * 32}, {"kind": B.C, "sub": sub_u}, {"kind": B.U, "sub": sub_u}]
    extra = (cs // 512) // 2 - 8  # descriptors that claim about half a cluster of 512-byte sectors each
    img, _ = B.build(states, [None, 1, None, None], cb, 3, ext=True, comp={0: (0, extra, False), 2: (511, extra, False)})
    model = B.model(states, cb)
    fh = img.sparse(log=False)
    M = img.meta_bytes
    with ctx.watch(case, 300):
        q = QCow2(fh)
        allow = 2 * M + 65536
        reqs = [(cs // 8, cs * 3 // 4), (cs // 32, cs // 2), (2 * cs + cs // 16 + 7, cs // 2), (0, cs), (cs // 2, 2 * cs),
                (2 * cs + 5, cs - 9)]
        for k, (a, n) in enumerate(reqs):
            ctx.transitions += 1
            ctx.states += 1
            q.seek(a)
            got = q.read(n)
            if got != model.content(a, n):
                ctx.violation(case, {"subject": "qcow2.extl2-compressed.read", "kind": "mismatch"}, {"offset": a, "length": n})
                return
            allow += 4 * (n + 2 * buf)
            if fh.bytes_requested > allow:
                ctx.violation(case, {"subject": "qcow2.io", "kind": "io-bound-exceeded", "request": "compressed-cluster-fetched-per-sub-cluster"},
                              {"read_bytes_so_far": fh.bytes_requested, "bound": allow, "metadata_bytes": M, "after_request": k,
                               "descriptor_bytes": (extra + 1) * 512})
                return
        ctx.maxi("extcomp_cost_over_bound_permille", int(1000 * fh.bytes_requested / allow))


def run_shard(shard, ctx):
    if shard.get("extcomp"):
        run_case({"extcomp": True, "cb": shard["cb"]}, ctx)
        return
    if shard.get("tablecache"):
        run_case({"tablecache": True}, ctx)
        return
    if shard.get("snapview"):
        run_case({"snapview": True, "cb": shard["cb"]}, ctx)
        return
    if shard.get("tuned"):
        for L in range(484, 528):
            run_case({"tuned": True, "len": L, "lba": shard["lba"]}, ctx)
        return
    # one case builds both the nearly empty and the densely allocated image of the configuration
    run_case({"fmt": shard["fmt"], "scale": shard["scale"], "place": shard["place"], "density": "dense"}, ctx)
    if shard["place"] == "low" and shard["scale"] in ("small", "4g"):
        # the same through an unbuffered handle
        run_case({"fmt": shard["fmt"], "scale": shard["scale"], "place": shard["place"], "density": "dense", "rawio": True}, ctx)


def _layout(fmt, total, density):
    """-> dict unit -> slot for DATA units, plus the targets.  Slots are consecutive in a scrambled order."""
    mid = total // 2
    targets = {"first": 0, "cross": mid, "cross2": mid + 1, "last": total - 1}
    units = set(targets.values())
    win = [mid - 20 + i for i in range(64)] if total > 200 else []
    groups = []
    per_group = max(GROUP_UNITS, (96 * MB) // FORMATS[fmt]["unit"] // GROUPS)
    if total > GROUPS * per_group * 4:
        for g in range(GROUPS):
            base = (total // GROUPS) * g + 7
            groups.append([base + 2 * i for i in range(per_group)])
    for grp in groups:
        units.add(grp[0])  # the sparse image keeps one unit per group so that the same tables exist in both images
    if win:
        units.add(win[0])
    if density == "dense":
        units.update(win)
        for grp in groups:
            units.update(grp)
    units = {u for u in units if 0 <= u < total}
    # dense-image slot numbering is used for both, so shared units live at the same physical place in both images
    allu = set(targets.values()) | set(win) | {u for grp in groups for u in grp}
    allu = sorted(u for u in allu if 0 <= u < total)
    slot_of = {u: (i * 7919) % len(allu) for i, u in enumerate(allu)} if len(allu) % 7919 else {u: i for i, u in enumerate(allu)}
    # the two units on either side of the middle boundary are neighbours in the file as well (cross2 directly behind cross): a
    # reader that merges physically adjacent units still fetches no more than the request needs
    a_, b_ = targets["cross"], targets["cross2"]
    if a_ in slot_of and b_ in slot_of and len(allu) > 4:
        want = slot_of[a_] + 1 if slot_of[a_] + 1 < len(allu) else slot_of[a_] - 1
        other = next((u for u, sl in slot_of.items() if sl == want), None)
        if other is not None and other != b_:
            slot_of[other], slot_of[b_] = slot_of[b_], want
        if want < slot_of[a_]:  # (cross holds the last slot: put cross2 in front of it and swap the two)
            slot_of[a_], slot_of[b_] = slot_of[b_], slot_of[a_]
    span = 65536 // FORMATS[fmt]["unit"] + 2
    aset = set(allu)
    hole = None
    for cand in (mid - 1000, mid + 100, mid // 2 + 3, 5):
        if 0 < cand < total - span and not any((cand + d) in aset for d in range(-span, span + 1)):
            hole = cand
            break
    return {u: slot_of[u] for u in units}, targets, hole


def _build(fmt, total, place, placed):
    """placed: unit -> slot.  Returns (Image, model, opener, M-adjust)."""
    f = FORMATS[fmt]
    unit = f["unit"]
    if fmt == "qcow2-512":
        from dissect.hypervisor.disk.qcow2 import QCow2

        from mc.builders import qcow2 as B

        states, slots = _dense_lists(placed, total, "N", "U", cap=None, fmt=fmt)
        tb, db = {"low": (None, None), "b32": ((4 << 30) + (2 << 20), (8 << 30) + (64 << 20))}[place]
        img, _ = B.build(states, slots, 9, 3, total * unit, 0, total, table_base=tb, data_base=db)
        model = B.model(states, 9, total * unit, 0, total)
        return img, model, lambda fh: QCow2(fh)
    if fmt == "qcow2":
        from dissect.hypervisor.disk.qcow2 import QCow2

        from mc.builders import qcow2 as B

        lo, hi = min(placed), max(placed)
        # the builder takes a dense window list; use a sparse window description instead: one build per call with the
        # window spanning all units would be too large, so the states list is built only over used units via window_at=0
        states, slots = _dense_lists(placed, total, "N", "U", cap=None, fmt=fmt)
        # the units around the middle boundary are compressed clusters: their data lies behind the data area, i.e. beyond
        # 2^32 bytes / 2^32 sectors on the placements that put the data there
        mid = total // 2
        for u in (mid, mid + 1):
            if u in states.items and place != "top":  # (the host-offset field of a compressed descriptor has 54 bits)
                states.items[u] = "C"
                slots.pop(u, None)
        tb, db = {"low": (None, None), "b32": ((4 << 30) + (2 << 20), (8 << 30) + (64 << 20)),
                  "s32": ((4 << 30) + (2 << 20), (1 << 41) + (64 << 20)), "top": ((1 << 55) - (1 << 30), 1 << 54)}[place]
        img, _ = B.build(states, slots, 16, 3, total * unit, 0, total, table_base=tb, data_base=db, comp_pack=True)
        model = B.model(states, 16, total * unit, 0, total)
        return img, model, lambda fh: QCow2(fh)
    if fmt == "qcow2-2m":
        from dissect.hypervisor.disk.qcow2 import QCow2

        from mc.builders import qcow2 as B

        states, slots = _dense_lists(placed, total, "N", "U", cap=None, fmt=fmt)
        tb, db = {"low": (None, None), "b32": ((4 << 30) + (2 << 20), (8 << 30) + (64 << 20))}[place]
        img, _ = B.build(states, slots, 21, 3, total * unit, 0, total, table_base=tb, data_base=db)
        model = B.model(states, 21, total * unit, 0, total)
        return img, model, lambda fh: QCow2(fh)
    if fmt in ("vmdk-hosted", "vmdk-hosted-8m"):
        from dissect.hypervisor.disk.vmdk import VMDK

        from mc.builders import vmdk as B

        states, slots = _dense_lists(placed, total, DATA, HOLE, fmt=fmt)
        grain = unit // 512
        tb, db = {"low": (None, None), "b32": ((1 << 23) + 64, (1 << 24)), "top": ((1 << 32) - (1 << 22), (1 << 32) - (1 << 21))}.get(
            place, (None, None))
        # the grain directory alone far into the file: its 64-bit offset ends in 32 one-bits (sector 0xFFFFFFFF, 0x1FFFFFFFF) or
        # is 0x7FFFFFFF; the value 2^64 - 1 alone means "see the footer"
        gd_at = {"gd-ffffffff": 0xFFFFFFFF, "gd-1ffffffff": 0x1FFFFFFFF, "gd-7fffffff": 0x7FFFFFFF}.get(place)
        img = B.build_hosted(states, slots, grain, 512, total * grain - 3, 0, total, table_base=tb, data_base=db, gd_at=gd_at)
        model = B.model(states, grain, total * grain - 3, 0, total)
        return img, model, lambda fh: VMDK(fh)
    if fmt == "vmdk-stream":
        from dissect.hypervisor.disk.vmdk import VMDK

        from mc.builders import vmdk as B

        # compressed grains (embedded LBA, footer-located GD, tables behind the data as in stream-optimized files); the
        # payload is the compressible pattern layer: records of a few sectors at a stride of 8 sectors
        states, slots = _dense_lists(placed, total, B.CDATA, HOLE, fmt=fmt)
        grain = unit // 512
        db = {"low": None, "b32": (1 << 23) + 64, "top": (1 << 32) - (1 << 22)}[place]
        img = B.build_hosted(states, slots, grain, 512, total * grain - 3, 0, total, data_base=db, footer=True,
                             compressed=True, stride=8)
        model = B.model(states, grain, total * grain - 3, 0, total)
        return img, model, lambda fh: VMDK(fh)
    if fmt == "vmdk-sesparse":
        from dissect.hypervisor.disk.vmdk import VMDK

        from mc.builders import vmdk as B

        states, slots = _dense_lists(placed, total, DATA, HOLE, fmt=fmt)
        cb = {"low": 0, "b32": (1 << 20) + 3, "s32": (1 << 29) + 5, "top": (1 << 33) + 7}[place]
        img = B.build_sesparse(states, slots, 8, 64, total * 8, 0, total, cluster_base=cb)
        model = B.model(states, 8, total * 8, 0, total)
        return img, model, lambda fh: VMDK(fh)
    if fmt in ("vhdx", "vhdx-4k"):
        from dissect.hypervisor.disk.vhdx import VHDX

        from mc.builders import vhdx as B

        sec = 4096 if fmt == "vhdx-4k" else 512
        states, slots = _dense_lists(placed, total, DATA, 0, fmt=fmt)
        bat_mb, base_mb = {"low": (3, None), "b32": (4100, 8200), "s32": (4100, (1 << 22) + 64), "top": ((1 << 41), 1 << 42)}[place]
        if base_mb is None:
            base_mb = 3 + (total * 8 + (total // 64) * 8) // MB + 2
        img = B.build(states, slots, unit, sec, total * unit - sec * 5, bat_mb=bat_mb, base_mb=base_mb, total_blocks=total)
        model = B.model(states, unit, sec, total * unit - sec * 5, total_blocks=total)
        return img, model, lambda fh: VHDX(fh)
    if fmt == "vhd":
        from dissect.hypervisor.disk.vhd import VHD

        from mc.builders import vhd as B

        states = [DATA if u in placed else HOLE for u in range(total)]
        slots = [placed.get(u) for u in range(total)]
        base = {"low": None, "b32": (1 << 23) + 9, "top": (1 << 32) - (1 << 27)}.get(place)
        spb = unit // 512
        # the dynamic header itself may sit anywhere the footer's 64-bit data offset can express
        hdr_at = {"hdr-ffffffff": 0xFFFFFFFF, "hdr-4g": 1 << 32, "hdr-6g": (6 << 30) + 512, "hdr-top": (1 << 62) + 512}.get(place)
        if hdr_at is not None and hdr_at < (1 << 40):
            base = (hdr_at + 1024) // 512 + 3  # the blocks follow the header
        img = B.build_dynamic(states, slots, spb, total * unit, total, base_sector=base, hdr_at=hdr_at)
        model = B.model_dynamic(states, spb, total * unit)
        return img, model, lambda fh: VHD(fh)
    if fmt == "vdi":
        from dissect.hypervisor.disk.vdi import VDI

        from mc.builders import vdi as B

        off = {"low": 0, "b32": 4100, "s32": (1 << 22) + 11, "top": (1 << 31) - 10000}[place]
        states = [DATA if u in placed else (ZERO if u % 3 == 0 else HOLE) for u in range(total)]
        slots = [placed[u] + off if u in placed else None for u in range(total)]
        img = B.build(states, slots, unit, total * unit - 1536, tail_slack=False)
        model = B.model(states, unit, total * unit - 1536)
        return img, model, lambda fh: VDI(fh)
    if fmt in ("hds2", "hds1"):
        from dissect.hypervisor.disk.hdd import HDS

        from mc.builders import hdd as B

        ver = 2 if fmt == "hds2" else 1
        spc = unit // 512
        first = (64 + 4 * total) // unit + 1
        off = {"low": first, "b32": 4100 + first, "s32": (1 << 22) + 11, "top": ((1 << 32) if ver == 2 else (1 << 21)) - 10000}[place]
        states = [DATA if u in placed else HOLE for u in range(total)]
        slots = [placed[u] + off if u in placed else None for u in range(total)]
        img = B.build_hds(states, slots, spc, ver, total * spc - 3, tail_slack=False)
        model = B.model_hds(states, spc, total * spc - 3)
        return img, model, lambda fh: HDS(fh)
    raise ValueError(fmt)


def _dense_lists(placed, total, data_tok, hole_tok, cap=None, fmt=None):
    """Window-style builders take a SparseStates description: only the allocated units are listed."""
    from mc.vfile import SparseStates

    return SparseStates(total, hole_tok, {u: data_tok for u in placed}), dict(placed)


def run_case(case, ctx):
    if case.get("tuned"):
        return _tuned(case, ctx)
    if case.get("snapview"):
        return _snapview(case, ctx)
    if case.get("tablecache"):
        return _tablecache(case, ctx)
    if case.get("extcomp"):
        return _extcomp(case, ctx)
    fmt, scale, place, density = case["fmt"], case["scale"], case["place"], case["density"]
    f = FORMATS[fmt]
    unit = f["unit"]
    total = f["scales"][scale]
    buf = bootstrap.bufsize()
    ctx.executions += 1
    ctx.model(case)
    ctx.sample(case)
    ctx.outcome(fmt)
    if place != "low" or total * unit > (1 << 32):
        ctx.nontrivial += 1
    with ctx.watch(case, 900):
        results = {}
        for dens in ("sparse", "dense") if density == "dense" else ("sparse",):
            placed, targets, hole = _layout(fmt, total, dens)
            try:
                img, model, opener = _build(fmt, total, place, placed)
            except Exception:
                raise
            fh = img.sparse(log=True)
            size = model.size
            M = img.meta_bytes
            payload = sum(ln for off, kind, pl, ln in img.ext if kind == 1)
            try:
                stream = opener(_RawIO(fh) if case.get("rawio") else fh)
            except Exception as e:
                ctx.violation(case, {"subject": f"{fmt}.open", "kind": "exception", "exc": type(e).__name__, "place": place},
                              {"exception": repr(e)[:300]})
                return
            open_bytes = fh.bytes_requested
            total_cost, total_allow = 0, 0
            if stream.size != size:
                ctx.violation(case, {"subject": f"{fmt}.size", "kind": "mismatch"}, {"got": stream.size, "expected": size})
                return
            reqs = {
                "first": (0, 4096),
                "last": (max(0, size - 4096 - 100), 4096 + 100),
                "cross": (targets["cross2"] * unit - 1536, 3072),
                "hole": (((hole or 0) * unit + 512, min(4096, unit - 1024)) if unit > 2048 else ((hole or 0) * unit, 512))
                if hole is not None else None,
                "cross-big": (targets["cross2"] * unit - 40000, 80000),
            }
            for name, r in reqs.items():
                if r is None:
                    continue
                a, n = r
                ctx.transitions += 1
                ctx.states += 1
                fh.reset_meter()
                exp = model.content(a, n)
                try:
                    stream.seek(a)
                    got = stream.read(n)
                except Exception as e:
                    ctx.violation(case, {"subject": f"{fmt}.read", "kind": "exception", "exc": type(e).__name__,
                                         "place": place, "request": name}, {"exception": repr(e)[:300], "offset": a, "length": n})
                    return
                if got != exp:
                    ctx.violation(case, {"subject": f"{fmt}.read", "kind": "mismatch", "place": place, "request": name},
                                  dict(describe_mismatch(got, exp, a), offset=a, length=n))
                    return
                cost = fh.bytes_requested
                bound = 2 * M + 4 * (n + 2 * buf) + 65536
                # all requests on this object together: the metadata is paid for once (twice at most), not once per request
                total_cost += cost
                total_allow += 4 * (n + 2 * buf) + 65536
                if open_bytes + total_cost > 2 * M + total_allow:
                    ctx.violation(case, {"subject": f"{fmt}.io", "kind": "io-bound-exceeded", "request": "all-requests-together"},
                                  {"open_bytes": open_bytes, "read_bytes_so_far": total_cost, "bound": 2 * M + total_allow,
                                   "metadata_bytes": M, "after_request": name})
                    return
                ctx.maxi(f"cost_over_bound_permille.{fmt}", int(1000 * (open_bytes + cost) / bound))
                if open_bytes + cost > bound:
                    ctx.violation(case, {"subject": f"{fmt}.io", "kind": "io-bound-exceeded", "request": name},
                                  {"open_bytes": open_bytes, "read_bytes": cost, "bound": bound, "metadata_bytes": M,
                                   "payload_bytes": payload})
                    return
                if dens == "dense" and total > 100000:
                    ctx.maxi(f"payload_over_bound_x10.{fmt}", int(10 * payload / bound))
                    if payload < 3 * bound:
                        raise AssertionError(f"harness: payload {payload} too small for the I/O bound {bound} to be meaningful")
                # (4) no payload outside what the request maps to (+- one buffer)
                lo_g, hi_g = a - buf - unit, a + n + buf + unit
                for off, want, gotn in fh.reads:
                    for eoff, kind, pl, ln in _overlapping(img, off, want):
                        if kind != 1:
                            continue
                        if pl[0] == 0xFFFF:
                            bad = True  # slack: nothing maps here
                            # slack directly behind an allowed unit may be touched by an aligned over-read
                            bad = not any(abs(eoff - o2) <= 2 * unit + buf for o2, k2, p2, l2 in _overlapping(img, off - buf - unit, want + 2 * (buf + unit)) if k2 == 1 and p2[0] != 0xFFFF and lo_g <= p2[1] + l2 and p2[1] <= hi_g)
                        else:
                            g0 = pl[1] + max(0, off - eoff)
                            bad = not (lo_g <= g0 <= hi_g)
                        if bad:
                            ctx.violation(case, {"subject": f"{fmt}.io", "kind": "unrelated-payload-read", "request": name},
                                          {"read_offset": off, "read_len": want, "extent": [eoff, ln, list(pl)],
                                           "request": [a, n]})
                            return
                touched = sorted(u for u in range(max(0, (a - buf) // unit), (a + n + buf) // unit + 1) if u in placed)
                results.setdefault(name, {})[dens] = ((open_bytes, cost, len(fh.reads)), touched)
        # (3) differential: same request, same tables, 1 vs all units allocated -> identical I/O
        if density == "dense":
            for name, r in results.items():
                if "sparse" not in r or "dense" not in r or r["sparse"][1] != r["dense"][1]:
                    continue  # the request maps to different allocated units in the two images: not comparable
                ctx.extra["differential_pairs"] += 1
                if r["sparse"][0] != r["dense"][0]:
                    ctx.violation(case, {"subject": f"{fmt}.io", "kind": "io-depends-on-allocation", "request": name},
                                  {"sparse(open,read,calls)": r["sparse"][0], "dense(open,read,calls)": r["dense"][0]})
                    return


class _RawIO(io.RawIOBase):
    """The metering file behind an unbuffered-handle interface (io.RawIOBase, like a file opened with buffering=0 or a stream
    of an outer container): a reader that puts a buffer of its own in front of such handles pays for it here."""

    def __init__(self, inner):
        self._inner = inner

    def readable(self):
        return True

    def seekable(self):
        return True

    def readinto(self, b):
        data = self._inner.read(len(b))
        b[:len(data)] = data
        return len(data)

    def seek(self, off, whence=0):
        return self._inner.seek(off, whence)

    def tell(self):
        return self._inner.tell()


def _overlapping(img, off, n):
    idx = getattr(img, "_sorted", None)
    if idx is None:
        idx = sorted(img.ext, key=lambda e: e[0])
        img._sorted = idx
        img._starts = [e[0] for e in idx]
    import bisect

    i = max(0, bisect.bisect_right(img._starts, off) - 1)
    out = []
    while i < len(idx) and idx[i][0] < off + n:
        eoff, kind, pl, ln = idx[i]
        if eoff + ln > off:
            out.append((eoff, kind, pl, ln))
        i += 1
    return out
