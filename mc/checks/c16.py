"""C16 -- ESXi envelope / key store: decrypt round-trips and is authenticated.   Shape A + exhaustive tamper enumeration."""
from __future__ import annotations

import io
import itertools
import os
import subprocess
import sys

from mc.builders import envelope as B
from mc.diskcheck import sliced
from mc.scratch import scratch_dir

PROPERTY = "C16"
LEVEL = "model_checking"
TECHNIQUE = "exhaustive enumeration of envelope parameter products and single-byte / single-bit alterations against an independent AES-GCM"
RULE = ("positive: payload length {0,1,4095,4096,4097,12289, 4 MiB+1} x padding {0,1,4011,4095} x the four standard attributes in "
        "every order (24) x caller AAD {none, short, long}; one and two extra attributes of each of the 12 types with boundary "
        "values, flags {0,1,255}, empty / long names and values; the command-line tool in-process and as a subprocess. "
        "negative: every single-bit flip of the key (256); every byte of the attribute records (type, flag, name, value), of the "
        "ciphertext (payloads 1 and 4097), of the tag and of the caller AAD x XOR delta {0x01,0x80,0xFF} (thorough: all 255 on the "
        "small payload); tags cut to n = 0..15 bytes through the footer's length field with the rest of the tag altered; the "
        "command-line tool onto an existing longer / shorter / equal output file. key store: mode NONE texts over id / data1 / data2 lengths, styles, escapes; derivation repeated twice. "
        "non-trivial = every tamper case, every non-canonical attribute order, every extra attribute")
ASSUMPTIONS = [
    "envelope layout as in mc/builders/envelope.py: its serializer reproduces the header block of the repository's local.tgz.ve "
    "byte for byte and an independent AES-GCM with AAD = header block || 'ESXConfiguration' verifies it",
    "'header attributes' are the type, flag, name and value bytes of the attribute records: the two reserved bytes of a record "
    "and the zero padding after the terminator are not covered by the statement (the reader re-serialises the attributes)",
    "the command-line tool is specified for envelopes without caller AAD",
]
ALPHABET = "payload length x padding x attribute order / extras x AAD; byte position x delta; key bit"
BOUND = {"quick": "as in the rule with 3 deltas", "thorough": "all 255 deltas on the 1-byte payload, 3 on the 4097-byte payload"}
EXPECT_OUTCOMES = ["decrypted", "cli", "refused-key", "refused-attr", "refused-ciphertext", "refused-tag", "refused-aad", "keystore"]

KEY = B.det("key", 32)
IV = B.det("iv", 12)
AADS = [None, b"ESXConfiguration", B.det("aad", 300)]
EXTRA_VALUES = {
    1: [0, 255], 2: [0, 65535], 3: [0, 2 ** 32 - 1], 4: [0, 2 ** 64 - 1], 5: [-128, 127], 6: [-32768, 32767],
    7: [-2 ** 31, 2 ** 31 - 1], 8: [-2 ** 63, 2 ** 63 - 1], 9: [0.0, 1.5, -2.25, -0.0, float("inf")], 10: [0.0, 1e300, -0.5, -0.0, float("-inf"), 5e-324],
    11: ["", "x", "ünï" * 40], 12: [b"", b"\x00", bytes(range(256))],
}


def shards(tier):
    out = [{"kind": "positive", "slice": [i, 8]} for i in range(8)]
    out += [{"kind": "extras", "slice": [i, 4]} for i in range(4)]
    out += [{"kind": "cli"}, {"kind": "keystore"}, {"kind": "key-bits"}, {"kind": "sequences"}, {"kind": "fill"}, {"kind": "short-tag"}, {"kind": "many-attrs"}, {"kind": "keystore-chars"}]
    deltas = [1, 0x80, 0xFF]
    for i in range(16):
        out.append({"kind": "tamper", "payload": 1, "deltas": deltas if tier == "quick" else list(range(1, 256)), "slice": [i, 16]})
    for i in range(16):
        out.append({"kind": "tamper", "payload": 4097, "deltas": deltas, "slice": [i, 16]})
    return out


def run_shard(shard, ctx):
    kind = shard["kind"]
    if kind == "positive":
        orders = list(itertools.permutations(range(4)))
        space = itertools.product((0, 1, 4095, 4096, 4097, 12289), (0, 1, 4011, 4095), range(24), range(3))
        for ln, pad, oi, ai in sliced(space, *shard["slice"]):
            run_case({"kind": "positive", "len": ln, "pad": pad, "order": list(orders[oi]), "aad": ai}, ctx)
        if shard["slice"][0] == 0:
            for pad, ai in ((0, 0), (4095, 1)):
                run_case({"kind": "positive", "len": (4 << 20) + 1, "pad": pad, "order": [3, 2, 1, 0], "aad": ai}, ctx)
            for ln, pad, magic in ((9616, 3, 512), (4524, 0, 4000), (20000, 4011, 1), (4096 * 3, 0, 4096 * 2 - 20)):
                run_case({"kind": "positive", "len": ln, "pad": pad, "order": [0, 1, 2, 3], "aad": 0, "magic": magic}, ctx)
            # paddings of a whole block and more (the footer's padding field is 32 bits wide)
            for ln, pad in ((0, 4096), (1, 4096), (4096, 4096), (100, 8192), (5, 7892), (4097, 12288), (33, 70000)):
                for ai in (0, 1):
                    run_case({"kind": "positive", "len": ln, "pad": pad, "order": [0, 1, 2, 3], "aad": ai}, ctx)
        # ciphertext lengths (payload + padding + 4096-byte footer block) of n x 4 MiB + r: the 512-byte crypto footer straddles
        # the boundary of a decrypt chunk for r = 1 .. 511
        CH = 4 << 20
        straddles = [(1, 1), (1, 100), (1, 511), (1, 512), (1, 513), (2, 5), (1, 4095), (1, 4096), (1, 4097)]
        for n, (chunks, r) in enumerate(straddles):
            if n % shard["slice"][1] == shard["slice"][0]:
                run_case({"kind": "positive", "len": chunks * CH - 4096 + r - (n % 3), "pad": n % 3, "order": [0, 1, 2, 3], "aad": n % 3},
                         ctx)
        # nonce lengths: 12 bytes is the fast path of GCM, every other length goes through GHASH; the attribute is a byte string
        if shard["slice"][0] == 1:
            for ivlen in (1, 7, 8, 11, 12, 13, 15, 16, 17, 20, 24, 31, 32, 33, 64, 128):
                for ln, ai in ((0, 0), (4097, 1)):
                    run_case({"kind": "positive", "len": ln, "pad": 5, "order": [0, 1, 2, 3], "aad": ai, "ivlen": ivlen}, ctx)
    elif kind == "extras":
        cases = []
        for t, vals in EXTRA_VALUES.items():
            for vi in range(len(vals)):
                for flag in (0, 1, 255):
                    for name in ("x", "vmware.extra." + "n" * 100):
                        cases.append({"kind": "extras", "extras": [[t, vi, flag, name]], "where": (t + vi) % 5})
        for (t1, t2) in itertools.product(EXTRA_VALUES, repeat=2):
            cases.append({"kind": "extras", "extras": [[t1, 0, 0, "a"], [t2, len(EXTRA_VALUES[t2]) - 1, 255, "b"]], "where": (t1 * t2) % 5})
        for c in sliced(cases, *shard["slice"]):
            run_case(c, ctx)
    elif kind == "cli":
        for ln, pad in ((0, 0), (1, 4095), (4097, 1), (12289, 0)):
            run_case({"kind": "cli", "len": ln, "pad": pad, "how": "inprocess"}, ctx)
        run_case({"kind": "cli", "len": 5000, "pad": 7, "how": "subprocess"}, ctx)
        # payloads of exactly 1 and 2 x 4 MiB (the size in which the tool may move data) and one byte either side
        for ln in ((4 << 20) - 1, 4 << 20, (4 << 20) + 1, 8 << 20):
            run_case({"kind": "cli", "len": ln, "pad": 0, "how": "inprocess"}, ctx)
        # the output path already exists (longer, shorter, same length as the payload): afterwards it holds exactly the payload
        for ln, pre in ((39, 9000), (4097, 12), (0, 700), (100, 100), (12289, 12290)):
            run_case({"kind": "cli", "len": ln, "pad": 3, "how": "inprocess", "existing": pre}, ctx)
        run_case({"kind": "cli", "len": 39, "pad": 0, "how": "subprocess", "existing": 9000}, ctx)
        for region in ("ciphertext", "tag"):
            for ln in (1, 3000):
                run_case({"kind": "cli", "len": ln, "pad": 3, "how": "inprocess", "tamper": region}, ctx)
        run_case({"kind": "cli", "len": 3000, "pad": 0, "how": "subprocess", "tamper": "ciphertext"}, ctx)
    elif kind == "keystore":
        for l1, l2, style in itertools.product((1, 16, 33), (1, 16, 40), (0, 1, 2, 3)):
            if (l1 + l2 + style) % 3 == 0 or (l1, l2) == (16, 16):
                run_case({"kind": "keystore", "l1": l1, "l2": l2, "style": style}, ctx)
        # the ConfigEncData fields are named: their order carries no meaning
        for order in ([0, 2, 1, 3], [3, 0, 1, 2], [2, 1, 0, 3], [1, 3, 2, 0]):
            run_case({"kind": "keystore", "l1": 16, "l2": 16, "style": 0, "order": order}, ctx)
        for esc in ("raw", "lower", "upper"):
            for l1, l2 in ((16, 16), (17, 19), (18, 32)):
                run_case({"kind": "keystore", "l1": l1, "l2": l2, "style": 0, "esc": esc}, ctx)
    elif kind == "key-bits":
        run_case({"kind": "key-bits"}, ctx)
    elif kind == "many-attrs":
        # hundreds of small attributes in one header block (8 bytes each), the required ones first, last or in the middle
        for n in (100, 250, 251, 252, 253, 254, 255, 256, 257, 300, 400, 420):
            for where in ("first", "last", "middle"):
                run_case({"kind": "many-attrs", "n": n, "where": where}, ctx)
    elif kind == "keystore-chars":
        for ch in KS_CHARS:
            for form in ("comment-with-old-entry", "comment-with-other-mode", "around-fields", "in-unrelated-value", "encoded-colon-field"):
                run_case({"kind": "keystore-chars", "ch": ch, "form": form}, ctx)
    elif kind == "short-tag":
        # the footer declares a tag of n < 16 bytes and the stored tag differs from the true one beyond its first n bytes:
        # whichever length a reader uses, the tag it is given is not the tag of this envelope
        for n in range(16):
            for how in ("xor-all", "xor-one", "zero"):
                for ln in (1, 4097):
                    run_case({"kind": "short-tag", "n": n, "how": how, "len": ln}, ctx)
    elif kind == "sequences":
        for seq in itertools.product("GAKN", repeat=3):
            run_case({"kind": "sequence", "seq": "".join(seq)}, ctx)
    elif kind == "fill":
        # attribute area sizes around the end of the 4096-byte header block (unused bytes 0..9, 64, 2000)
        for unused in list(range(0, 10)) + [64, 2000]:
            for typ in (11, 12):
                run_case({"kind": "fill", "unused": unused, "type": typ}, ctx)
    else:
        run_case({"kind": "tamper", "payload": shard["payload"], "deltas": shard["deltas"], "slice": shard["slice"]}, ctx)


KS_CHARS = ["\x0b", "\x0c", "\x1c", "\x1d", "\x1e", "\x85", "\u2028", "\u2029", "\r", "\t", "\xa0"]


def _attrs(order, extras=(), where=0, iv=None):
    std = B.standard_attrs(KEY, iv or IV)
    attrs = [std[i] for i in order]
    ex = [(t, flag, name, EXTRA_VALUES[t][vi]) for t, vi, flag, name in extras]
    pos = min(where, len(attrs))
    return attrs[:pos] + ex + attrs[pos:]


def _decrypt(img, aad, key=KEY):
    from dissect.hypervisor.util.envelope import Envelope

    ev = Envelope(io.BytesIO(img))
    return ev.decrypt(key, aad=aad)


def run_case(case, ctx):
    ctx.executions += 1
    ctx.model({k: v for k, v in case.items() if k != "deltas"})
    ctx.sample({k: v for k, v in case.items() if k != "deltas"})
    kind = case["kind"]
    with ctx.watch(case, 600):
        if kind in ("positive", "extras"):
            if kind == "positive":
                payload = B.det("payload", case["len"])
                if case.get("magic"):
                    # the payload itself holds the words that mark the envelope's own structures (an archive of decrypted bodies)
                    words = [b"DataTransformCryptoFooter", b"DataTransformAeadFooter", b"DataTransformEnvelope"]
                    pl = bytearray(payload)
                    for j, w in enumerate(words):
                        at = (case["magic"] + j * 1500) % max(1, len(pl) - 600)
                        blob = w + b"\x00" * 8 + (1234).to_bytes(4, "little") * 120
                        pl[at:at + len(blob)] = blob[:max(0, len(pl) - at)]
                    payload = bytes(pl)
                iv = B.det("iv", case["ivlen"]) if case.get("ivlen") else IV
                attrs = _attrs(case["order"], iv=iv)
                aad = AADS[case["aad"]]
                pad = case["pad"]
                if case["order"] != [0, 1, 2, 3] or aad or pad:
                    ctx.nontrivial += 1
            else:
                payload = B.det("payload", 777)
                attrs = _attrs([0, 1, 2, 3], case["extras"], case["where"])
                aad, pad = None, 3
                ctx.nontrivial += 1
            img, _ = B.build(payload, KEY, iv if kind == "positive" else IV, attrs, aad, pad)
            ctx.transitions += 1
            ctx.states += 1
            try:
                got = _decrypt(img, aad)
            except Exception as e:
                ctx.violation(case, {"subject": "envelope.decrypt", "kind": "valid-envelope-refused", "exc": type(e).__name__},
                              {"exception": repr(e)[:300]})
                return
            if got != payload:
                ctx.violation(case, {"subject": "envelope.decrypt", "kind": "wrong-plaintext"},
                              {"len_got": len(got), "len_expected": len(payload)})
                return
            ctx.outcome("decrypted")
            if kind == "extras":
                from dissect.hypervisor.util.envelope import Envelope

                ev = Envelope(io.BytesIO(img))
                for t, flag, name, val in attrs:
                    a = ev.attributes.get(name)
                    ok = a is not None and a.flag == flag and int(a.type) == t and (
                        a.value == val or (t == 9 and abs(a.value - val) < 1e-6))
                    if not ok:
                        ctx.violation(case, {"subject": "envelope.attributes", "kind": "mismatch", "type": t},
                                      {"name": name[:40], "got": repr(a)[:200], "stored": repr(val)[:100]})
                        return
            return
        if kind == "sequence":
            # one Envelope object, three decrypt calls in every order of {Good, wrong Aad, wrong Key, No aad}
            from dissect.hypervisor.util.envelope import Envelope

            payload = B.det("payload", 3000)
            aad = AADS[1]
            img, _ = B.build(payload, KEY, IV, None, aad, 11)
            ev = Envelope(io.BytesIO(img))
            ctx.nontrivial += 1
            for step, what in enumerate(case["seq"]):
                ctx.transitions += 1
                ctx.states += 1
                k = bytes([KEY[0] ^ 1]) + KEY[1:] if what == "K" else KEY
                a = {"G": aad, "A": aad[:-1] + b"x", "K": aad, "N": None}[what]
                try:
                    got = ev.decrypt(k, aad=a)
                    raised = False
                except Exception:
                    raised, got = True, None
                if what == "G":
                    if raised or got != payload:
                        ctx.violation(case, {"subject": "envelope.sequence", "kind": "valid-decrypt-failed-after-history", "step": step},
                                      {"seq": case["seq"]})
                        return
                    ctx.outcome("decrypted")
                elif not raised:
                    ctx.violation(case, {"subject": "envelope.sequence", "kind": "accepted-after-history", "what": what, "step": step},
                                  {"seq": case["seq"], "returned": len(got)})
                    return
                else:
                    ctx.outcome("refused-aad" if what in "AN" else "refused-key")
            return
        if kind == "many-attrs":
            std = B.standard_attrs(KEY, IV)
            small = [(1, i % 2, "%c%c" % (97 + i // 26 % 26, 97 + i % 26), i % 256) for i in range(case["n"])]
            attrs = {"first": std + small, "last": small + std, "middle": small[:7] + std[:2] + small[7:] + std[2:]}[case["where"]]
            payload = B.det("payload", 300)
            img, regions = B.build(payload, KEY, IV, attrs, None, 2)
            ctx.nontrivial += 1
            ctx.transitions += 2
            ctx.states += 2
            try:
                got = _decrypt(img, None)
            except Exception as e:
                ctx.violation(case, {"subject": "envelope.decrypt", "kind": "valid-envelope-refused", "exc": type(e).__name__},
                              {"exception": repr(e)[:300], "attributes": len(attrs)})
                return
            if got != payload:
                ctx.violation(case, {"subject": "envelope.decrypt", "kind": "wrong-payload"}, {"attributes": len(attrs)})
                return
            ctx.outcome("decrypted")
            # the value of the last small attribute altered: refused
            a0, a1 = regions["attrs"]
            roles = B.attr_byte_roles(attrs)
            pos = max(p for p in range(a0, a1) if roles[p - a0] == "value" and p - a0 < len(roles))
            if case["where"] == "last":
                pos = a0 + 8 * (case["n"] - 1) + 7
            t = bytearray(img)
            t[pos] ^= 0x01
            try:
                _decrypt(bytes(t), None)
            except Exception:
                ctx.outcome("refused-attr")
                return
            ctx.violation(case, {"subject": "envelope.decrypt", "kind": "tamper-accepted", "region": "attr-value"},
                          {"attributes": len(attrs), "pos": pos})
            return
        if kind == "keystore-chars":
            return _case_keystore_chars(case, ctx)
        if kind == "fill":
            std = B.standard_attrs(KEY, IV)
            base = sum(len(B.pack_attr(*a)) for a in std)
            name = "vmware.filler"
            room = 4096 - 512 - 4 - base - case["unused"]
            overhead = 4 + len(name) + 1 + (1 if case["type"] == 11 else 8)
            n = room - overhead
            val = ("f" * n) if case["type"] == 11 else B.det("fill", n)
            attrs = std[:2] + [(case["type"], 0, name, val)] + std[2:]
            hdr, alen = B.header_block(attrs)
            assert len(hdr) == 4096 and 512 + alen == 4096 - case["unused"], (len(hdr), alen, case)
            payload = B.det("payload", 777)
            img, _ = B.build(payload, KEY, IV, attrs, None, 5)
            ctx.nontrivial += 1
            ctx.transitions += 1
            ctx.states += 1
            try:
                got = _decrypt(img, None)
            except Exception as e:
                ctx.violation(case, {"subject": "envelope.decrypt", "kind": "valid-envelope-refused", "exc": type(e).__name__,
                                     "header_unused_bytes": case["unused"]}, {"exception": repr(e)[:300]})
                return
            if got != payload:
                ctx.violation(case, {"subject": "envelope.decrypt", "kind": "wrong-plaintext"}, {"unused": case["unused"]})
                return
            ctx.outcome("decrypted")
            return
        if kind == "cli":
            return _case_cli(case, ctx)
        if kind == "keystore":
            return _case_keystore(case, ctx)
        if kind == "short-tag":
            import struct

            payload = B.det("payload", case["len"])
            img, regions = B.build(payload, KEY, IV, padding=11)
            t = bytearray(img)
            t0, t1 = regions["tag"]
            n = case["n"]
            for p in range(t0 + n, t1):
                if case["how"] == "xor-all":
                    t[p] ^= 0xFF
                elif case["how"] == "zero":
                    t[p] = 0 if t[p] else 1
                elif p == t0 + n:
                    t[p] ^= 0x01
            struct.pack_into("<I", t, len(t) - 8, n)
            ctx.nontrivial += 1
            ctx.transitions += 1
            ctx.states += 1
            try:
                got = _decrypt(bytes(t), None)
            except Exception:
                ctx.outcome("refused-tag")
                return
            ctx.violation(case, {"subject": "envelope.decrypt", "kind": "tamper-accepted", "region": "tag-truncated"},
                          {"declared_tag_length": n, "returned": len(got), "equal_to_payload": got == payload})
            return
        if kind == "key-bits":
            payload = B.det("payload", 100)
            img, _ = B.build(payload, KEY, IV, padding=5)
            ctx.nontrivial += 1
            for bit in range(256):
                ctx.transitions += 1
                ctx.states += 1
                k = bytearray(KEY)
                k[bit // 8] ^= 1 << (bit % 8)
                try:
                    got = _decrypt(img, None, bytes(k))
                except Exception:
                    ctx.outcome("refused-key")
                    continue
                ctx.violation(dict(case, bit=bit), {"subject": "envelope.decrypt", "kind": "wrong-key-accepted"},
                              {"bit": bit, "returned": len(got)})
                return
            return
        # ---- tamper -----------------------------------------------------------------------------------------------
        payload = B.det("payload", case["payload"])
        extras = [[11, 1, 0, "note"], [3, 1, 1, "count"], [12, 2, 255, "blob"]]
        attrs = _attrs([1, 0, 3, 2], extras, 2)
        aad = AADS[1]
        img, regions = B.build(payload, KEY, IV, attrs, aad, 9)
        roles = B.attr_byte_roles(attrs)
        a0, a1 = regions["attrs"]
        assert a1 - a0 == len(roles)
        targets = [("attr-" + roles[p - a0], p) for p in range(a0, a1) if roles[p - a0] != "reserved"]
        c0, c1 = regions["ciphertext"]
        targets += [("ciphertext", p) for p in range(c0, c1)]
        t0, t1 = regions["tag"]
        targets += [("tag", p) for p in range(t0, t1)]
        targets += [("aad", -1 - i) for i in range(len(aad))]
        ctx.nontrivial += 1
        only = case.get("only")
        for region, pos in sliced(targets, *case["slice"]):
            for delta in case["deltas"]:
                if only is not None and [region, pos, delta] != only:
                    continue
                ctx.transitions += 1
                ctx.states += 1
                t = bytearray(img)
                use_aad = aad
                if region == "aad":
                    x = bytearray(aad)
                    x[-1 - pos] ^= delta
                    use_aad = bytes(x)
                else:
                    t[pos] ^= delta
                try:
                    got = _decrypt(bytes(t), use_aad)
                except Exception:
                    ctx.outcome("refused-" + ("attr" if region.startswith("attr") else region))
                    continue
                ctx.violation(dict(case, only=[region, pos, delta]),
                              {"subject": "envelope.decrypt", "kind": "tamper-accepted", "region": region},
                              {"pos": pos, "delta": delta, "returned": len(got), "equal_to_payload": got == payload})
                return


def _case_cli(case, ctx):
    from dissect.hypervisor.tools import envelope as tool

    payload = B.det("payload", case["len"])
    data1, data2, kid = B.det("d1", 16), B.det("d2", 16), B.det("kid", 16)
    key = B.derive_key(data1, data2)
    attrs = B.standard_attrs(key, IV)
    img, regions = B.build(payload, key, IV, attrs, None, case["pad"])
    if case.get("tamper"):
        # one altered byte (ciphertext / tag) with key and key hash intact: the tool must not report success
        r0, r1 = regions[case["tamper"]]
        t = bytearray(img)
        t[r0 + (r1 - r0) // 2] ^= 0x01
        img = bytes(t)
    ctx.nontrivial += 1
    with scratch_dir() as d:
        ev, ks, out = os.path.join(d, "local.tgz.ve"), os.path.join(d, "encryption.info"), os.path.join(d, "out.bin")
        with open(ev, "wb") as f:
            f.write(img)
        with open(ks, "w") as f:
            f.write(B.keystore_text(kid, data1, data2))
        if case.get("existing") is not None:
            with open(out, "wb") as f:
                f.write(B.det("stale", case["existing"]))
        before = sorted(os.listdir(d))
        ctx.transitions += 1
        ctx.states += 1
        if case["how"] == "inprocess":
            argv = sys.argv
            sys.argv = ["envelope-decrypt", ev, "-ks", ks, "-o", out]
            try:
                rc = tool.main()
            except SystemExit as e:
                rc = e.code
            except Exception as e:
                if case.get("tamper"):
                    left = open(out, "rb").read() if os.path.exists(out) else b""
                    probe = [payload[:16], payload[-16:]] if len(payload) >= 32 else [payload]
                    if left and any(pr and pr in left for pr in probe):
                        ctx.violation(case, {"subject": "envelope.cli", "kind": "unauthenticated-plaintext-left-in-output",
                                             "region": case["tamper"]}, {"len_got": len(left), "len_payload": len(payload)})
                        return
                    ctx.outcome("cli")
                    return
                ctx.violation(case, {"subject": "envelope.cli", "kind": "exception", "exc": type(e).__name__},
                              {"exception": repr(e)[:300]})
                return
            finally:
                sys.argv = argv
        else:
            from mc.bootstrap import repo_root

            p = subprocess.run([sys.executable, "-m", "dissect.hypervisor.tools.envelope", ev, "-ks", ks, "-o", out],
                               cwd=repo_root(), capture_output=True, text=True, timeout=300)
            rc = p.returncode
        after = sorted(os.listdir(d))
        got = open(out, "rb").read() if os.path.exists(out) else None
        if case.get("tamper"):
            if rc in (0, None):
                ctx.violation(case, {"subject": "envelope.cli", "kind": "tamper-accepted", "region": case["tamper"]},
                              {"rc": rc, "len_got": None if got is None else len(got), "equal_to_payload": got == payload})
                return
            # "returning no plaintext": what the refused run leaves in the output file holds nothing of the payload
            probe = [payload[:16], payload[-16:]] if len(payload) >= 32 else [payload]
            if got and any(pr and pr in got for pr in probe):
                ctx.violation(case, {"subject": "envelope.cli", "kind": "unauthenticated-plaintext-left-in-output", "region": case["tamper"]},
                              {"rc": rc, "len_got": len(got), "len_payload": len(payload)})
                return
            ctx.outcome("cli")
            return
        if rc not in (0, None) or got != payload or after != sorted(set(before) | {"out.bin"}):
            ctx.violation(case, {"subject": "envelope.cli", "kind": "wrong-output"},
                          {"rc": rc, "len_got": None if got is None else len(got), "len_expected": len(payload), "files": after})
            return
        ctx.outcome("cli")


def _case_keystore_chars(case, ctx):
    """Characters that some text routine takes for a line boundary or for white space, inside comment lines that carry old
    entries, around the ConfigEncData fields and inside an unrelated value: the only line separator of the format is LF."""
    import uuid

    from dissect.hypervisor.util.envelope import KeyStore

    ch, form = case["ch"], case["form"]
    kid, d1, d2 = B.det("kid-c", 16), B.det("d1-c", 16), B.det("d2-c", 24)
    text = B.keystore_text(kid, d1, d2)
    old = B.keystore_text(B.det("old-kid", 16), B.det("old1", 16), B.det("old2", 16)).split("\n")
    old_ced = [ln for ln in old if ln.startswith("ConfigEncData")][0]
    expect_ok = True
    if form == "comment-with-old-entry":
        text += "# previous" + ch + old_ced + "\n"
    elif form == "comment-with-other-mode":
        text += "# was" + ch + 'mode = "TPM"' + "\n"
    elif form == "encoded-colon-field":
        # a further field whose (percent-encoded) value quotes an older record: %3a is a colon inside the value, not a separator
        old_fields = old_ced.split('"')[1].replace(":", "%3a").replace("=", "%3d")
        text = text.replace(":version=1", ":version=1:note=was" + (ch if ch not in "\r\t" else "") .encode("utf-8").hex() + "%3a" + old_fields)
    elif form == "around-fields":
        if ch in ("\r", "\t", "\x0b", "\x0c", "\x1c", "\x1d", "\x1e", "\x85", "\u2028", "\u2029", "\xa0"):
            text = text.replace(":data1=", ch + ":" + ch + "data1=")
        expect_ok = None  # white space around the fields: accepted (stripped) or refused, never another key
    else:
        text += 'annotation = "a' + ch + 'mode = TPM"' + "\n"
    ctx.nontrivial += 1
    ctx.transitions += 1
    ctx.states += 1
    try:
        ks = KeyStore.from_text(text)
        key, kidstr = ks.key, ks.id
    except Exception as e:
        if expect_ok:
            ctx.violation(case, {"subject": "keystore", "kind": "exception", "exc": type(e).__name__, "form": form},
                          {"exception": repr(e)[:300], "char": repr(ch)})
        else:
            ctx.outcome("keystore")
        return
    if key != B.derive_key(d1, d2) or kidstr != str(uuid.UUID(bytes=kid)):
        ctx.violation(case, {"subject": "keystore", "kind": "mismatch", "form": form}, {"char": repr(ch), "id": kidstr})
        return
    ctx.outcome("keystore")


def _case_keystore(case, ctx):
    from dissect.hypervisor.util.envelope import KeyStore

    kid = B.det("kid%d" % case["style"], 16)
    d1, d2 = B.det("d1", case["l1"]), B.det("d2", case["l2"])
    if case.get("esc"):
        # values whose base64 text holds '+' and '/' (and '=' padding), written raw or percent-encoded in either letter case
        d1 = (b"\xfb\xef\xbe\xff\xff\xfe" * 4)[:case["l1"]]
        d2 = (b"\xff\xef\xfe\xfb\xfb\xff" * 4)[:case["l2"]]
    text = B.keystore_text(kid, d1, d2, style=case["style"], extra=[("other.nested.key", "v"), (".dot", "x")],
                           order=tuple(case.get("order", (0, 1, 2, 3))))
    if case.get("esc"):
        ced0 = [ln for ln in text.split("\n") if "ConfigEncData" in ln][0]
        ced = ced0
        if case["esc"] in ("lower", "upper"):
            ced = ced.replace("+", "%2b").replace("/", "%2f")
        if case["esc"] == "upper":
            ced = ced.replace("%2b", "%2B").replace("%2f", "%2F").replace("%3d", "%3D")
        assert case["esc"] == "raw" or ced != ced0
        text = text.replace(ced0, ced)
    ctx.nontrivial += 1
    exp = B.derive_key(d1, d2)
    import uuid

    keys = []
    for _ in range(2):
        ctx.transitions += 1
        ctx.states += 1
        try:
            ks = KeyStore.from_text(text)
        except Exception as e:
            ctx.violation(case, {"subject": "keystore", "kind": "exception", "exc": type(e).__name__}, {"exception": repr(e)[:300]})
            return
        keys.append(ks.key)
        if ks.key != exp or ks.id != str(uuid.UUID(bytes=kid)):
            ctx.violation(case, {"subject": "keystore", "kind": "mismatch"}, {"key": ks.key.hex(), "expected": exp.hex(), "id": ks.id})
            return
    ctx.outcome("keystore")
