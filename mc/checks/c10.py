"""C10 -- multi-extent / multi-storage assembly and size.   Shape A (input-space product) on real descriptor files."""
from __future__ import annotations

import itertools
import os
from pathlib import Path

from mc import bootstrap, pattern
from mc.diskcheck import compare_reads, compare_sector_reads, sliced
from mc.models import DATA, HOLE, ZERO, ConcatDisk, RawDisk, request_pairs
from mc.scratch import scratch_dir

PROPERTY = "C10"
LEVEL = "model_checking"
TECHNIQUE = "explicit-state bounded-exhaustive exploration of real descriptor-driven disks against a concatenation model"
RULE = ("VMDK descriptors with 1-3 extents: every kind in {FLAT, VMFS, SPARSE, VMFSSPARSE, SESPARSE, ZERO} x size in "
        "{16, 24, 40, 4104, 20} sectors x access {RW, RDONLY} x file name {plain, spaces, inner quote, non-ASCII, emoji} (full "
        "product for <= 2 extents, every kind triple for 3); VMDK([handles]) with 1-3 sparse/raw handles; Parallels "
        "file names with 14 characters special to str.splitlines / str.strip; flat extents whose data begins with a complete "
        "hosted / COWD / SE-sparse header (nested image); descriptors with 1-3 storages {Plain, Compressed} in every XML order; flat files carry trailing slack beyond the "
        "declared size. Requests: every (sector, count) whose ends lie on an extent boundary +-1 or the disk end via "
        "read_sectors and byte reads, whole-disk read, size and sector_count. non-trivial = request crossing an extent "
        "boundary")
ASSUMPTIONS = [
    "extent kinds outside the statement (ZERO, VMFSRDM, VMFSRAW) are outside the alphabet; the number behind a FLAT extent's file "
    "name is the sector offset inside that file at which the extent's data begins (VMDK specification 1.1, 'extent offset')",
    "sparse extents' capacity equals the sector count declared for them in the descriptor",
    "descriptor files are UTF-8; file names do not start or end with a quote character",
    "builders as in C02 / C06",
]
ALPHABET = "extent kind x sectors x access x file name; storage type x order"
BOUND = {"quick": "<= 3 extents / storages, buffers {512, 8192}", "thorough": "same, 4 buffers, all access/name combinations"}
EXPECT_OUTCOMES = ["vmdk-descriptor", "vmdk-handles", "hdd-storages"]

KINDS = ["FLAT", "VMFS", "SPARSE", "VMFSSPARSE", "SESPARSE", "ZERO"]  # ZERO: no backing file, its range reads as zeros
SIZES = [16, 24, 40, 4104, 20]  # 20: not a multiple of the grain size, what follows starts inside a grain-sized unit
NAMES = ["plain", "with space", 'in"ner', "ünï-cödé", "emoji-\U0001F4BE", "size=small & id#4"]
# characters that are ordinary in POSIX file names but special to some text routine (str.splitlines, str.strip, ...)
ODD_NAMES = ["my old disk" + ch + "copy" for ch in ("\x0b", "\x0c", "\x1c", "\x1d", "\x1e", "\x85", "\u2028", "\u2029",
                                                     "\xa0", "\u3000", "\t", "\ufeff")] + ["tail\u2028", "\x0chead"]
NESTED = ["hosted", "cowd", "sesparse"]


def shards(tier):
    out = []
    bufs = [512, 8192] if tier == "quick" else [512, 4096, 8192, 65536]
    for buf in bufs:
        out.append({"buf": buf, "kind": "vmdk1"})
        for i in range(8):
            out.append({"buf": buf, "kind": "vmdk2", "slice": [i, 8]})
        for i in range(4):
            out.append({"buf": buf, "kind": "vmdk3", "slice": [i, 4]})
        out.append({"buf": buf, "kind": "handles"})
        out.append({"buf": buf, "kind": "vmdk-long"})
        if buf == 8192:
            out.append({"buf": buf, "kind": "vmdk-huge-read"})
        out.append({"buf": buf, "kind": "hdd"})
    return out


def run_shard(shard, ctx):
    kind = shard["kind"]
    q = True
    if kind == "vmdk1":
        for k, s, a, n in itertools.product(KINDS, SIZES, ("RW", "RDONLY"), NAMES):
            run_case({"kind": "vmdk", "extents": [[k, s, a, n]]}, ctx)
        # file names with characters some text routine treats as a line boundary or as blank, in first and second position
        for n, name in enumerate(ODD_NAMES):
            for k in ("FLAT", "SPARSE", "SESPARSE"):
                run_case({"kind": "vmdk", "extents": [[k, 16, "RW", name]]}, ctx)
                run_case({"kind": "vmdk", "extents": [["FLAT", 24, "RW", "first"], [k, 16, "RW", name]]}, ctx)
        # flat extents whose guest data begins with the magic / a complete header of a sparse extent (a nested image)
        for nested, k, pos in itertools.product(NESTED, ("FLAT", "VMFS"), (0, 1)):
            ext = [[k, 4104, "RW", "nest", nested]]
            if pos:
                ext = [["SPARSE", 24, "RW", "first"]] + ext
            run_case({"kind": "vmdk", "extents": ext + [["FLAT", 16, "RW", "last"]]}, ctx)
        # extent files whose names differ only in letter case (two files on a case-sensitive file system)
        for k1, k2 in (("FLAT", "FLAT"), ("SPARSE", "FLAT"), ("FLAT", "SESPARSE")):
            run_case({"kind": "vmdk", "extents": [[k1, 16, "RW", "Data"], [k2, 24, "RW", "data"], ["FLAT", 16, "RW", "DATA"]]}, ctx)
        # flat extents whose guest data starts at a non-zero sector offset inside the file (device-backed extents)
        for start, pos, sectors in itertools.product((1, 8, 4104), (0, 1, 2), (16, 40)):
            ext = [["SPARSE", 24, "RW", "a"], ["FLAT", 24, "RW", "b"]]
            ext.insert(pos, ["FLAT", sectors, "RW", "off", None, start])
            run_case({"kind": "vmdk", "extents": ext}, ctx)
        # file names with a double quote followed by a blank (and then 0..3 further words, as many as an extent line has
        # optional fields)
        for name in ('data "v2" copy', 'a" b', 'x " y " z', 'one" two three four', 'q" 4'):
            for k, start in (("FLAT", 4), ("FLAT", None), ("SPARSE", None), ("VMFS", None)):
                ext = [k, 24, "RW", name] + ([None, start] if start else [])
                run_case({"kind": "vmdk", "extents": [["SPARSE", 16, "RW", "first"], ext, ["FLAT", 16, "RW", "last"]]}, ctx)
        for eol in ("crlf", "blank", "tab-crlf", "blanks-crlf"):
            for ks in (("FLAT", "SPARSE", "FLAT"), ("SPARSE",), ("VMFS", "VMFSSPARSE"), ("SESPARSE", "FLAT")):
                run_case({"kind": "vmdk", "extents": [[k, SIZES[j % 3], "RW", NAMES[j % 6] + str(j)] for j, k in enumerate(ks)],
                          "eol": eol}, ctx)
        # four and five extents of unequal sizes whose sum makes the last one start where equally sized extents would put it
        for sizes in ([32, 48, 16, 24], [32, 16, 48, 24], [16, 24, 8, 40], [24, 8, 40, 24, 16], [40, 40, 40, 40], [8, 16, 24, 32, 40]):
            for kinds in (("FLAT",) * 5, ("SPARSE", "FLAT", "SESPARSE", "VMFS", "ZERO"), ("VMFSSPARSE", "SPARSE", "FLAT", "FLAT", "SPARSE")):
                run_case({"kind": "vmdk", "extents": [[kinds[j], sz, "RW", f"part{j}"] for j, sz in enumerate(sizes)]}, ctx)
        # descriptors opened by a relative name; the working directory changes before the first read
        for ks in itertools.product(("FLAT", "VMFS", "SPARSE", "SESPARSE", "ZERO"), repeat=2):
            run_case({"kind": "vmdk", "extents": [[k, SIZES[j], "RW", NAMES[j] + str(j)] for j, k in enumerate(ks)], "relative": True}, ctx)
        # extents that declare no sectors at all, at every position: they occupy nothing, what follows keeps its place
        for k0 in ("ZERO", "FLAT", "SPARSE", "SESPARSE"):
            for pos in (0, 1, 2, 3):
                ext = [["FLAT", 16, "RW", "a"], ["SPARSE", 24, "RW", "b"], ["FLAT", 16, "RW", "c"]]
                ext.insert(pos, [k0, 0, "RW", "nothing"])
                run_case({"kind": "vmdk", "extents": ext}, ctx)
            run_case({"kind": "vmdk", "extents": [[k0, 0, "RW", "n1"], [k0, 0, "RW", "n2"], ["FLAT", 24, "RW", "a"], ["VMFS", 16, "RW", "b"]]}, ctx)
        # several extent lines carved out of one backing file (adjacent, out of order, separated by a sparse extent)
        pieces = [(0, 40), (40, 24), (64, 16)]
        for perm in itertools.permutations(range(3)):
            for sp in (None, 0, 1, 2, 3):
                for sk in ("SPARSE", "SESPARSE"):
                    if sp is None and sk != "SPARSE":
                        continue
                    run_case({"kind": "vmdk-shared", "pieces": [list(pieces[j]) for j in perm], "sparse_at": sp, "sparse_kind": sk},
                             ctx)
    elif kind == "vmdk2":
        i, k = shard["slice"]
        combos = itertools.product(itertools.product(KINDS, SIZES), repeat=2)
        for n, ((k1, s1), (k2, s2)) in enumerate(sliced(combos, i, k)):
            run_case({"kind": "vmdk", "extents": [[k1, s1, "RW", NAMES[n % 6]], [k2, s2, ("RW", "RDONLY")[n % 2],
                                                                                 NAMES[(n // 6 + 1) % 6] + "2"]]}, ctx)
    elif kind == "vmdk3":
        i, k = shard["slice"]
        for n, ks in enumerate(sliced(itertools.product(KINDS, repeat=3), i, k)):
            sizes = [SIZES[(n + j) % 4] for j in range(3)]
            run_case({"kind": "vmdk", "extents": [[ks[j], sizes[j], "RW", NAMES[(n + j) % 6] + str(j)] for j in range(3)]},
                     ctx)
    elif kind == "vmdk-long":
        # descriptors far beyond 10 / 64 KiB: many extents, or few extents behind a long comment / ddb block
        for n, pad in ((400, 0), (3, 12000), (2, 70000), (150, 300), (2, 1_200_000), (3, 4_300_000), (2, 17_000_000)):
            run_case({"kind": "vmdk-long", "n": n, "pad": pad}, ctx)
    elif kind == "vmdk-huge-read":
        # single requests of 33 MiB .. 77 MiB inside and across extents of 40 MiB / 1 MiB + 3 sectors / 36 MiB
        for first in ("FLAT", "SPARSE", "SPARSE-dense", "SESPARSE-dense"):
            run_case({"kind": "vmdk-huge", "first": first}, ctx)
    elif kind == "handles":
        hk = ["sparse", "raw", "cowd", "sesparse"]
        for r in (1, 2, 3):
            for ks in itertools.product(hk, repeat=r):
                run_case({"kind": "handles", "parts": [[k, SIZES[(j + len(ks)) % 3]] for j, k in enumerate(ks)]}, ctx)
        for r in (2, 3, 5):
            for n_, ks in enumerate(itertools.product(("raw", "sparse"), repeat=r)):
                for named in ("paths", "files"):
                    run_case({"kind": "handles", "parts": [[k, SIZES[(j + n_) % 3]] for j, k in enumerate(ks)], "named": named}, ctx)
    elif kind == "hdd":
        # images referenced by an absolute path that exists, while a different file of the same name lies in the .hdd directory
        for types in itertools.product(("Plain", "Compressed"), repeat=2):
            for which in (0, 1):
                run_case({"kind": "hdd", "types": list(types), "order": [0, 1], "sizes": [24, 17], "absolute": which}, ctx)
        for r in (2, 3):
            for types in itertools.product(("Plain", "Compressed"), repeat=r):
                run_case({"kind": "hdd", "types": list(types), "order": list(range(r)), "sizes": [SIZES[(j + r) % 3] + 2 * j for j in range(r)],
                          "subdirs": True}, ctx)
        # a disk split over 300 storages (more image files than common handle-pool limits), used back to front
        for typ in ("Plain", "Compressed"):
            run_case({"kind": "hdd", "types": [typ] * 300, "order": list(range(300)), "sizes": [8 + j % 3 for j in range(300)],
                      "many": True}, ctx)
        for r in (1, 2, 3):
            for types in itertools.product(("Plain", "Compressed"), repeat=r):
                for order in itertools.permutations(range(r)):
                    run_case({"kind": "hdd", "types": list(types), "order": list(order),
                              "sizes": [SIZES[(j + r) % 3] + j for j in range(r)]}, ctx)


def _extent_image(kind, sectors, layer, rot=0, nested=None):
    """-> (Image, model) for one extent holding `sectors` sectors of guest data."""
    from mc.builders import vmdk as B

    if nested:
        inner, _ = _extent_image({"hosted": "SPARSE", "cowd": "VMFSSPARSE", "sesparse": "SESPARSE"}[nested], 64, 9, 1)
        head = inner.tobytes()[: sectors * 512]
        data = head + pattern.span(layer, len(head), sectors * 512 - len(head))
        img = B.Image("flat")
        img.put(0, data, meta=False)
        img.put_pattern(sectors * 512, 9 * 512, pattern.SLACK, sectors * 512)
        return img, RawDisk(data)
    if kind in ("FLAT", "VMFS", "raw"):
        return B.build_flat(sectors, layer, slack_sectors=9), B.model_flat(sectors, layer)
    if kind == "ZERO":
        return None, RawDisk(bytes(sectors * 512))
    grain = 8
    n = (sectors + grain - 1) // grain
    # the allocation pattern is rotated per extent: neighbouring extents never have the same tables at the same place
    states = [(DATA, HOLE, ZERO, DATA, DATA)[(i + rot) % 5] for i in range(n)]
    if kind in ("VMFSSPARSE", "cowd"):
        states = [DATA if s == ZERO else s for s in states]
    idx = [i for i, s in enumerate(states) if s == DATA]
    slots = [None] * n
    order = idx[::-1] if rot % 2 == 0 else idx[1:] + idx[:1]
    for p, i in enumerate(order):
        slots[i] = p
    if kind in ("SPARSE", "sparse"):
        img = B.build_hosted(states, slots, grain, 512, sectors, layer=layer)
    elif kind in ("VMFSSPARSE", "cowd"):
        img = B.build_cowd(states, slots, grain, sectors, layer=layer)
    else:
        img = B.build_sesparse(states, slots, grain, 64, sectors, layer=layer)
    return img, B.model(states, grain, sectors, layer=layer)


def _requests(bounds, size_sectors, buf):
    pts = set()
    for b in bounds + [0, size_sectors]:
        for d in (-1, 0, 1, -(buf // 512), buf // 512):
            if 0 <= b + d <= size_sectors:
                pts.add(b + d)
    pts = sorted(pts)
    sreqs = [(a, c) for a, c in request_pairs(pts) if c > 0]
    reqs = [(a * 512, c * 512) for a, c in sreqs] + [(a * 512 + 1, c * 512 + 1) for a, c in sreqs[:: max(1, len(sreqs) // 12)]]
    reqs.append((0, size_sectors * 512))
    return reqs, sreqs


def run_case(case, ctx):
    buf = bootstrap.bufsize()
    ctx.executions += 1
    ctx.model(case)
    ctx.sample(case)
    with scratch_dir() as d:
        with ctx.watch(case):
            if case["kind"] == "vmdk":
                _case_vmdk(case, ctx, d, buf)
            elif case["kind"] == "vmdk-shared":
                _case_vmdk_shared(case, ctx, d, buf)
            elif case["kind"] == "vmdk-long":
                _case_vmdk_long(case, ctx, d, buf)
            elif case["kind"] == "vmdk-huge":
                _case_vmdk_huge(case, ctx, d, buf)
            elif case["kind"] == "handles":
                _case_handles(dict(case, _dir=d), ctx, buf)
            else:
                _case_hdd(case, ctx, d, buf)


def _finish(ctx, case, stream, reader, disk, bounds, buf, subject, closer, sector_count=None):
    try:
        size = disk.size
        if stream.size != size:
            ctx.violation(case, {"subject": subject + ".size", "kind": "mismatch"}, {"got": stream.size, "expected": size})
            return
        if sector_count is not None and sector_count != size // 512:
            ctx.violation(case, {"subject": subject + ".sector_count", "kind": "mismatch"},
                          {"got": sector_count, "expected": size // 512})
            return
        reqs, sreqs = _requests(bounds if not case.get("many") else [], size // 512, buf)
        if case.get("many"):
            # every storage boundary from the back to the front, then every storage's first sector from the front, then all
            reqs = [(b * 512 - 512, 1024) for b in bounds[::-1]] + [(b * 512, 512) for b in bounds] + reqs
            sreqs = [(b - 1, 2) for b in bounds[::-1]] + sreqs
        for a, c in sreqs:
            if any(a < b < a + c for b in bounds):
                ctx.nontrivial += 1
        compare_reads(ctx, case, stream, disk, reqs, subject + ".read")
        if reader is not None:
            compare_sector_reads(ctx, case, reader, disk, sreqs, subject + ".read_sectors", 512)
    finally:
        closer()


def _case_vmdk(case, ctx, d, buf):
    from dissect.hypervisor.disk.vmdk import VMDK

    from mc.builders import vmdk as B

    ctx.outcome("vmdk-descriptor")
    lines = []
    parts = []
    bounds = []
    pos = 0
    for xi, (kind, sectors, access, name, *rest) in enumerate(case["extents"]):
        img, m = _extent_image(kind, sectors, xi + 1, xi, rest[0] if rest else None)
        start = rest[1] if len(rest) > 1 else 0
        if start:
            # the file holds `start` sectors of other content in front of the extent's data
            from mc.vfile import Image as _Image

            shifted = _Image("flat")
            shifted.put_pattern(0, start * 512, pattern.SLACK, 0)
            for off, k_, pl, ln in img.ext:
                if k_ == 0:
                    shifted.put(off + start * 512, pl, meta=False)
                else:
                    shifted.put_pattern(off + start * 512, ln, pl[0], pl[1])
            img = shifted
        fn = f"{name}-{'flat' if kind in ('FLAT', 'VMFS') else 's%03d' % (xi + 1)}.vmdk"
        if kind == "ZERO":
            fn = None  # `RW 16 ZERO`: the line names no file
        else:
            img.write_to(os.path.join(d, fn))
        lines.append((access, sectors, kind, fn, (start if kind == "FLAT" else None)))
        parts.append(m)
        pos += sectors
        bounds.append(pos)
    kinds = {e[0] for e in case["extents"]}
    ctype = ("vmfs" if kinds <= {"VMFS"} else "vmfsSparse" if kinds <= {"VMFSSPARSE"} else "seSparse" if kinds <= {"SESPARSE"}
             else "twoGbMaxExtentFlat" if kinds <= {"FLAT"} else "twoGbMaxExtentSparse" if kinds <= {"SPARSE"} else "custom")
    text = B.descriptor_text(ctype, lines)
    if case.get("eol"):
        # descriptors written on other hosts / by other tools: CR LF line ends, blanks or a tab before the line end
        text = text.replace("\n", {"crlf": "\r\n", "blank": " \n", "tab-crlf": "\t\r\n", "blanks-crlf": "  \r\n"}[case["eol"]])
    with open(os.path.join(d, "disk.vmdk"), "w", encoding="utf-8", newline="") as f:
        f.write(text)
    disk = ConcatDisk(parts)
    # the process's working directory holds look-alikes of every extent file (another copy of the VM): extent names are
    # relative to the descriptor, never to the working directory
    decoy = os.path.join(d, "cwd-with-lookalikes")
    os.makedirs(decoy, exist_ok=True)
    for ln in lines:
        if ln[3] is None:
            continue
        with open(os.path.join(decoy, ln[3]), "wb") as f:
            f.write(b"LOOKALIKE" * 57)
    cwd = os.getcwd()
    os.chdir(d if case.get("relative") else decoy)
    try:
        # relative: the descriptor is named relative to the working directory, which changes (to the directory of look-alikes)
        # before the first read -- the extents are the files that lay next to the descriptor when it was opened
        v = VMDK(Path("disk.vmdk")) if case.get("relative") else VMDK(Path(d) / "disk.vmdk")
        if case.get("relative"):
            os.chdir(decoy)
    except Exception as e:
        os.chdir(cwd)
        ctx.violation(case, {"subject": "vmdk.descriptor.open", "kind": "exception", "exc": type(e).__name__,
                             "kinds": sorted(kinds)}, {"exception": repr(e)[:300]})
        return
    finally:
        if not case.get("relative"):
            os.chdir(cwd)

    def closer():
        os.chdir(cwd)
        for dsk in v.disks:
            try:
                dsk.fh.close()
            except Exception:
                pass

    if len(v.disks) != len(parts):
        closer()
        ctx.violation(case, {"subject": "vmdk.descriptor.extents", "kind": "mismatch", "kinds": sorted(kinds)},
                      {"got": len(v.disks), "expected": len(parts)})
        return
    _finish(ctx, case, v, v.read_sectors, disk, bounds[:-1], buf, "vmdk.descriptor", closer, v.sector_count)


def _case_vmdk_shared(case, ctx, d, buf):
    from dissect.hypervisor.disk.vmdk import VMDK

    from mc.builders import vmdk as B

    ctx.outcome("vmdk-descriptor")
    total = max(a + n for a, n in case["pieces"])
    B.build_flat(total, 1, slack_sectors=9).write_to(os.path.join(d, "shared-flat.vmdk"))
    lines, parts, bounds, pos = [], [], [], 0
    seq = [("F", a, n) for a, n in case["pieces"]]
    if case["sparse_at"] is not None:
        seq.insert(case["sparse_at"], ("S", 0, 24))
    for kind, a, n in seq:
        if kind == "F":
            lines.append(("RW", n, "FLAT", "shared-flat.vmdk", a))
            parts.append(RawDisk(pattern.span(1, a * 512, n * 512)))
        else:
            img, m = _extent_image(case["sparse_kind"], n, 2, 1)
            img.write_to(os.path.join(d, "between-s001.vmdk"))
            lines.append(("RW", n, case["sparse_kind"], "between-s001.vmdk", None))
            parts.append(m)
        pos += n
        bounds.append(pos)
    with open(os.path.join(d, "disk.vmdk"), "w", encoding="utf-8") as f:
        f.write(B.descriptor_text("custom", lines))
    v = VMDK(Path(d) / "disk.vmdk")

    def closer():
        for dsk in v.disks:
            try:
                dsk.fh.close()
            except Exception:
                pass

    _finish(ctx, case, v, v.read_sectors, ConcatDisk(parts), bounds[:-1], buf, "vmdk.descriptor.shared-file", closer, v.sector_count)


def _case_vmdk_huge(case, ctx, d, buf):
    from dissect.hypervisor.disk.vmdk import VMDK

    from mc.builders import vmdk as B
    from mc.models import GuestDisk

    ctx.outcome("vmdk-descriptor")
    MBs = 2048  # sectors per MiB
    sizes = [40 * MBs, MBs + 3, 36 * MBs]
    lines, parts = [], []
    for xi, sectors in enumerate(sizes):
        if xi == 0 and case["first"] != "FLAT":
            grain = 128
            n = (sectors + grain - 1) // grain
            dense = case["first"].endswith("-dense")
            # dense: every grain allocated, stored in guest order (one physically contiguous run of 40 MiB)
            states = [DATA if dense or i % 37 in (0, 5) else HOLE for i in range(n)]
            idx = [i for i, st in enumerate(states) if st == DATA]
            slots = [None] * n
            for p, i in enumerate(idx if dense else idx[::-1]):
                slots[i] = p
            if case["first"].startswith("SESPARSE"):
                img = B.build_sesparse(states, slots, grain, 64, sectors, layer=xi + 1)
                fn, kind = "huge-s001.vmdk", "SESPARSE"
            else:
                img = B.build_hosted(states, slots, grain, 512, sectors, layer=xi + 1)
                fn, kind = "huge-s001.vmdk", "SPARSE"
            m = B.model(states, grain, sectors, layer=xi + 1)
        else:
            # sparsely stamped flat file: 4 KiB of pattern at the start of every MiB, zeros elsewhere
            from mc.vfile import Image as _Image

            img = _Image("flat")
            unit = 4096
            states = [DATA if (u * unit) % (1 << 20) == 0 else ZERO for u in range(sectors * 512 // unit)]
            for u, st in enumerate(states):
                if st == DATA:
                    img.put_pattern(u * unit, unit, xi + 1, u * unit)
            tail = sectors * 512 - len(states) * unit
            img.set_size(sectors * 512)
            m = GuestDisk(sectors * 512, unit, states + ([ZERO] if tail else []), xi + 1)
            fn, kind = f"huge-f{xi + 1:03d}.vmdk", "FLAT"
        img.write_to(os.path.join(d, fn))
        lines.append(("RW", sectors, kind, fn, 0 if kind == "FLAT" else None))
        parts.append(m)
    with open(os.path.join(d, "disk.vmdk"), "w", encoding="utf-8") as f:
        f.write(B.descriptor_text("custom", lines))
    disk = ConcatDisk(parts)
    size = disk.size
    v = VMDK(Path(d) / "disk.vmdk")
    try:
        if v.size != size:
            ctx.violation(case, {"subject": "vmdk.descriptor.huge.size", "kind": "mismatch"}, {"got": v.size, "expected": size})
            return
        b0, b1 = sizes[0] * 512, (sizes[0] + sizes[1]) * 512
        reqs = [(0, size), (4096, 33 << 20), (1 << 20, 39 << 20), (b1, 36 << 20), (b1 + 512, (35 << 20) + 100), (b0 - 512, size - b0 + 512),
                (5 << 20, 70 << 20)]
        sreqs = [(16, 0x10008), (0, sizes[0]), (sizes[0] + sizes[1], sizes[2]), (8, size // 512 - 8)]
        ctx.nontrivial += len(reqs) + len(sreqs)
        compare_reads(ctx, case, v, disk, reqs, "vmdk.descriptor.huge.read")
        compare_sector_reads(ctx, case, v.read_sectors, disk, sreqs, "vmdk.descriptor.huge.read_sectors", 512)
    finally:
        for dsk in v.disks:
            try:
                dsk.fh.close()
            except Exception:
                pass


def _case_vmdk_long(case, ctx, d, buf):
    from dissect.hypervisor.disk.vmdk import VMDK

    from mc.builders import vmdk as B

    ctx.outcome("vmdk-descriptor")
    n, pad = case["n"], case["pad"]
    lines, parts, bounds = [], [], []
    pos = 0
    for xi in range(n):
        sectors = 1 + xi % 3
        fn = f"disk-f{xi + 1:03d}.vmdk"
        B.build_flat(sectors, (xi % 200) + 1, slack_sectors=1).write_to(os.path.join(d, fn))
        lines.append(("RW", sectors, "FLAT", fn, 0))
        parts.append(B.model_flat(sectors, (xi % 200) + 1))
        pos += sectors
        bounds.append(pos)
    extra = [("longcomment%d" % i, '"' + "c" * 90 + '"') for i in range(pad // 110)]
    with open(os.path.join(d, "disk.vmdk"), "w", encoding="utf-8") as f:
        f.write(B.descriptor_text("twoGbMaxExtentFlat", lines, extra=extra))
    disk = ConcatDisk(parts)
    try:
        v = VMDK(Path(d) / "disk.vmdk")
    except Exception as e:
        ctx.violation(case, {"subject": "vmdk.descriptor.open", "kind": "exception", "exc": type(e).__name__},
                      {"exception": repr(e)[:300]})
        return

    def closer():
        for dsk in v.disks:
            try:
                dsk.fh.close()
            except Exception:
                pass

    if len(v.disks) != n:
        closer()
        ctx.violation(case, {"subject": "vmdk.descriptor.extents", "kind": "mismatch", "long": True},
                      {"got": len(v.disks), "expected": n})
        return
    sel = bounds[:2] + bounds[len(bounds) // 2: len(bounds) // 2 + 1] + bounds[-3:-1]
    _finish(ctx, case, v, v.read_sectors, disk, sorted(set(sel)), buf, "vmdk.descriptor.long", closer, v.sector_count)


def _case_handles(case, ctx, buf):
    from dissect.hypervisor.disk.vmdk import VMDK

    ctx.outcome("vmdk-handles")
    fhs = []
    parts = []
    bounds = []
    pos = 0
    for xi, (kind, sectors) in enumerate(case["parts"]):
        img, m = _extent_image(kind, sectors, xi + 1, xi)
        if kind == "raw":
            from mc.builders import vmdk as B

            img = B.build_flat(sectors, xi + 1)  # a bare handle is as long as its file: no trailing slack
        fhs.append(img.bytesio())
        parts.append(m)
        pos += sectors
        bounds.append(pos)
    disk = ConcatDisk(parts)
    opened = []
    if case.get("named"):
        # the same pieces as files whose names sort differently from the declared order (by text and by number), handed over
        # as paths or as open files
        names = ["x-f2.vmdk", "x-f10.vmdk", "x-f1.vmdk", "tail.img", "head.img"][:len(fhs)]
        d_ = case["_dir"]
        paths = []
        for nm, fh_ in zip(names, fhs):
            with open(os.path.join(d_, nm), "wb") as f:
                f.write(fh_.getvalue())
            paths.append(Path(d_) / nm)
        if case["named"] == "paths":
            fhs = paths
        else:
            fhs = [open(p_, "rb") for p_ in paths]
            opened = fhs
    try:
        v = VMDK(fhs if len(fhs) > 1 else fhs[0]) if len(fhs) == 1 else VMDK(fhs)
    except Exception as e:
        ctx.violation(case, {"subject": "vmdk.handles.open", "kind": "exception", "exc": type(e).__name__},
                      {"exception": repr(e)[:300]})
        return
    def closer():
        for dsk in v.disks:
            try:
                dsk.fh.close()
            except Exception:
                pass
        for f in opened:
            f.close()

    _finish(ctx, case, v, v.read_sectors, disk, bounds[:-1], buf, "vmdk.handles", closer if case.get("named") else (lambda: None), v.sector_count)


def _case_hdd(case, ctx, d, buf):
    from dissect.hypervisor.disk.hdd import HDD

    from mc.builders import hdd as B

    ctx.outcome("hdd-storages")
    hd = os.path.join(d, "m.hdd")
    os.mkdir(hd)
    g = B.DEFAULT_TOP
    storages = []
    parts = []
    bounds = []
    pos = 0
    for si, (typ, sectors) in enumerate(zip(case["types"], case["sizes"])):
        fn = f"m.hdd.{si}.{g}.hds"
        if case.get("subdirs"):
            # every storage keeps its image under the same file name in a directory of its own
            fn = f"s{si}/data.hds"
            os.makedirs(os.path.join(hd, f"s{si}"), exist_ok=True)
        if typ == "Plain":
            data = pattern.sectors(si + 1, 0, sectors)
            with open(os.path.join(hd, fn), "wb") as f:
                f.write(data + pattern.span(pattern.SLACK, 0, 512 * 3))
            parts.append(RawDisk(data))
        else:
            spc = 8
            n = (sectors + spc - 1) // spc
            # holes of storage k lie where storage k-1 holds data (a parent leaking across storages becomes visible)
            states = [(DATA, HOLE, DATA)[(i + si) % 3] for i in range(n)]
            idx = [i for i, s in enumerate(states) if s == DATA]
            slots = [None] * n
            for p, i in enumerate(idx[::-1]):
                slots[i] = p + 1
            B.build_hds(states, slots, spc, 2 - si % 2, sectors, layer=si + 1).write_to(os.path.join(hd, fn))
            parts.append(B.model_hds(states, spc, sectors, si + 1))
        ref = fn
        if case.get("absolute") == si:
            # the real image lives elsewhere and is named by its absolute path; a decoy with the same base name (other layer)
            # sits in the .hdd directory
            other = os.path.join(d, "volume2", "images", "other.hdd")
            os.makedirs(other, exist_ok=True)
            os.replace(os.path.join(hd, fn), os.path.join(other, fn))
            ref = os.path.join(other, fn)
            if typ == "Plain":
                with open(os.path.join(hd, fn), "wb") as f:
                    f.write(pattern.sectors(9, 0, sectors + 3))
            else:
                B.build_hds([DATA] * ((sectors + 7) // 8), list(range(1, (sectors + 7) // 8 + 1)), 8, 2, sectors, layer=9).write_to(
                    os.path.join(hd, fn))
        storages.append((pos, pos + sectors, [(g, typ, ref)]))
        pos += sectors
        bounds.append(pos)
    xml = B.descriptor_xml(pos, [storages[i] for i in case["order"]], [(g, B.NULL_GUID)])
    with open(os.path.join(hd, "DiskDescriptor.xml"), "w") as f:
        f.write(xml)
    disk = ConcatDisk(parts)
    try:
        s = HDD(Path(hd)).open()
    except Exception as e:
        ctx.violation(case, {"subject": "hdd.storages.open", "kind": "exception", "exc": type(e).__name__},
                      {"exception": repr(e)[:300]})
        return

    def closer():
        for _, x in s.streams:
            try:
                getattr(x, "fh", x).close()
            except Exception:
                pass

    _finish(ctx, case, s, None, disk, bounds[:-1], buf, "hdd.storages", closer)
