"""C18 -- VM configuration files: the disk list is exactly the VM's hard disks.   Shape A (input-space product)."""
from __future__ import annotations

import io
import itertools

from mc.diskcheck import sliced

PROPERTY = "C18"
LEVEL = "model_checking"
TECHNIQUE = "exhaustive enumeration of configuration documents against a model disk list"
RULE = ("VMX: every single device of bus {scsi,sata,ide,nvme} x bus number {0,1,10} x unit {0,1,15} x deviceType {absent and 7 "
        "types} x key casing x file-name form; every pair of devices over the position/type product; triples with every line "
        "order, controller / floppy / ethernet / unrelated keys, comment and blank lines at every position, quoting variants, "
        "re-assignment of a key (last wins; two and three assignments in every casing pattern incl. X,y,X); 17 special characters "
        "(VT FF FS GS RS NEL LS PS NBSP ... '=' '#') at start / middle / end of a disk file name. OVF: every graph with 1-2 File, 0-2 Disk (any fileRef), 0-3 Item over ResourceType "
        "{17,15,14,20,3} x HostResource {ovf:/disk/, ovf:/file/, /disk/} x three namespace spellings. VirtualBox: registries "
        "with <= 3 HardDisk over format x type x nesting depth <= 3 plus DVD / floppy images. PVS: every interleaving of <= 2 "
        "Hdd, <= 2 CdRom, <= 1 Fdd. non-trivial = document with a non-disk device or more than one disk")
ASSUMPTIONS = [
    "VMX device ids are numeric (<bus><n>:<m>); a hard disk is a device with a fileName whose deviceType is absent, empty (the default type) or one of "
    "scsi-hardDisk / ata-hardDisk / disk / rawDisk; the list is reported sorted",
    "VirtualBox: the library documents that it reports hard disks of type Normal in VDI format (any letter case) at any "
    "nesting depth; DVD and floppy images are never reported",
    "OVF attributes are namespace-qualified (ovf:id ...), as the OVF schema requires; disks are the Items with ResourceType 17 "
    "in document order",
    "PVS hard disks are the Hdd elements' SystemName in document order",
]
ALPHABET = "device x type x casing x name; graph; registry; hardware list"
BOUND = {"quick": "VMX singles, pairs, triples (thin), OVF <= 2/2/3, VBox <= 3 disks, PVS <= 5 devices",
         "thorough": "adds all VMX triples over a 6-position grid and OVF with 3 files"}
EXPECT_OUTCOMES = ["vmx", "vmx-dict", "ovf", "vbox", "pvs", "vmx-encrypted", "ovf-interleaved", "xml-decl", "ovf-ids", "handle-lifecycle", "pvs-large", "ovf-foreign-attrs"]

BUSES = ["scsi", "sata", "ide", "nvme"]
TYPES = [None, "scsi-hardDisk", "ata-hardDisk", "disk", "rawDisk", "cdrom-image", "cdrom-raw", "atapi-cdrom"]
DISK_TYPES = {None, "", "scsi-hardDisk", "ata-hardDisk", "disk", "rawDisk"}
NAMES = ["a.vmdk", "Virtual Disk 2.vmdk", "ünï-日本.vmdk"]
CASINGS = ["lower", "camel", "upper"]
SPECIAL_CHARS = ["\x0b", "\x0c", "\x1c", "\x1d", "\x1e", "\x85", "\u2028", "\u2029", "\xa0", "\u3000", "\t", "=", "#", "\x00",
                 "\ufeff", "\x7f", "'"]


def shards(tier):
    out = [{"kind": "pvs-large"}, {"kind": "ovf-foreign-attrs"}, {"kind": "vmx1"}, {"kind": "vmx-units"}, {"kind": "vmx-chars"}, {"kind": "xml-decl"}, {"kind": "ovf-ids"}, {"kind": "handle-lifecycle"}, {"kind": "vmx-dict"}, {"kind": "vbox"}, {"kind": "pvs"}, {"kind": "vmx-encrypted"},
           {"kind": "ovf-interleaved"}]
    out += [{"kind": "vmx2", "slice": [i, 8]} for i in range(8)]
    out += [{"kind": "vmx3", "slice": [i, 4], "full": tier != "quick"} for i in range(4)]
    out += [{"kind": "ovf", "slice": [i, 8], "files": 2 if tier == "quick" else 3} for i in range(8)]
    return out


def _key(bus, n, u, prop, casing):
    k = f"{bus}{n}:{u}.{prop}"
    return k.lower() if casing == "lower" else k.upper() if casing == "upper" else k


def _vmx_lines(dev, casing, quote='"'):
    bus, n, u, typ, name = dev
    lines = [f'{_key(bus, n, u, "present", casing)} = {quote}TRUE{quote}',
             f'{_key(bus, n, u, "fileName", casing)} = {quote}{name}{quote}']
    if typ is not None:
        lines.append(f'{_key(bus, n, u, "deviceType", casing)} = {quote}{typ}{quote}')
    return lines


def _vmx_expected(devs):
    last = {}
    for bus, n, u, typ, name in devs:
        last[(bus, n, u)] = (typ, name)
    return sorted(name for typ, name in last.values() if typ in DISK_TYPES)


def run_shard(shard, ctx):
    kind = shard["kind"]
    if kind == "vmx1":
        for bus, n, u, ti, ci, ni in itertools.product(BUSES, (0, 1, 10), (0, 1, 15), range(len(TYPES)), range(3), range(3)):
            run_case({"kind": "vmx", "devs": [[bus, n, u, TYPES[ti], NAMES[ni]]], "casing": CASINGS[ci], "extras": ci}, ctx)
    elif kind == "vmx2":
        pos = list(itertools.product(BUSES, (0, 1), (0, 15)))
        space = itertools.product(itertools.combinations(pos, 2), range(len(TYPES)), range(len(TYPES)))
        for j, ((p1, p2), t1, t2) in enumerate(sliced(space, *shard["slice"])):
            run_case({"kind": "vmx", "devs": [[*p1, TYPES[t1], NAMES[j % 3]], [*p2, TYPES[t2], NAMES[(j + 1) % 3] + "2"]],
                      "casing": CASINGS[j % 3], "extras": j % 4}, ctx)
            run_case({"kind": "vmx", "devs": [[*p1, TYPES[t1], NAMES[j % 3]], [*p2, TYPES[t2], NAMES[(j + 1) % 3] + "2"]],
                      "casing": CASINGS[j % 3], "extras": j % 4, "weave": 1 + j % 2}, ctx)
    elif kind == "vmx3":
        pos = [("scsi", 0, 0), ("scsi", 0, 1), ("sata", 0, 0), ("ide", 1, 0), ("nvme", 0, 0), ("scsi", 1, 0)]
        tsel = [0, 1, 5, 3, 7, 2]
        space = itertools.product(itertools.combinations(pos, 3), itertools.product(tsel, repeat=3),
                                  itertools.permutations(range(3)))
        for j, (ps, ts, order) in enumerate(sliced(space, *shard["slice"])):
            if not shard["full"] and j % 6:
                continue
            devs = [[*ps[i], TYPES[ts[i]], f"d{i}-" + NAMES[(j + i) % 3]] for i in range(3)]
            run_case({"kind": "vmx", "devs": devs, "casing": CASINGS[j % 3], "extras": j % 4, "order": list(order)}, ctx)
            run_case({"kind": "vmx", "devs": devs, "casing": CASINGS[j % 3], "extras": j % 4, "order": list(order), "weave": 1 + j % 2}, ctx)
    elif kind == "vmx-units":
        # pairs of device positions that coincide under some flattened numbering of (adapter, unit): units beyond 15 (SATA has
        # 30 ports, PVSCSI 64 targets, NVMe 15+ namespaces) next to low units of the following adapter, and ids whose digits
        # concatenate alike; a CD-ROM type or another file name on one of them must never reach the other
        pairs = [((0, 16), (1, 0)), ((0, 20), (1, 4)), ((0, 29), (1, 13)), ((0, 63), (3, 15)), ((0, 10), (1, 0)), ((1, 10), (11, 0)),
                 ((0, 1), (0, 10)), ((1, 1), (11, 1)), ((0, 32), (2, 0)), ((0, 8), (1, 0)), ((0, 256), (1, 0))]
        for bus, (p1, p2), t1, t2, swap in itertools.product(BUSES, pairs, (None, "disk", "cdrom-image"), (None, "cdrom-image"),
                                                             (False, True)):
            devs = [[bus, *p1, t1, "first.vmdk"], [bus, *p2, t2, "second.vmdk"]]
            run_case({"kind": "vmx", "devs": devs[::-1] if swap else devs, "casing": "camel", "extras": 1}, ctx)
        # an empty device type is the default type, like an absent one; a later empty assignment resets an earlier type
        for bus, casing in itertools.product(BUSES, CASINGS):
            run_case({"kind": "vmx", "devs": [[bus, 0, 0, "", "empty-type.vmdk"], ["ide", 1, 1, "cdrom-image", "cd.iso"]],
                      "casing": casing, "extras": 1}, ctx)
            run_case({"kind": "vmx", "devs": [[bus, 0, 0, "cdrom-image", "was-cd.vmdk"], [bus, 0, 0, "", "now-disk.vmdk"]],
                      "casing": casing, "extras": 0}, ctx)
            # unrelated entries that begin like a bus name
            for devs in ([], [[bus, 0, 0, None, "a.vmdk"]], [[bus, 0, 1, "disk", "a.vmdk"], ["ide", 1, 0, "cdrom-image", "cd.iso"]]):
                run_case({"kind": "vmx", "devs": devs, "casing": casing, "extras": 4}, ctx)
                run_case({"kind": "vmx", "devs": devs, "casing": casing, "extras": 5}, ctx)
    elif kind == "vmx-chars":
        # every character that some line-splitting or whitespace-trimming routine treats specially, at every position of a
        # disk file name and of a second, non-disk value; the only line separator of the format is LF
        for ch, where, bus, typ in itertools.product(SPECIAL_CHARS, ("start", "middle", "end", "twice", "spaced"), ("scsi", "nvme"),
                                                     (None, "disk", "cdrom-image")):
            name = {"start": ch + "disk.vmdk", "middle": "my old disk" + ch + "copy-f002.vmdk", "end": "disk.vmdk" + ch,
                    "twice": "a" + ch + "b" + ch + "scsi0:1.fileName = \"x.vmdk",
                    "spaced": "Data Disk " + ch + "2 " + ch + " copy.vmdk"}[where]
            run_case({"kind": "vmx", "devs": [[bus, 0, 0, typ, name], ["sata", 1, 1, None, "plain.vmdk"]], "casing": "camel",
                      "extras": 2}, ctx)
    elif kind == "pvs-large":
        # documents of 16 KiB .. 130 KiB in which a disk entry lies across every multiple of 16384 / 65536 characters (the
        # sizes in which file objects are fed to incremental parsers), as text and as bytes
        for boundary in (16384, 32768, 65536, 131072):
            for delta in range(-150, 30, 9):
                for handle in ("text", "bytes"):
                    run_case({"kind": "pvs-large", "boundary": boundary, "delta": delta, "handle": handle}, ctx)
    elif kind == "ovf-foreign-attrs":
        # vendor attributes from other namespaces whose local names equal the OVF ones, before and after them
        for where, swap, tgt in itertools.product(("after", "before", "both"), (False, True), ("file", "disk", "all")):
            run_case({"kind": "ovf-foreign-attrs", "where": where, "swap": swap, "target": tgt}, ctx)
    elif kind == "ovf-ids":
        # disk and file ids with characters that are special to URL / path splitting, in both HostResource spellings and both
        # id spaces; a second disk whose id is the part in front of the special character
        for ch in OVF_ID_CHARS:
            for form, target in itertools.product((0, 2), ("disk", "file")):
                run_case({"kind": "ovf-ids", "ch": ch, "form": form, "target": target}, ctx)
    elif kind == "handle-lifecycle":
        # what the caller does with the handle after the object has been constructed is its own business
        for entry, what, handle in itertools.product(("ovf", "vbox", "pvs"), ("close", "rewind-and-read", "overwrite", "seek-end"),
                                                     ("text", "bytes")):
            run_case({"kind": "handle-lifecycle", "entry": entry, "what": what, "handle": handle}, ctx)
    elif kind == "xml-decl":
        # the XML documents as text (the declaration's encoding is void for text) and as bytes in the declared encoding,
        # with non-ASCII disk names
        for entry, decl, handle in itertools.product(("ovf", "vbox", "pvs"), (None, "UTF-8", "ISO-8859-1", "windows-1252",
                                                                               "US-ASCII", "UTF-16"), ("text", "bytes")):
            if handle == "bytes" and decl == "US-ASCII":
                continue
            run_case({"kind": "xml-decl", "entry": entry, "decl": decl, "handle": handle}, ctx)
    elif kind == "vmx-dict":
        for c in _dict_cases():
            run_case(c, ctx)
    elif kind == "vmx-encrypted":
        for outer_dev in (0, 1):
            for order in ("before+after", "after", "before+fail+after"):
                for nin in (1, 2, 3):
                    run_case({"kind": "vmx-encrypted", "outer": outer_dev, "order": order, "inner": nin}, ctx)
    elif kind == "ovf-interleaved":
        for forms in itertools.product((0, 1, 2), repeat=2):
            for which in ("A-then-B", "B-then-A", "A-B-A"):
                # the second document: an OVF 1.x envelope, or one in another namespace (OVF 2.x, none, unrelated)
                for bns in (None, "http://schemas.dmtf.org/ovf/envelope/2", "", "urn:unrelated"):
                    run_case({"kind": "ovf-interleaved", "forms": list(forms), "which": which, "bns": bns}, ctx)
    elif kind == "ovf":
        for c in sliced(_ovf_cases(shard["files"]), *shard["slice"]):
            run_case(c, ctx)
    elif kind == "vbox":
        for c in _vbox_cases():
            run_case(c, ctx)
    elif kind == "pvs":
        for c in _pvs_cases():
            run_case(c, ctx)


EXTRA_BLOCKS = [
    [],
    ['scsi0.present = "TRUE"', 'scsi0.virtualDev = "lsisas1068"', 'scsi0.pciSlotNumber = "160"', 'sata0.present = "TRUE"',
     'nvme0.present = "TRUE"', 'ide1.present = "TRUE"'],
    ['floppy0.fileName = "floppy.flp"', 'floppy0.present = "TRUE"', 'ethernet0.present = "TRUE"',
     'ethernet0.virtualDev = "e1000"', 'displayName = "disk.vmdk"', 'nvram = "vm.nvram"', 'extendedConfigFile = "vm.vmxf"'],
    ['# scsi9:9.fileName = "commented.vmdk"', "", '   ', '#', 'serial0.fileName = "serial.vmdk"', 'usb.present = "TRUE"',
     'scsi0.sasWWID = "50 05 05 68 05 82 7f 70"'],
    # unrelated entries whose names merely begin like a bus name (no device, no property)
    ['ideas = "none"', 'scsiEmulation = "TRUE"', 'sataMode = "ahci"', 'nvmeOverFabric = "FALSE"', 'scsi = "yes"', 'IDE = "x"',
     'nvme0 = "present"', 'sata0:1 = "y"'],
    # ... and have a property part: the name of a device is <bus><number>[:<unit>]
    ['ideal.fileName = "not-a-disk.bin"', 'scsiController.fileName = "ctl.rom"', 'nvmexpress.fileName = "x.img"',
     'satanic.deviceType = "disk"', 'satanic.fileName = "y.vmdk"', 'ide.fileName = "no-number.vmdk"'],
]


def _dict_cases():
    # dictionary semantics: case-insensitive keys, comments / blank lines, last assignment wins, quoting variants
    keys = ["memsize", "displayName", "SCSI0:0.FILENAME", ".encoding", "a.b.c"]
    vals = ["512", "x y", "ü", ""]
    for k, v1, v2 in itertools.product(keys, vals, vals):
        for form in range(6):
            yield {"kind": "vmx-dict", "key": k, "v1": v1, "v2": v2, "form": form}


def run_case(case, ctx):
    ctx.executions += 1
    ctx.model(case)
    ctx.sample(case)
    kind = case["kind"]
    with ctx.watch(case):
        try:
            got, exp, nontrivial = globals()["_do_" + kind.replace("-", "_")](case)
        except Exception as e:
            ctx.violation(case, {"subject": kind, "kind": "exception", "exc": type(e).__name__}, {"exception": repr(e)[:300]})
            return
    ctx.transitions += 1
    ctx.states += 1
    ctx.outcome(kind)
    if nontrivial:
        ctx.nontrivial += 1
    if got != exp:
        ctx.violation(case, {"subject": kind, "kind": "disk-list-mismatch" if kind != "vmx-dict" else "dictionary-mismatch"},
                      {"got": repr(got)[:300], "expected": repr(exp)[:300]})


def _do_vmx(case):
    from dissect.hypervisor.descriptor.vmx import VMX

    devs = case["devs"]
    blocks = [_vmx_lines(tuple(d), case["casing"]) for d in devs]
    if "order" in case:
        blocks = [blocks[i] for i in case["order"]]
    extra = EXTRA_BLOCKS[case["extras"]]
    lines = ['.encoding = "UTF-8"', 'config.version = "8"']
    if case.get("weave") and blocks:
        # the entries of one device are not next to each other: round-robin over the devices' lines, from the front or the back
        rows = [list(b) if case["weave"] == 1 else list(b)[::-1] for b in blocks]
        lines += extra
        while any(rows):
            for r in rows:
                if r:
                    lines.append(r.pop(0))
    else:
        for i, b in enumerate(blocks):
            lines += extra[i::max(1, len(blocks))]
            lines += b
        if not blocks:
            lines += extra
    text = "\n".join(lines) + "\n"
    got = _twice(VMX.parse(text).disks)
    exp = _vmx_expected([tuple(d) for d in devs])
    return got, exp, len(devs) > 1 or any(d[3] not in DISK_TYPES for d in devs)


OVF_ID_CHARS = ["#", "?", ";", "&amp;", "%20", "%", "+", "@", "!", "..", ":", "=", ","]  # no "/": the HostResource path is split at slashes


def _do_pvs_large(case):
    from dissect.hypervisor.descriptor.pvs import PVS

    b, dl = case["boundary"], case["delta"]
    head = '<?xml version="1.0" encoding="UTF-8"?><ParallelsVirtualMachine schemaVersion="1.0"><Hardware>'
    first = '<Hdd id="0"><Index>0</Index><SystemName>first-0.hdd</SystemName></Hdd>'
    entry = '<Hdd dyn_lists="Partition 0" id="1"><Index>1</Index><Enabled>1</Enabled><SystemName>straddling disk-ü.hdd</SystemName></Hdd>'
    tail = '<Hdd id="2"><Index>2</Index><SystemName>last-2.hdd</SystemName></Hdd></Hardware></ParallelsVirtualMachine>'
    # the entry starts `delta` characters relative to the boundary
    pad = b + dl - len(head) - len(first) - 9
    doc = head + first + "<!--" + "p" * (pad - 2) + "-->  " + entry + tail
    fh = io.StringIO(doc) if case["handle"] == "text" else io.BytesIO(doc.encode())
    got = _twice(PVS(fh).disks)
    return got, ["first-0.hdd", "straddling disk-ü.hdd", "last-2.hdd"], True


def _do_ovf_foreign_attrs(case):
    from dissect.hypervisor.descriptor.ovf import OVF

    where, swap, tgt = case["where"], case["swap"], case["target"]
    ns = f'xmlns="{NS_OVF}" xmlns:ovf="{NS_OVF}" xmlns:rasd="{NS_RASD}" xmlns:cat="urn:vendor:catalog" xmlns:x="urn:x"'

    def attrs(own, foreign, on):
        if not on:
            return own
        return {"after": own + " " + foreign, "before": foreign + " " + own, "both": foreign + " " + own + " " + foreign.replace("cat:", "x:")}[where]

    f_on, d_on = tgt in ("file", "all"), tgt in ("disk", "all")
    ids = ("file2", "file1") if swap else ("zz1", "zz2")
    f1 = attrs('ovf:id="file1" ovf:href="one.vmdk"', f'cat:id="{ids[0]}" cat:href="https://mirror/one"', f_on)
    f2 = attrs('ovf:id="file2" ovf:href="two.vmdk"', f'cat:id="{ids[1]}" cat:href="https://mirror/two"', f_on)
    d1 = attrs('ovf:diskId="vmdisk1" ovf:fileRef="file1"', 'cat:diskId="vmdisk2" cat:fileRef="file2"', d_on)
    d2 = attrs('ovf:diskId="vmdisk2" ovf:fileRef="file2"', 'cat:diskId="vmdisk1" cat:fileRef="file1"', d_on)
    text = (f'<?xml version="1.0"?><Envelope {ns}><References><File {f1}/><File {f2}/></References><DiskSection><Info>i</Info>'
            f'<Disk {d1}/><Disk {d2}/></DiskSection><VirtualSystem ovf:id="vm"><VirtualHardwareSection>'
            f'<Item><rasd:HostResource>ovf:/disk/vmdisk1</rasd:HostResource><rasd:ResourceType>17</rasd:ResourceType></Item>'
            f'<Item><rasd:HostResource>ovf:/file/file2</rasd:HostResource><rasd:ResourceType>17</rasd:ResourceType></Item>'
            f'</VirtualHardwareSection></VirtualSystem></Envelope>')
    got = _twice(OVF(io.StringIO(text)).disks)
    return got, ["one.vmdk", "two.vmdk"], True


def _do_ovf_ids(case):
    from dissect.hypervisor.descriptor.ovf import OVF

    ch, form, target = case["ch"], case["form"], case["target"]
    raw = ch.replace("&amp;", "&")
    ns = f'xmlns="{NS_OVF}" xmlns:ovf="{NS_OVF}" xmlns:rasd="{NS_RASD}"'
    ida, idb = "vm" + ch + "disk1", "vm"  # the second id is what is left when the first is cut at the special character
    fa, fb = "file" + ch + "1", "file"
    res = ("ovf:" if form == 0 else "") + ("/disk/" + ida if target == "disk" else "/file/" + fa)
    text = (f'<?xml version="1.0"?><Envelope {ns}><References><File ovf:id="{fa}" ovf:href="right.vmdk"/>'
            f'<File ovf:id="{fb}" ovf:href="wrong.vmdk"/></References><DiskSection><Info>i</Info>'
            f'<Disk ovf:diskId="{ida}" ovf:fileRef="{fa}"/><Disk ovf:diskId="{idb}" ovf:fileRef="{fb}"/></DiskSection>'
            f'<VirtualSystem ovf:id="vm"><VirtualHardwareSection><Item><rasd:HostResource>{res}</rasd:HostResource>'
            f'<rasd:ResourceType>17</rasd:ResourceType></Item></VirtualHardwareSection></VirtualSystem></Envelope>')
    got = _twice(OVF(io.StringIO(text)).disks)
    return got, ["right.vmdk"], True


def _do_handle_lifecycle(case):
    from dissect.hypervisor.descriptor.ovf import OVF
    from dissect.hypervisor.descriptor.pvs import PVS
    from dissect.hypervisor.descriptor.vbox import VBox

    entry, what, handle = case["entry"], case["what"], case["handle"]

    def doc(tag):
        if entry == "ovf":
            ns = f'xmlns="{NS_OVF}" xmlns:ovf="{NS_OVF}" xmlns:rasd="{NS_RASD}"'
            return (f'<Envelope {ns}><References><File ovf:id="file1" ovf:href="{tag}.vmdk"/></References><DiskSection><Info>i</Info>'
                    f'<Disk ovf:diskId="vmdisk1" ovf:fileRef="file1"/></DiskSection><VirtualSystem ovf:id="vm"><VirtualHardwareSection>'
                    f'<Item><rasd:HostResource>ovf:/disk/vmdisk1</rasd:HostResource><rasd:ResourceType>17</rasd:ResourceType></Item>'
                    f'</VirtualHardwareSection></VirtualSystem></Envelope>'), [f"{tag}.vmdk"]
        if entry == "vbox":
            return (f'<VirtualBox xmlns="http://www.virtualbox.org/" version="1.16-linux"><Machine><MediaRegistry><HardDisks>'
                    f'<HardDisk uuid="{{1}}" location="{tag}.vdi" format="VDI" type="Normal"/></HardDisks></MediaRegistry></Machine>'
                    f'</VirtualBox>'), [f"{tag}.vdi"]
        return (f'<ParallelsVirtualMachine schemaVersion="1.0"><Hardware><Hdd id="0"><Index>0</Index><SystemName>{tag}.hdd</SystemName>'
                f'</Hdd></Hardware></ParallelsVirtualMachine>'), [f"{tag}.hdd"]

    cls = {"ovf": OVF, "vbox": VBox, "pvs": PVS}[entry]
    text, exp = doc("first")
    other, _ = doc("second-machine")
    fh = io.StringIO(text) if handle == "text" else io.BytesIO(text.encode())
    obj = cls(fh)
    if what == "close":
        fh.close()
    elif what == "rewind-and-read":
        fh.seek(0)
        fh.read()
        fh.seek(0)
    elif what == "seek-end":
        fh.seek(0, 2)
    else:
        fh.seek(0)
        fh.truncate()
        fh.write(other if handle == "text" else other.encode())
        fh.seek(0)
    got = _twice(obj.disks)
    return got, exp, True


def _do_xml_decl(case):
    from dissect.hypervisor.descriptor.ovf import OVF
    from dissect.hypervisor.descriptor.pvs import PVS
    from dissect.hypervisor.descriptor.vbox import VBox

    entry, decl, handle = case["entry"], case["decl"], case["handle"]
    name = "Größe-0 ñ.vdi" if handle == "text" or decl != "windows-1252" else "Größe-0 ñ€.vdi"
    head = "" if decl is None else f'<?xml version="1.0" encoding="{decl}"?>'
    if entry == "ovf":
        ns = f'xmlns="{NS_OVF}" xmlns:ovf="{NS_OVF}" xmlns:rasd="{NS_RASD}"'
        body = (f'<Envelope {ns}><References><File ovf:id="file1" ovf:href="{name}"/></References><DiskSection><Info>i</Info>'
                f'<Disk ovf:diskId="vmdisk1" ovf:fileRef="file1"/></DiskSection><VirtualSystem ovf:id="vm"><VirtualHardwareSection>'
                f'<Item><rasd:HostResource>ovf:/disk/vmdisk1</rasd:HostResource><rasd:ResourceType>17</rasd:ResourceType></Item>'
                f'</VirtualHardwareSection></VirtualSystem></Envelope>')
        cls = OVF
    elif entry == "vbox":
        body = (f'<VirtualBox xmlns="http://www.virtualbox.org/" version="1.16-linux"><Machine><MediaRegistry><HardDisks>'
                f'<HardDisk uuid="{{1}}" location="{name}" format="VDI" type="Normal"/></HardDisks></MediaRegistry></Machine></VirtualBox>')
        cls = VBox
    else:
        body = (f'<ParallelsVirtualMachine schemaVersion="1.0"><Hardware><Hdd id="0"><Index>0</Index><SystemName>{name}</SystemName>'
                f'</Hdd></Hardware></ParallelsVirtualMachine>')
        cls = PVS
    doc = head + body
    if handle == "text":
        fh = io.StringIO(doc)
    else:
        fh = io.BytesIO(doc.encode({None: "utf-8"}.get(decl, decl)))
    got = _twice(cls(fh).disks)
    return got, [name], True


def _do_vmx_dict(case):
    from dissect.hypervisor.descriptor.vmx import VMX

    k, v1, v2, form = case["key"], case["v1"], case["v2"], case["form"]
    if form == 0:
        lines = [f'{k} = "{v1}"', "# comment", "", f'{k.upper()} = "{v2}"']
    elif form == 1:
        lines = ["", f'{k.lower()}="{v1}"', f'   {k} = "{v2}"   ', "#" + k + ' = "zzz"']
    elif form == 2:
        lines = [f'{k} = "{v1}"', f'other = "1"', f'{k.swapcase()} = "{v2}"', ""]
    elif form == 4:  # three assignments, spellings X, y, X
        lines = [f'{k} = "{v1}"', f'{k.swapcase()} = "{v1}-mid"', 'other = "1"', f'{k} = "{v2}"']
    elif form == 5:  # three assignments, spellings x, Y, Y then x again in between other keys
        lines = [f'{k.lower()} = "{v2}-0"', f'{k.upper()} = "{v1}"', 'zz = "1"', f'{k.upper()} = "{v1}-2"', f'{k.lower()} = "{v2}"']
    else:
        lines = [f'{k} = "{v2}"']
    text = "\r\n".join(lines) if form == 2 else "\n".join(lines)
    got = VMX.parse(text).attr
    exp = {k.lower(): v2}
    if form in (2, 4):
        exp["other"] = "1"
    if form == 5:
        exp["zz"] = "1"
    return got, exp, form != 3


def _twice(fn):
    """disks() peeked at, then enumerated twice on the same object: the answer may not depend on earlier calls."""
    it = iter(fn())
    next(it, None)
    first = fn()
    a = list(first)
    if isinstance(first, list):
        # what the caller does with an answer does not change the next one
        first.clear()
        first.append("<changed by the caller>")
    b = list(fn())
    if a != b:
        return ["<second enumeration differs>", a, b]
    return a


def _do_vmx_encrypted(case):
    """disks() before and after unlock_with_phrase on one object: the list follows the visible configuration."""
    from dissect.hypervisor.descriptor.vmx import VMX

    from mc.builders import vmxenc as BV

    inner = [("scsi", 0, i, None, f"inner{i}.vmdk") for i in range(case["inner"])] + [("ide", 1, 0, "cdrom-image", "cd.iso")]
    outer = [("sata", 0, 0, "disk", "outer.vmdk")] if case["outer"] else []
    cfg = "\n".join(ln for d in inner for ln in _vmx_lines(d, "camel"))
    dk = BV.det_bytes("dk", 32)
    pair, _ = BV.pair_text("pw", "PBKDF2-HMAC-SHA-1", "AES-256", 1, BV.det_bytes("s", 16), "HMAC-SHA-256", "AES-256", dk, BV.det_bytes("iv", 16))
    outer_kv = [(".encoding", "UTF-8"), ("displayName", "enc")]
    for d in outer:
        for ln in _vmx_lines(d, "camel"):
            k, _, v = ln.partition(" = ")
            outer_kv.append((k, v.strip('"')))
    text = BV.vmx_text([pair], BV.seal(dk, cfg.encode(), "HMAC-SHA-256", BV.det_bytes("i2", 16)), outer_kv)
    v = VMX.parse(text)
    exp_before = _vmx_expected(outer)
    exp_after = _vmx_expected(outer + inner)
    got = []
    exp = []
    if "before" in case["order"]:
        got.append(v.disks())
        exp.append(exp_before)
    if "fail" in case["order"]:
        try:
            v.unlock_with_phrase("nope")
            got.append("unlocked with a wrong passphrase")
        except Exception:
            got.append(v.disks())
        exp.append(exp_before)
    v.unlock_with_phrase("pw")
    got.append(v.disks())
    exp.append(exp_after)
    got.append(v.disks())
    exp.append(exp_after)
    return got, exp, True


def _do_ovf_interleaved(case):
    """Two OVF objects alive at once with the same ids and different files: each answers from its own document."""
    from dissect.hypervisor.descriptor.ovf import OVF

    def doc(tag, form, nsuri=NS_OVF):
        ns = f'xmlns="{nsuri}" xmlns:ovf="{nsuri}" xmlns:rasd="{NS_RASD}"'
        paths = [["ovf:/disk/vmdisk1", "ovf:/disk/vmdisk2"], ["ovf:/file/file1", "ovf:/file/file2"], ["ovf:/disk/vmdisk2", "ovf:/file/file1"]][form]
        items = "".join(f"<Item><rasd:HostResource>{p}</rasd:HostResource><rasd:ResourceType>17</rasd:ResourceType></Item>" for p in paths)
        text = (f'<?xml version="1.0"?><Envelope {ns}><References><File ovf:id="file1" ovf:href="{tag}-disk1.vmdk"/>'
                f'<File ovf:id="file2" ovf:href="{tag}-disk2.vmdk"/></References><DiskSection><Info>i</Info>'
                f'<Disk ovf:diskId="vmdisk1" ovf:fileRef="file1"/><Disk ovf:diskId="vmdisk2" ovf:fileRef="file2"/></DiskSection>'
                f'<VirtualSystem ovf:id="vm"><VirtualHardwareSection>{items}</VirtualHardwareSection></VirtualSystem></Envelope>')
        exp = [[f"{tag}-disk1.vmdk", f"{tag}-disk2.vmdk"], [f"{tag}-disk1.vmdk", f"{tag}-disk2.vmdk"],
               [f"{tag}-disk2.vmdk", f"{tag}-disk1.vmdk"]][form]
        return text, exp

    ta, ea = doc("alpha", case["forms"][0])
    bns = case.get("bns")
    tb, eb = doc("beta", case["forms"][1], NS_OVF if bns is None else bns)
    a = OVF(io.StringIO(ta))
    ga = a.disks()  # lazy
    if bns is None:
        b = OVF(io.StringIO(tb))
        gb = b.disks()
        lb = lambda: list(gb)  # noqa: E731
    else:
        # a document in another namespace: what it yields is not specified here -- only that the first object is unaffected
        eb = "n/a"

        def lb():
            try:
                list(OVF(io.StringIO(tb)).disks())
            except Exception:
                pass
            return "n/a"
        if case["which"] != "B-then-A":
            lb()
    if case["which"] == "A-then-B":
        got = [list(ga), lb()]
        exp = [ea, eb]
    elif case["which"] == "B-then-A":
        got = [lb(), list(ga)]
        exp = [eb, ea]
    else:
        got = [list(ga), lb(), list(a.disks())]
        exp = [ea, eb, ea]
    return got, exp, True


# ---- OVF ---------------------------------------------------------------------------------------------------------------
NS_OVF = "http://schemas.dmtf.org/ovf/envelope/1"
NS_RASD = "http://schemas.dmtf.org/wbem/wscim/1/cim-schema/2/CIM_ResourceAllocationSettingData"


def _ovf_cases(max_files):
    rtypes = [17, 15, 14, 20, 3]
    for nf in range(1, max_files + 1):
        for nd in range(0, 3):
            for refs in itertools.product(range(nf), repeat=nd):
                targets = [("disk", i) for i in range(nd)] + [("file", i) for i in range(nf)]
                for ni in range(0, 4):
                    combos = itertools.product(itertools.product(rtypes, range(len(targets)), range(3)), repeat=ni)
                    for j, items in enumerate(combos):
                        if ni >= 2 and j % (7 if ni == 2 else 173):
                            continue
                        for ns in range(3):
                            if ni >= 2 and (j + ns) % 3:
                                continue
                            # id naming: distinct name spaces (file0 / vmdisk0) or one shared numbering ("1", "2", ...)
                            for ids in ((0, 1) if (ni and nd) else (0,)):
                                yield {"kind": "ovf", "files": nf, "disks": list(refs), "items": [list(i) for i in items],
                                       "ns": ns, "ids": ids}
                                # disks without a backing file (an empty disk to be created at deployment) and drives without
                                # a host resource (an empty drive): neither contributes a backing file
                                if ni and (ni <= 1 or j % 21 == 0):
                                    # the virtual system inside one / two nested collections (a multi-VM package)
                                    for coll in (1, 2):
                                        yield {"kind": "ovf", "files": nf, "disks": list(refs), "items": [list(i) for i in items],
                                               "ns": ns, "ids": ids, "collection": coll}
                                if ni >= 2 and j % 21 == 0:
                                    # the items spread over two hardware sections of the one virtual system (alternative
                                    # configurations): split after the first / before the last item
                                    for split in (1, ni - 1):
                                        yield {"kind": "ovf", "files": nf, "disks": list(refs), "items": [list(i) for i in items],
                                               "ns": ns, "ids": ids, "sections": split}
                                if ni <= 1 or j % 21 == 0:
                                    for empty in ("disk-first", "disk-last", "drive-first", "drive-last", "both"):
                                        yield {"kind": "ovf", "files": nf, "disks": list(refs), "items": [list(i) for i in items],
                                               "ns": ns, "ids": ids, "empty": empty}


def _do_ovf(case):
    from dissect.hypervisor.descriptor.ovf import OVF

    nf, refs, items, ns = case["files"], case["disks"], case["items"], case["ns"]
    if ns == 0:  # default namespace + ovf: prefix for attributes (what VirtualBox / VMware write)
        root_ns = f'xmlns="{NS_OVF}" xmlns:ovf="{NS_OVF}" xmlns:rasd="{NS_RASD}"'
        e, a, r = "", "ovf:", "rasd:"
    elif ns == 1:  # everything prefixed
        root_ns = f'xmlns:ovf="{NS_OVF}" xmlns:rasd="{NS_RASD}"'
        e, a, r = "ovf:", "ovf:", "rasd:"
    else:  # other prefixes bound to the same URIs
        root_ns = f'xmlns:o="{NS_OVF}" xmlns:r="{NS_RASD}"'
        e, a, r = "o:", "o:", "r:"
    files = [f"disk{i}-ä.vmdk" for i in range(nf)]
    shared = case.get("ids", 0) == 1
    fid = (lambda i: str(i + 1)) if shared else (lambda i: f"file{i}")
    # with shared numbering disk k is called like file (k+1) mod n: a reader that mixes the two id spaces picks the wrong file
    did = (lambda i: str((i + 1) % max(nf, 1) + 1)) if shared else (lambda i: f"vmdisk{i}")
    x = ['<?xml version="1.0"?>', f"<{e}Envelope {root_ns}>", f" <{e}References>"]
    for i in range(nf):
        x.append(f'  <{e}File {a}id="{fid(i)}" {a}href="{files[i]}"/>')
    x += [f" </{e}References>", f" <{e}DiskSection>", f"  <{e}Info>disks</{e}Info>"]
    empty = case.get("empty", "")
    empty_disk = f'  <{e}Disk {a}capacity="2048" {a}diskId="emptydisk"/>'
    empty_drive = [f"   <{e}Item>", f"    <{r}ElementName>empty drive</{r}ElementName>", f"    <{r}InstanceID>99</{r}InstanceID>",
                   f"    <{r}ResourceType>17</{r}ResourceType>", f"   </{e}Item>"]
    if empty in ("disk-first", "both"):
        x.append(empty_disk)
    for i, ref in enumerate(refs):
        x.append(f'  <{e}Disk {a}capacity="1024" {a}diskId="{did(i)}" {a}fileRef="{fid(ref)}"/>')
    if empty == "disk-last":
        x.append(empty_disk)
    coll = case.get("collection", 0)
    x += [f" </{e}DiskSection>"] + [f' <{e}VirtualSystemCollection {a}id="group{c}"><{e}Info>group</{e}Info>' for c in range(coll)]
    x += [f' <{e}VirtualSystem {a}id="vm">', f"  <{e}VirtualHardwareSection>"]
    if empty in ("drive-first", "both"):
        x += empty_drive
    targets = [("disk", i) for i in range(len(refs))] + [("file", i) for i in range(nf)]
    exp = []
    for n, (rt, ti, form) in enumerate(items):
        tk, tidx = targets[ti]
        path = f"/disk/{did(tidx)}" if tk == "disk" else f"/file/{fid(tidx)}"
        if form in (0, 1):
            path = "ovf:" + path
        if case.get("sections") and n == case["sections"]:
            x += [f"  </{e}VirtualHardwareSection>", f'  <{e}VirtualHardwareSection {a}id="alt">', f"   <{e}Info>alternative</{e}Info>"]
        x += [f"   <{e}Item>", f"    <{r}ElementName>dev{n}</{r}ElementName>", f"    <{r}HostResource>{path}</{r}HostResource>",
              f"    <{r}InstanceID>{n + 3}</{r}InstanceID>", f"    <{r}ResourceType>{rt}</{r}ResourceType>", f"   </{e}Item>"]
        if rt == 17:
            exp.append(files[refs[tidx]] if tk == "disk" else files[tidx])
    if empty == "drive-last":
        x += empty_drive
    x += [f"  </{e}VirtualHardwareSection>", f" </{e}VirtualSystem>"] + [f" </{e}VirtualSystemCollection>"] * coll + [f"</{e}Envelope>"]
    o = OVF(io.StringIO("\n".join(x)))
    if shared and len({did(i) for i in range(len(refs))}) < len(refs):
        return exp, exp, False  # two disks with the same id: not a well-formed graph
    got = _twice(o.disks)
    return got, exp, len(items) > 1 or any(i[0] != 17 for i in items)


# ---- VirtualBox --------------------------------------------------------------------------------------------------------
def _vbox_cases():
    formats = ["VDI", "vdi", "Vdi", "VMDK", "VHD"]
    types = ["Normal", "Immutable", "Writethrough", None]
    # shapes: list of parent indices (-1 = top level), <= 3 disks, depth <= 3
    shapes = [[-1], [-1, -1], [-1, 0], [-1, -1, -1], [-1, 0, 0], [-1, 0, 1], [-1, -1, 1]]
    for shape in shapes:
        n = len(shape)
        for fs in itertools.product(range(len(formats)), repeat=n):
            for ts in itertools.product(range(len(types)), repeat=n):
                if n == 3 and (sum(fs) + sum(ts)) % 4:
                    continue
                for images in (0, 1):
                    yield {"kind": "vbox", "shape": shape, "formats": [formats[i] for i in fs],
                           "types": [types[i] for i in ts], "images": images}


def _do_vbox(case):
    from dissect.hypervisor.descriptor.vbox import VBox

    shape, fmts, types = case["shape"], case["formats"], case["types"]
    n = len(shape)
    locs = [f"disk {i}-ü.{fmts[i].lower()}" for i in range(n)]
    # the second disk's location is written with character references (hexadecimal, decimal) and the predefined entity
    xml_locs = list(locs)
    if n > 1:
        locs[1] = f"R&D/bäck & up <1>.{fmts[1].lower()}"
        xml_locs[1] = f"R&#x26;D/b&#xE4;ck &#38; up &lt;1&#x3e;.{fmts[1].lower()}"

    def emit(i, indent):
        attrs = f'uuid="{{0000000{i}-0000-0000-0000-000000000000}}" location="{xml_locs[i]}" format="{fmts[i]}"'
        if types[i] is not None:
            attrs += f' type="{types[i]}"'
        kids = [k for k in range(n) if shape[k] == i]
        if not kids:
            return [f"{indent}<HardDisk {attrs}/>"]
        out = [f"{indent}<HardDisk {attrs}>"]
        for k in kids:
            out += emit(k, indent + " ")
        return out + [f"{indent}</HardDisk>"]

    x = ['<?xml version="1.0"?>', '<VirtualBox xmlns="http://www.virtualbox.org/" version="1.16-linux">', " <Machine>",
         "  <MediaRegistry>", "   <HardDisks>"]
    for i in range(n):
        if shape[i] == -1:
            x += emit(i, "    ")
    x.append("   </HardDisks>")
    if case["images"]:
        x += ["   <DVDImages>", '    <Image uuid="{1}" location="install.iso"/>', "   </DVDImages>", "   <FloppyImages>",
              '    <Image uuid="{2}" location="boot.img"/>', "   </FloppyImages>"]
    x += ["  </MediaRegistry>", "  <StorageControllers>", '   <StorageController name="SATA" type="AHCI">',
          '    <AttachedDevice type="HardDisk" port="0" device="0"><Image uuid="{00000000-0000-0000-0000-000000000000}"/></AttachedDevice>',
          "   </StorageController>", "  </StorageControllers>", " </Machine>", "</VirtualBox>"]
    got = _twice(VBox(io.StringIO("\n".join(x))).disks)
    # document order = pre-order of the registry
    order = []

    def pre(i):
        order.append(i)
        for k in range(n):
            if shape[k] == i:
                pre(k)

    for i in range(n):
        if shape[i] == -1:
            pre(i)
    exp = [locs[i] for i in order if types[i] == "Normal" and fmts[i].lower() == "vdi"]
    return got, exp, n > 1 or case["images"] == 1


# ---- PVS ---------------------------------------------------------------------------------------------------------------
def _pvs_cases():
    seen = set()
    for nh, nc, nf in itertools.product(range(0, 3), range(0, 3), range(0, 2)):
        devs = ["Hdd"] * nh + ["CdRom"] * nc + ["Fdd"] * nf
        for perm in set(itertools.permutations(devs)):
            if (perm) in seen:
                continue
            seen.add(perm)
            yield {"kind": "pvs", "devs": list(perm)}
            if nh:
                # a hard disk device without an image attached (empty element): it has no backing file
                for form in ("empty-tag", "empty-pair"):
                    yield {"kind": "pvs", "devs": list(perm), "unattached": form}


def _do_pvs(case):
    from dissect.hypervisor.descriptor.pvs import PVS

    x = ['<?xml version="1.0" encoding="UTF-8"?>', '<ParallelsVirtualMachine dyn_lists="VirtualAppliance 0" schemaVersion="1.0">',
         " <Identification><VmName>hdd-name.hdd</VmName></Identification>", ' <Hardware dyn_lists="Fdd 0 CdRom 1 Hdd 9">']
    exp = []
    for i, d in enumerate(case["devs"]):
        name = {"Hdd": f"Fedora-{i} ü.hdd", "CdRom": f"install-{i}.iso", "Fdd": f"floppy-{i}.fdd"}[d]
        # physical / Boot Camp disks list their partitions, each with a SystemName of its own (a device node, not a disk image)
        part = [f'   <Partition id="{k}"><SystemName>/dev/disk{i}s{k + 1}</SystemName></Partition>' for k in range(2)]
        first_hdd = d == "Hdd" and "Hdd" not in case["devs"][:i]
        sysname = f"   <SystemName>{name}</SystemName>"
        if first_hdd and case.get("unattached"):
            sysname = "   <SystemName/>" if case["unattached"] == "empty-tag" else "   <SystemName></SystemName>"
        x += [f'  <{d} dyn_lists="Partition 0" id="{i}">', f"   <Index>{i}</Index>"] + (part if i % 4 == 1 else []) + [
            sysname, f"   <UserFriendlyName>{name}</UserFriendlyName>"] + (part if i % 4 == 3 else []) + [
            f"  </{d}>"]
        if d == "Hdd" and not (first_hdd and case.get("unattached")):
            exp.append(name)
    x += [" </Hardware>", "</ParallelsVirtualMachine>"]
    got = _twice(PVS(io.StringIO("\n".join(x))).disks)
    return got, exp, len(case["devs"]) > 1
