"""C07 -- layer precedence in differencing / backing / snapshot chains.   Shape A per chain mechanism (+ configurations).

Every layer has its own pattern layer tag, so the source layer of every returned sector is identifiable; the oracle is the
top-down overlay fold of the per-layer maps (GuestDisk with parent), zeros under the base.
"""
from __future__ import annotations

import itertools
import os
from pathlib import Path

from mc import bootstrap, pattern
from mc.diskcheck import compare_reads, compare_sector_reads, sliced
from mc.models import DATA, HOLE, ZERO, GuestDisk, request_pairs
from mc.scratch import scratch_dir

PROPERTY = "C07"
LEVEL = "model_checking"
TECHNIQUE = "explicit-state bounded-exhaustive exploration of real chains against an overlay-fold reference model"
RULE = ("per mechanism: VHDX differencing chains of depth 1-3 on real files (block states {not present, zero, fully "
        "present}^2 per layer; partially-present blocks with every 6-sector bitmap window per non-base layer at bit "
        "offsets {0,3,5} and across the block boundary and in the second chunk), every (sector,count) sub-range of the "
        "window +-2 via read_sectors and via byte reads; VMDK delta chains (hosted / SE-sparse children, multi-extent), "
        "Parallels snapshot chains (open() and open(guid) for every shot), QCOW2 backing chains and internal snapshots, "
        "VDI parents, each depth 1-3 x {hole, zero, data}^W per layer x boundary requests; parent-resolution "
        "configurations (relative, same dir, sibling dir, missing, nameless handle, opt-out). non-trivial = request whose "
        "expected bytes come from >= 2 different sources (layers / zero)")
ASSUMPTIONS = [
    "layer maps use the block states whose meaning the statement fixes: not present (falls through), zero, fully and "
    "partially present; VHDX 'undefined' and 'unmapped' states are only explored without a parent (C03)",
    "all layers of a chain have the same virtual size unless the sub-space says otherwise (QCOW2 shorter backing)",
    "an unresolvable parent must make the constructor raise (any exception type); only qcow2.ALLOW_NO_BACKING_FILE opts out",
    "builders as in C01-C06",
]
ALPHABET = "per layer per unit {H, Z, D}; per-sector bitmap bits; chain depth 1..3; parent location configuration"
BOUND = {"quick": "depth <= 3, W=2 blocks / 3 grains / 3 clusters, 6-sector bitmap windows",
         "thorough": "depth <= 3, W=3 blocks / 4 grains, 8-sector bitmap windows"}
EXPECT_OUTCOMES = ["data@L1", "data@L2", "data@L3", "zero-below-base"]
MB = 1 << 20


def shards(tier):
    out = []
    q = tier == "quick"
    bufs = [512, 8192] if q else [512, 4096, 8192, 65536]
    for buf in bufs:
        # VHDX block-level families
        for depth in (1, 2, 3):
            k = {1: 1, 2: 2, 3: 12}[depth]
            for i in range(k):
                out.append({"buf": buf, "kind": "vhdx-blocks", "depth": depth, "W": 2, "slice": [i, k]})
    for buf in ([512] if q else [512, 8192]):
        wb = 6 if q else 8
        for depth in (2, 3):
            for where in ("bit0", "bit3", "bit5", "cross", "chunk2"):
                if q and depth == 3 and where in ("bit3", "chunk2"):
                    continue
                k = 4 if depth == 2 else 32
                for i in range(k):
                    out.append({"buf": buf, "kind": "vhdx-bitmap", "depth": depth, "where": where, "wb": wb,
                                "slice": [i, k]})
    out.append({"buf": 8192, "kind": "vhdx-locate"})
    return out


def run_shard(shard, ctx):
    kind = shard["kind"]
    if kind == "vhdx-blocks":
        _shard_vhdx_blocks(shard, ctx)
    elif kind == "vhdx-bitmap":
        _shard_vhdx_bitmap(shard, ctx)
    elif kind == "vhdx-locate":
        _shard_vhdx_locate(shard, ctx)
    else:
        raise ValueError(kind)


def run_case(case, ctx):
    kind = case["kind"]
    with scratch_dir() as d:
        if kind == "vhdx-blocks":
            _case_vhdx_blocks(case, ctx, d, {})
        elif kind == "vhdx-bitmap":
            _case_vhdx_bitmap(case, ctx, d, {})
        elif kind == "vhdx-locate":
            _case_vhdx_locate(case, ctx, d)
        else:
            raise ValueError(kind)


def _count_sources(ctx, disk, reqs, sector=1):
    """non-trivial = expected bytes of the request come from >= 2 sources; outcome = set of sources."""
    for a, n in reqs:
        a *= sector
        n *= sector
        srcs = set()
        pos = a
        end = min(a + n, disk.size)
        step = 512
        while pos < end:
            srcs.add(disk.source(pos))
            pos = (pos // step + 1) * step
        if len(srcs) >= 2:
            ctx.nontrivial += 1
        for s in srcs:
            ctx.outcome(s)


def _close_chain(v):
    seen = 0
    while v is not None and seen < 8:
        fh = getattr(v, "fh", None)
        try:
            if fh is not None:
                fh.close()
        except Exception:
            pass
        v = getattr(v, "parent", None)
        seen += 1


# ---- VHDX ----------------------------------------------------------------------------------------------------------
def _vhdx_names(depth):
    return ["base.vhdx"] + [f"diff{k}.avhdx" for k in range(1, depth)]


def _write_vhdx_layer(d, names, k, states, slots, bitmaps, cache, block_size=MB, total=None, at=0, sector=512):
    from mc.builders import vhdx as B

    parent = None
    if k > 0:
        parent = [("parent_linkage", "{83ed3b12-f5c1-4e3c-9d0e-2f0e3b6c1a00}"),
                  ("relative_path", ".\\" + names[k - 1]),
                  ("absolute_win32_path", "C:\\gone\\" + names[k - 1])]
    key = (k, tuple(states), tuple(slots), repr(sorted((bitmaps or {}).items())) if bitmaps else None, total, at)
    path = os.path.join(d, names[k])
    if cache.get(names[k]) == key:
        return path
    img = B.build(states, slots, block_size, sector, None, layer=k + 1, parent=parent, bitmaps=bitmaps,
                  disk_id=bytes([k + 1]) * 16, total_blocks=total, window_at=at)
    if os.path.exists(path):
        os.chmod(path, 0o644)
        os.unlink(path)
    img.write_to(path)
    os.chmod(path, 0o444)
    cache[names[k]] = key
    return path


def _shard_vhdx_blocks(shard, ctx):
    depth, W = shard["depth"], shard["W"]
    i, k = shard["slice"]
    alpha = [0, 2, DATA]
    per_layer = list(itertools.product(alpha, repeat=W))
    with scratch_dir() as d:
        cache = {}
        for layers in sliced(itertools.product(per_layer, repeat=depth), i, k):
            _case_vhdx_blocks({"kind": "vhdx-blocks", "layers": [list(l) for l in layers]}, ctx, d, cache)


def _case_vhdx_blocks(case, ctx, d, cache):
    from dissect.hypervisor.disk.vhdx import VHDX

    from mc.builders import vhdx as B

    layers = case["layers"]
    depth = len(layers)
    W = len(layers[0])
    names = _vhdx_names(depth)
    buf = bootstrap.bufsize()
    disk = None
    for k, states in enumerate(layers):
        slots = [w if s == DATA else None for w, s in enumerate(states)]
        # descending physical order in odd layers
        if k % 2:
            slots = [(W - 1 - w) if s == DATA else None for w, s in enumerate(states)]
        _write_vhdx_layer(d, names, k, states, slots, None, cache)
        disk = B.model(states, MB, 512, None, k + 1, disk)
    ctx.model(layers)
    ctx.executions += 1
    ctx.sample(case)
    size = W * MB
    spb = MB // 512
    if "sector_requests" in case or "requests" in case:
        sreqs = [tuple(r) for r in case.get("sector_requests", [])]
        reqs = [tuple(r) for r in case.get("requests", [])]
    else:
        spts = sorted({0, 1, spb - 1, spb, spb + 1, 2 * spb - 1, 2 * spb, spb - buf // 512, spb + buf // 512} & set(range(0, W * spb + 1)))
        sreqs = [(a, c) for a, c in request_pairs(spts) if 0 < c <= 2 * (buf // 512) + 2]
        sreqs += [(0, spb), (spb // 2, spb), (0, 2 * spb)]
        reqs = [(s * 512 + da, c * 512 + dn) for (s, c) in sreqs[:12] for da, dn in ((0, 0), (1, 1), (511, 2))]
        reqs.append((0, size))
    with ctx.watch(case):
        try:
            v = VHDX(Path(d) / names[-1])
        except Exception as e:
            ctx.violation(case, {"subject": "vhdx.chain.open", "kind": "exception", "exc": type(e).__name__},
                          {"exception": repr(e)[:300]})
            return
        try:
            _count_sources(ctx, disk, sreqs, 512)
            compare_sector_reads(ctx, case, v.read_sectors, disk, sreqs, f"vhdx.chain{depth}.blocks.read_sectors", 512)
            compare_reads(ctx, case, v, disk, reqs, f"vhdx.chain{depth}.blocks.read")
        finally:
            _close_chain(v)


def _bitmap_window(where, wb, spb):
    """-> (first sector of the window (absolute, within the 2-block disk or chunk-2 disk), block index base)"""
    if where == "bit0":
        return 8
    if where == "bit3":
        return 8 + 3
    if where == "bit5":
        return 16 + 5
    if where == "cross":
        return spb - wb // 2
    if where == "chunk2":
        return 4096 * spb + 8 + 5
    raise ValueError(where)


def _shard_vhdx_bitmap(shard, ctx):
    depth, where, wb = shard["depth"], shard["where"], shard["wb"]
    i, k = shard["slice"]
    combos = itertools.product(range(1 << wb), repeat=depth - 1)
    with scratch_dir() as d:
        cache = {}
        for bits in sliced(combos, i, k):
            for base_state in ((DATA, 0) if depth == 2 else (DATA,)):
                _case_vhdx_bitmap({"kind": "vhdx-bitmap", "where": where, "wb": wb, "bits": list(bits),
                                   "base": base_state}, ctx, d, cache)


def _case_vhdx_bitmap(case, ctx, d, cache):
    from dissect.hypervisor.disk.vhdx import VHDX

    from mc.builders import vhdx as B

    where, wb, bits = case["where"], case["wb"], case["bits"]
    depth = len(bits) + 1
    spb = MB // 512
    w0 = _bitmap_window(where, wb, spb)
    at = 4096 if where == "chunk2" else 0
    total = at + 2
    names = _vhdx_names(depth)
    buf = bootstrap.bufsize()
    # base layer: both blocks fully present (or not present at all -> zeros below the base)
    base_states = [case["base"], case["base"]]
    _write_vhdx_layer(d, names, 0, base_states, [0 if case["base"] == DATA else None, 1 if case["base"] == DATA else None],
                      None, cache, total=total, at=at)
    disk = B.model(base_states, MB, 512, None, 1, None, total_blocks=total, window_at=at)
    for k, word in enumerate(bits, start=1):
        bm = {at: [0] * spb, at + 1: [0] * spb}
        # background outside the window: layer k holds every 7th sector group so that neighbours differ per layer
        for j in range(wb):
            s = w0 + j - at * spb
            if word >> j & 1:
                bm[at + s // spb][s % spb] = 1
        states = [B.PARTIAL, B.PARTIAL]
        _write_vhdx_layer(d, names, k, states, [1, 0] if k % 2 else [0, 1], bm, cache, total=total, at=at)
        disk = B.model(states, MB, 512, None, k + 1, disk, bitmaps=bm, total_blocks=total, window_at=at)
    ctx.model([where, wb, bits, case["base"]])
    ctx.executions += 1
    ctx.sample(case)
    if "sector_requests" in case or "requests" in case:
        sreqs = [tuple(r) for r in case.get("sector_requests", [])]
        reqs = [tuple(r) for r in case.get("requests", [])]
    else:
        lo, hi = w0 - 2, w0 + wb + 2
        sreqs = [(a, b - a) for a in range(lo, hi) for b in range(a + 1, hi + 1)]
        reqs = [(a * 512, c * 512) for a, c in sreqs if c in (1, 2, wb, wb + 4)]
        reqs += [(lo * 512 + 1, (wb + 3) * 512), (lo * 512 + 511, 1026)]
    with ctx.watch(case):
        try:
            v = VHDX(Path(d) / names[-1])
        except Exception as e:
            ctx.violation(case, {"subject": "vhdx.chain.open", "kind": "exception", "exc": type(e).__name__},
                          {"exception": repr(e)[:300]})
            return
        try:
            _count_sources(ctx, disk, sreqs, 512)
            subj = f"vhdx.chain{depth}.bitmap.{where}"
            compare_sector_reads(ctx, case, v.read_sectors, disk, sreqs, subj + ".read_sectors", 512)
            compare_reads(ctx, case, v, disk, reqs, subj + ".read")
        finally:
            _close_chain(v)


def _shard_vhdx_locate(shard, ctx):
    for cfg in ("relative", "relative-backslash-subdir", "absolute-win32", "missing", "nameless-handle", "str-path",
                "handle-with-name"):
        run_case({"kind": "vhdx-locate", "cfg": cfg}, ctx)


def _case_vhdx_locate(case, ctx, d):
    from dissect.hypervisor.disk.vhdx import VHDX

    from mc.builders import vhdx as B

    cfg = case["cfg"]
    ctx.executions += 1
    ctx.model(case)
    ctx.sample(case)
    os.makedirs(os.path.join(d, "vm", "sub"), exist_ok=True)
    os.makedirs(os.path.join(d, "other"), exist_ok=True)
    child_dir = os.path.join(d, "vm")
    base = B.build([DATA, 0], [0, None], layer=1, disk_id=b"\x01" * 16)
    loc = {
        "relative": ("vm/base.vhdx", [("relative_path", ".\\base.vhdx"), ("absolute_win32_path", "C:\\gone\\base.vhdx")]),
        "relative-backslash-subdir": ("vm/sub/base.vhdx", [("relative_path", ".\\sub\\base.vhdx"),
                                                           ("absolute_win32_path", "C:\\gone\\base.vhdx")]),
        "absolute-win32": ("other/base.vhdx", [("relative_path", ".\\nothere\\base.vhdx"),
                                                ("absolute_win32_path", os.path.join(d, "other", "base.vhdx").replace("/", "\\"))]),
        "missing": (None, [("relative_path", ".\\base.vhdx"), ("absolute_win32_path", "C:\\gone\\base.vhdx")]),
        "nameless-handle": ("vm/base.vhdx", [("relative_path", ".\\base.vhdx"), ("absolute_win32_path", "C:\\gone\\base.vhdx")]),
        "str-path": ("vm/base.vhdx", [("relative_path", ".\\base.vhdx"), ("absolute_win32_path", "C:\\gone\\base.vhdx")]),
        "handle-with-name": ("vm/base.vhdx", [("relative_path", ".\\base.vhdx"), ("absolute_win32_path", "C:\\gone\\base.vhdx")]),
    }[cfg]
    if loc[0]:
        base.write_to(os.path.join(d, loc[0]))
    top = B.build([0, DATA], [None, 0], layer=2, parent=[("parent_linkage", "{0}")] + loc[1], disk_id=b"\x02" * 16)
    top_path = os.path.join(child_dir, "top.avhdx")
    top.write_to(top_path)
    disk = B.model([0, DATA], layer=2, parent=B.model([DATA, 0], layer=1))
    expect_fail = cfg in ("missing", "nameless-handle")
    with ctx.watch(case):
        fh = None
        try:
            if cfg == "nameless-handle":
                v = VHDX(top.sparse(log=False))
            elif cfg == "str-path":
                v = VHDX(top_path)
            elif cfg == "handle-with-name":
                fh = open(top_path, "rb")
                v = VHDX(fh)
            else:
                v = VHDX(Path(top_path))
        except Exception as e:
            ctx.outcome("refused" if expect_fail else "refused-unexpectedly")
            if not expect_fail:
                ctx.violation(case, {"subject": "vhdx.locate", "kind": "exception", "cfg": cfg, "exc": type(e).__name__},
                              {"exception": repr(e)[:300]})
            else:
                ctx.nontrivial += 1
            return
        finally:
            pass
        try:
            if expect_fail:
                got = v.read(1024)
                ctx.violation(case, {"subject": "vhdx.locate", "kind": "child-served-alone", "cfg": cfg},
                              {"read": got[:16].hex()})
                return
            ctx.outcome("resolved")
            ctx.nontrivial += 1
            reqs = [(0, 1024), (MB - 512, 1024), (0, 2 * MB), (MB + 5, 100)]
            _count_sources(ctx, disk, reqs)
            compare_reads(ctx, case, v, disk, reqs, "vhdx.locate." + cfg)
        finally:
            _close_chain(v)
            if fh:
                fh.close()
