"""C07 -- layer precedence in differencing / backing / snapshot chains.   Shape A per chain mechanism (+ configurations).

Every layer has its own pattern layer tag, so the source layer of every returned sector is identifiable; the oracle is the
top-down overlay fold of the per-layer maps (GuestDisk with parent), zeros under the base.
"""
from __future__ import annotations

import itertools
import os
from pathlib import Path

from mc import bootstrap, pattern
from mc.diskcheck import compare_reads, compare_sector_reads, sliced
from mc.models import DATA, HOLE, ZERO, GuestDisk, request_pairs
from mc.scratch import scratch_dir

PROPERTY = "C07"
LEVEL = "model_checking"
TECHNIQUE = "explicit-state bounded-exhaustive exploration of real chains against an overlay-fold reference model"
RULE = ("per mechanism: VHDX differencing chains of depth 1-3 on real files (block states {not present, zero, fully "
        "present}^2 per layer; partially-present blocks with every 6-sector bitmap window per non-base layer at bit "
        "offsets {0,3,5} and across the block boundary and in the second chunk), every (sector,count) sub-range of the "
        "window +-2 via read_sectors and via byte reads; VMDK delta chains (hosted / SE-sparse children, multi-extent), "
        "Parallels snapshot chains (open() and open(guid) for every shot), QCOW2 backing chains and internal snapshots, "
        "VDI parents, each depth 1-3 x {hole, zero, data}^W per layer x boundary requests; the same for chains whose ancestors are "
        "one unit shorter than their child (VDI, Parallels, VMDK, VHDX, QCOW2); parent-resolution "
        "configurations (relative, same dir, sibling dir, missing, nameless handle, opt-out). non-trivial = request whose "
        "expected bytes come from >= 2 different sources (layers / zero)")
ASSUMPTIONS = [
    "layer maps use the block states whose meaning the statement fixes: not present (falls through), zero, fully and "
    "partially present; VHDX 'undefined' and 'unmapped' states are only explored without a parent (C03)",
    "all layers of a chain have the same virtual size unless the sub-space says otherwise (QCOW2 shorter backing; the `-grown` "
    "mechanisms, where every ancestor is one unit shorter than its child: what lies beyond an ancestor's end is below the base "
    "for that ancestor; Parallels open(guid) views of snapshots older than the enlargement are not compared -- no size is stated)",
    "an unresolvable parent must make the constructor raise (any exception type); only qcow2.ALLOW_NO_BACKING_FILE opts out",
    "builders as in C01-C06",
]
ALPHABET = "per layer per unit {H, Z, D}; per-sector bitmap bits; chain depth 1..3; parent location configuration"
BOUND = {"quick": "depth <= 3, W=2 blocks / 3 grains / 3 clusters, 6-sector bitmap windows",
         "thorough": "depth <= 3, W=3 blocks / 4 grains, 8-sector bitmap windows"}
EXPECT_OUTCOMES = ["data@L1", "data@L2", "data@L3", "zero-below-base"]
MB = 1 << 20


def shards(tier):
    out = []
    q = tier == "quick"
    bufs = [512, 8192] if q else [512, 4096, 8192, 65536]
    for buf in bufs:
        # VHDX block-level families
        for depth in (1, 2, 3):
            k = {1: 1, 2: 2, 3: 12}[depth]
            for i in range(k):
                out.append({"buf": buf, "kind": "vhdx-blocks", "depth": depth, "W": 2, "slice": [i, k]})
    for buf in ([512] if q else [512, 8192]):
        wb = 6 if q else 8
        for depth in (2, 3):
            for where in ("bit0", "bit3", "bit5", "cross", "chunk2", "mid512", "4k-bit5", "4k-cross", "4k-4g", "4k-20g",
                          "4k-chunk2"):
                if q and depth == 3 and where in ("bit3", "chunk2", "mid512", "4k-bit5", "4k-cross", "4k-20g", "4k-chunk2"):
                    continue
                k = 4 if depth == 2 else 32
                for i in range(k):
                    out.append({"buf": buf, "kind": "vhdx-bitmap", "depth": depth, "where": where, "wb": wb,
                                "slice": [i, k]})
    # block windows on both sides of a chunk boundary (4096 blocks of 1 MiB with 512-byte sectors): the BAT interleaves one
    # sector-bitmap entry per chunk with the payload entries
    for i in range(4):
        out.append({"buf": 8192, "kind": "vhdx-blocks", "depth": 2, "W": 3, "slice": [i, 4], "at": 4094, "total": 4098})
    for depth, k in ((2, 1), (3, 4)):
        for i in range(k):
            out.append({"buf": 8192, "kind": "vhdx-blocks", "depth": depth, "W": 3, "slice": [i, k], "grown": True})
    out.append({"buf": 8192, "kind": "vhdx-twochunks"})
    out.append({"buf": 8192, "kind": "vhdx-locate"})
    for buf in bufs[:2] if q else bufs:
        for mech in ("vmdk-hosted", "vmdk-stream", "vmdk-sesparse", "vmdk-multi", "hdd", "hdd-top", "hdd-topdefault", "hdd-plainbase", "hdd-split",
                     "qcow2", "qcow2-ext", "vdi", "vdi-mixed", "vdi-mixed-up", "vdi-grown", "hdd-grown", "vmdk-grown", "qcow2-grown",
                     "vdi-grownpart", "hdd-grownpart", "vmdk-grownpart", "vdi-grown2", "hdd-grown2", "vmdk-grown2"):
            for depth in (1, 2, 3):
                if (mech.startswith("vdi-mixed") or mech.endswith(("-grown", "-grown2")) or mech.endswith("-grownpart")) and depth == 1:
                    continue
                if mech.endswith("-grown2") and depth == 3:
                    continue
                W = 3 if depth < 3 else 2
                if mech.endswith(("-grown", "-grown2")):
                    W = 3  # layers of 2, 3 (depth 2) and 1, 2, 3 (depth 3) units
                if not q and depth == 3 and mech in ("vdi", "qcow2", "vmdk-hosted"):
                    W = 3
                k = {1: 1, 2: 4, 3: 8}[depth] * (4 if W == 3 and depth == 3 else 1)
                for i in range(k):
                    out.append({"buf": buf, "kind": "chain", "mech": mech, "depth": depth, "W": W, "slice": [i, k]})
    # every layer stores its units in guest order: runs of several adjacent units in the top layer, followed by a hole
    for mech in ("hdd", "vmdk-hosted", "vdi", "qcow2", "hdd-split"):
        for i in range(2):
            out.append({"buf": 512, "kind": "chain", "mech": mech, "depth": 2, "W": 3, "slice": [i, 2], "asc": True})
    # a delta whose first grain table is absent altogether (directory entry 0), over a full base: requests that start inside the
    # absent table's range and run into the next table
    out.append({"buf": 8192, "kind": "vmdk-absent-table"})
    # chains of 34 .. 70 layers (every layer rewrites one unit): data that lives dozens of levels below the top
    for mech in ("vdi", "qcow2", "hds"):
        out.append({"buf": 8192, "kind": "deep-chain", "mech": mech})
    out.append({"buf": 8192, "kind": "qcow2-snap", "slice": [0, 1]})
    out.append({"buf": 512, "kind": "qcow2-snap-seq"})
    out.append({"buf": 8192, "kind": "locate"})
    return out


def run_shard(shard, ctx):
    kind = shard["kind"]
    if kind == "vhdx-blocks":
        _shard_vhdx_blocks(shard, ctx)
    elif kind == "vhdx-bitmap":
        _shard_vhdx_bitmap(shard, ctx)
    elif kind == "vhdx-locate":
        _shard_vhdx_locate(shard, ctx)
    elif kind == "vhdx-twochunks":
        for word in (0x00FF, 0x5A5A, 0x0001, 0xFFFE):
            run_case({"kind": "vhdx-twochunks", "word": word}, ctx)
    elif kind == "chain":
        _shard_chain(shard, ctx)
    elif kind == "vmdk-absent-table":
        for variant in ("first-absent", "middle-absent", "two-absent"):
            run_case({"kind": "vmdk-absent-table", "variant": variant}, ctx)
    elif kind == "deep-chain":
        for depth in (34, 70):
            run_case({"kind": "deep-chain", "mech": shard["mech"], "depth": depth}, ctx)
    elif kind == "qcow2-snap":
        _shard_qsnap(shard, ctx)
    elif kind == "qcow2-snap-seq":
        for pat in itertools.product("AB", repeat=6):
            for bpos in (0, 3, 6):
                for backing in (True, False):
                    # layouts: mixed allocation / every cluster stored and host-contiguous (a view's next run starts exactly
                    # where its previous one ended); data in the image itself / in an external data file
                    for layout, datafile in (("mixed", False), ("contig", False), ("contig", True), ("mixed", True)):
                        _case_qsnap_seq({"kind": "qcow2-snap-seq", "pattern": "".join(pat), "bpos": bpos, "backing": backing,
                                         "layout": layout, "datafile": datafile}, ctx)
    elif kind == "locate":
        _shard_locate(shard, ctx)
    else:
        raise ValueError(kind)


def run_case(case, ctx):
    kind = case["kind"]
    with scratch_dir() as d:
        if kind == "vhdx-blocks":
            _case_vhdx_blocks(case, ctx, d, {})
        elif kind == "vhdx-bitmap":
            _case_vhdx_bitmap(case, ctx, d, {})
        elif kind == "vhdx-locate":
            _case_vhdx_locate(case, ctx, d)
        elif kind == "vhdx-twochunks":
            _case_vhdx_twochunks(case, ctx, d)
        elif kind == "chain":
            _case_chain(case, ctx, d, {})
        elif kind == "deep-chain":
            _case_deep_chain(case, ctx)
        elif kind == "vmdk-absent-table":
            _case_vmdk_absent_table(case, ctx, d)
        elif kind == "qcow2-snap":
            _case_qsnap(case, ctx)
        elif kind == "qcow2-snap-seq":
            _case_qsnap_seq(case, ctx)
        elif kind == "locate":
            _case_locate(case, ctx, d)
        else:
            raise ValueError(kind)


def _count_sources(ctx, disk, reqs, sector=1):
    """non-trivial = expected bytes of the request come from >= 2 sources; outcome = set of sources."""
    for a, n in reqs:
        a *= sector
        n *= sector
        srcs = set()
        pos = a
        end = min(a + n, disk.size)
        step = 512
        while pos < end:
            srcs.add(disk.source(pos))
            pos = (pos // step + 1) * step
        if len(srcs) >= 2:
            ctx.nontrivial += 1
        for s in srcs:
            ctx.outcome(s)


def _close_chain(v):
    seen = 0
    while v is not None and seen < 8:
        fh = getattr(v, "fh", None)
        try:
            if fh is not None:
                fh.close()
        except Exception:
            pass
        v = getattr(v, "parent", None)
        seen += 1


# ---- VHDX ----------------------------------------------------------------------------------------------------------
def _vhdx_names(depth):
    return ["base.vhdx"] + [f"diff{k}.avhdx" for k in range(1, depth)]


def _write_vhdx_layer(d, names, k, states, slots, bitmaps, cache, block_size=MB, total=None, at=0, sector=512):
    from mc.builders import vhdx as B

    parent = None
    if k > 0:
        parent = [("parent_linkage", "{83ed3b12-f5c1-4e3c-9d0e-2f0e3b6c1a00}"),
                  ("relative_path", ".\\" + names[k - 1]),
                  ("absolute_win32_path", "C:\\gone\\" + names[k - 1])]
    key = (k, tuple(states), tuple(slots), repr(sorted((bitmaps or {}).items())) if bitmaps else None, total, at, sector)
    path = os.path.join(d, names[k])
    if cache.get(names[k]) == key:
        return path
    img = B.build(states, slots, block_size, sector, None, layer=k + 1, parent=parent, bitmaps=bitmaps,
                  disk_id=bytes([k + 1]) * 16, total_blocks=total, window_at=at)
    if os.path.exists(path):
        os.chmod(path, 0o644)
        os.unlink(path)
    img.write_to(path)
    os.chmod(path, 0o444)
    cache[names[k]] = key
    return path


def _shard_vhdx_blocks(shard, ctx):
    depth, W = shard["depth"], shard["W"]
    i, k = shard["slice"]
    alpha = [0, 2, DATA]
    per_layer = list(itertools.product(alpha, repeat=W))
    with scratch_dir() as d:
        cache = {}
        for layers in sliced(itertools.product(per_layer, repeat=depth), i, k):
            case = {"kind": "vhdx-blocks", "layers": [list(l) for l in layers]}
            if shard.get("at"):
                case.update(at=shard["at"], total=shard["total"])
            if shard.get("grown"):
                # every ancestor one block shorter than its child (a differencing disk enlarged after it was created)
                lens = [W - (depth - 1 - k) for k in range(depth)]
                if any(x != 0 for k, st in enumerate(case["layers"]) for x in st[lens[k]:]):
                    continue
                case["layers"] = [st[:lens[k]] for k, st in enumerate(case["layers"])]
            _case_vhdx_blocks(case, ctx, d, cache)


def _case_vhdx_blocks(case, ctx, d, cache):
    from dissect.hypervisor.disk.vhdx import VHDX

    from mc.builders import vhdx as B

    layers = case["layers"]
    depth = len(layers)
    W = len(layers[-1])
    names = _vhdx_names(depth)
    buf = bootstrap.bufsize()
    disk = None
    for k, states in enumerate(layers):
        slots = [w if s == DATA else None for w, s in enumerate(states)]
        # descending physical order in odd layers
        if k % 2:
            slots = [(len(states) - 1 - w) if s == DATA else None for w, s in enumerate(states)]
        _write_vhdx_layer(d, names, k, states, slots, None, cache, total=case.get("total"), at=case.get("at", 0))
        disk = B.model(states, MB, 512, None, k + 1, disk, total_blocks=case.get("total"), window_at=case.get("at", 0))
    ctx.model(layers)
    ctx.executions += 1
    ctx.sample(case)
    size = W * MB
    spb = MB // 512
    at = case.get("at", 0)
    if "sector_requests" in case or "requests" in case:
        sreqs = [tuple(r) for r in case.get("sector_requests", [])]
        reqs = [tuple(r) for r in case.get("requests", [])]
    else:
        spts = sorted({0, 1, spb - 1, spb, spb + 1, 2 * spb - 1, 2 * spb, spb - buf // 512, spb + buf // 512} & set(range(0, W * spb + 1)))
        sreqs = [(a, c) for a, c in request_pairs(spts) if 0 < c <= 2 * (buf // 512) + 2]
        sreqs += [(0, spb), (spb // 2, spb), (0, 2 * spb)]
        if len(layers[0]) != W:  # grown chains: what lies behind the end of the ancestors
            sreqs += [(0, W * spb), (spb + 1, (W - 1) * spb - 1), ((W - 1) * spb - 1, 2), ((W - 1) * spb, 1), ((W - 1) * spb - 3, 8),
                      (W * spb - 1, 1), ((W - 2) * spb - 1, spb + 2), ((W - 2) * spb, 16), ((W - 2) * spb + 5, 16)]
        if at:
            sreqs += [(0, W * spb), (spb // 2, 2 * spb), (spb, 2 * spb), (2 * spb - 1, 2)]
            sreqs = [(at * spb + a, c) for a, c in sreqs]
        reqs = [(s * 512 + da, c * 512 + dn) for (s, c) in sreqs[:12] for da, dn in ((0, 0), (1, 1), (511, 2))]
        reqs.append((at * MB, size))
    with ctx.watch(case):
        try:
            v = VHDX(Path(d) / names[-1])
        except Exception as e:
            ctx.violation(case, {"subject": "vhdx.chain.open", "kind": "exception", "exc": type(e).__name__},
                          {"exception": repr(e)[:300]})
            return
        try:
            _count_sources(ctx, disk, sreqs, 512)
            compare_sector_reads(ctx, case, v.read_sectors, disk, sreqs, f"vhdx.chain{depth}.blocks.read_sectors", 512)
            compare_reads(ctx, case, v, disk, reqs, f"vhdx.chain{depth}.blocks.read")
        finally:
            _close_chain(v)


def _bitmap_window(where, wb, spb):
    """-> (first sector of the window (absolute, within the 2-block disk or chunk-2 disk), block index base)"""
    if where == "bit0":
        return 8
    if where == "bit3":
        return 8 + 3
    if where == "bit5":
        return 16 + 5
    if where == "cross":
        return spb - wb // 2
    if where in BITMAP_AT:
        return BITMAP_AT[where][0] * spb + (spb - wb // 2 if where.endswith("cross") else 8 + 5)
    raise ValueError(where)


# window position (block index, 1 MiB blocks) and logical sector size: a chunk holds 2^23 sectors, i.e. 4096 blocks with
# 512-byte sectors and 32768 blocks with 4096-byte sectors
BITMAP_AT = {"chunk2": (4096, 512), "mid512": (2049, 512), "4k-bit5": (0, 4096), "4k-cross": (0, 4096), "4k-4g": (4096, 4096),
             "4k-20g": (20481, 4096), "4k-chunk2": (32768, 4096)}


def _shard_vhdx_bitmap(shard, ctx):
    depth, where, wb = shard["depth"], shard["where"], shard["wb"]
    i, k = shard["slice"]
    combos = itertools.product(range(1 << wb), repeat=depth - 1)
    with scratch_dir() as d:
        cache = {}
        for bits in sliced(combos, i, k):
            for base_state in ((DATA, 0) if depth == 2 else (DATA,)):
                _case_vhdx_bitmap({"kind": "vhdx-bitmap", "where": where, "wb": wb, "bits": list(bits),
                                   "base": base_state}, ctx, d, cache)


def _case_vhdx_bitmap(case, ctx, d, cache):
    from dissect.hypervisor.disk.vhdx import VHDX

    from mc.builders import vhdx as B

    where, wb, bits = case["where"], case["wb"], case["bits"]
    depth = len(bits) + 1
    at, sector = BITMAP_AT.get(where, (0, 512))
    spb = MB // sector
    w0 = _bitmap_window(where, wb, spb)
    total = at + 2
    names = _vhdx_names(depth)
    buf = bootstrap.bufsize()
    # base layer: both blocks fully present (or not present at all -> zeros below the base)
    base_states = [case["base"], case["base"]]
    _write_vhdx_layer(d, names, 0, base_states, [0 if case["base"] == DATA else None, 1 if case["base"] == DATA else None],
                      None, cache, total=total, at=at, sector=sector)
    disk = B.model(base_states, MB, sector, None, 1, None, total_blocks=total, window_at=at)
    for k, word in enumerate(bits, start=1):
        bm = {at: [0] * spb, at + 1: [0] * spb}
        # background outside the window: layer k holds every 7th sector group so that neighbours differ per layer
        for j in range(wb):
            s = w0 + j - at * spb
            if word >> j & 1:
                bm[at + s // spb][s % spb] = 1
        states = [B.PARTIAL, B.PARTIAL]
        _write_vhdx_layer(d, names, k, states, [1, 0] if k % 2 else [0, 1], bm, cache, total=total, at=at, sector=sector)
        disk = B.model(states, MB, sector, None, k + 1, disk, bitmaps=bm, total_blocks=total, window_at=at)
    ctx.model([where, wb, bits, case["base"]])
    ctx.executions += 1
    ctx.sample(case)
    if "sector_requests" in case or "requests" in case:
        sreqs = [tuple(r) for r in case.get("sector_requests", [])]
        reqs = [tuple(r) for r in case.get("requests", [])]
    else:
        lo, hi = w0 - 2, w0 + wb + 2
        sreqs = [(a, b - a) for a in range(lo, hi) for b in range(a + 1, hi + 1)]
        reqs = [(a * sector, c * sector) for a, c in sreqs if c in (1, 2, wb, wb + 4)]
        reqs += [(lo * sector + 1, (wb + 3) * sector), (lo * sector + 511, 1026), (lo * sector + sector - 1, sector + 2)]
    with ctx.watch(case):
        try:
            v = VHDX(Path(d) / names[-1])
        except Exception as e:
            ctx.violation(case, {"subject": "vhdx.chain.open", "kind": "exception", "exc": type(e).__name__},
                          {"exception": repr(e)[:300]})
            return
        try:
            _count_sources(ctx, disk, sreqs, sector)
            subj = f"vhdx.chain{depth}.bitmap.{where}"
            compare_sector_reads(ctx, case, v.read_sectors, disk, sreqs, subj + ".read_sectors", sector)
            compare_reads(ctx, case, v, disk, reqs, subj + ".read")
        finally:
            _close_chain(v)


def _case_vhdx_twochunks(case, ctx, d):
    """Partially present blocks at the same position of two different chunks (blocks 5 and 4096 + 5), with complementary sector
    bitmaps, read alternately through equal in-block windows."""
    from dissect.hypervisor.disk.vhdx import VHDX

    from mc.builders import vhdx as B

    at, W, total, spb = 5, 4097, 4110, 2048
    names = _vhdx_names(2)
    base_states = [DATA] + [B.NOT_PRESENT] * (W - 2) + [DATA]
    _write_vhdx_layer(d, names, 0, base_states, [0] + [None] * (W - 2) + [1], None, {}, total=total, at=at)
    disk = B.model(base_states, MB, 512, None, 1, None, total_blocks=total, window_at=at)
    word = case["word"]
    bmA = [(word >> (j % 16)) & 1 for j in range(spb)]
    bm = {at: bmA, at + 4096: [1 - b for b in bmA]}
    states = [B.PARTIAL] + [B.NOT_PRESENT] * (W - 2) + [B.PARTIAL]
    _write_vhdx_layer(d, names, 1, states, [1] + [None] * (W - 2) + [0], bm, {}, total=total, at=at)
    disk = B.model(states, MB, 512, None, 2, disk, bitmaps=bm, total_blocks=total, window_at=at)
    ctx.model(case)
    ctx.executions += 1
    ctx.sample(case)
    ctx.nontrivial += 1
    a0, a1 = at * spb, (at + 4096) * spb
    sreqs = []
    for off, n in ((8, 16), (3, 5), (0, 64), (2040, 8), (100, 1)):
        sreqs += [(a0 + off, n), (a1 + off, n), (a0 + off, n), (a1 + off, n)]
    reqs = [(s * 512 + 1, c * 512 - 2) for s, c in sreqs[:8]]
    with ctx.watch(case):
        v = VHDX(Path(d) / names[-1])
        try:
            compare_sector_reads(ctx, case, v.read_sectors, disk, sreqs, "vhdx.chain2.bitmap.two-chunks.read_sectors", 512)
            compare_reads(ctx, case, v, disk, reqs, "vhdx.chain2.bitmap.two-chunks.read")
        finally:
            _close_chain(v)


def _shard_vhdx_locate(shard, ctx):
    for cfg in ("relative", "relative-backslash-subdir", "absolute-win32", "missing", "both-exist", "nameless-handle", "str-path",
                "handle-with-name"):
        run_case({"kind": "vhdx-locate", "cfg": cfg}, ctx)


def _case_vhdx_locate(case, ctx, d):
    from dissect.hypervisor.disk.vhdx import VHDX

    from mc.builders import vhdx as B

    cfg = case["cfg"]
    ctx.executions += 1
    ctx.model(case)
    ctx.sample(case)
    os.makedirs(os.path.join(d, "vm", "sub"), exist_ok=True)
    os.makedirs(os.path.join(d, "other"), exist_ok=True)
    child_dir = os.path.join(d, "vm")
    base = B.build([DATA, 0], [0, None], layer=1, disk_id=b"\x01" * 16)
    loc = {
        "relative": ("vm/base.vhdx", [("relative_path", ".\\base.vhdx"), ("absolute_win32_path", "C:\\gone\\base.vhdx")]),
        "relative-backslash-subdir": ("vm/sub/base.vhdx", [("relative_path", ".\\sub\\base.vhdx"),
                                                           ("absolute_win32_path", "C:\\gone\\base.vhdx")]),
        "absolute-win32": ("other/base.vhdx", [("relative_path", ".\\nothere\\base.vhdx"),
                                                ("absolute_win32_path", os.path.join(d, "other", "base.vhdx").replace("/", "\\"))]),
        "missing": (None, [("relative_path", ".\\base.vhdx"), ("absolute_win32_path", "C:\\gone\\base.vhdx")]),
        # both locations exist and hold different disks (a copied VM folder next to the originally registered parent): the
        # relative path is evaluated first
        "both-exist": ("vm/base.vhdx", [("relative_path", ".\\base.vhdx"),
                                        ("absolute_win32_path", os.path.join(d, "elsewhere", "base.vhdx").replace("/", "\\"))]),
        "nameless-handle": ("vm/base.vhdx", [("relative_path", ".\\base.vhdx"), ("absolute_win32_path", "C:\\gone\\base.vhdx")]),
        "str-path": ("vm/base.vhdx", [("relative_path", ".\\base.vhdx"), ("absolute_win32_path", "C:\\gone\\base.vhdx")]),
        "handle-with-name": ("vm/base.vhdx", [("relative_path", ".\\base.vhdx"), ("absolute_win32_path", "C:\\gone\\base.vhdx")]),
    }[cfg]
    if loc[0]:
        base.write_to(os.path.join(d, loc[0]))
    if cfg == "both-exist":
        os.makedirs(os.path.join(d, "elsewhere"), exist_ok=True)
        B.build([DATA, DATA], [1, 0], layer=5, disk_id=b"\x01" * 16).write_to(os.path.join(d, "elsewhere", "base.vhdx"))
    top = B.build([0, DATA], [None, 0], layer=2, parent=[("parent_linkage", "{0}")] + loc[1], disk_id=b"\x02" * 16)
    top_path = os.path.join(child_dir, "top.avhdx")
    top.write_to(top_path)
    disk = B.model([0, DATA], layer=2, parent=B.model([DATA, 0], layer=1))
    expect_fail = cfg in ("missing", "nameless-handle")
    with ctx.watch(case):
        fh = None
        try:
            if cfg == "nameless-handle":
                v = VHDX(top.sparse(log=False))
            elif cfg == "str-path":
                v = VHDX(top_path)
            elif cfg == "handle-with-name":
                fh = open(top_path, "rb")
                v = VHDX(fh)
            else:
                v = VHDX(Path(top_path))
        except Exception as e:
            ctx.outcome("refused" if expect_fail else "refused-unexpectedly")
            if not expect_fail:
                ctx.violation(case, {"subject": "vhdx.locate", "kind": "exception", "cfg": cfg, "exc": type(e).__name__},
                              {"exception": repr(e)[:300]})
            else:
                ctx.nontrivial += 1
            return
        finally:
            pass
        try:
            if expect_fail:
                got = v.read(1024)
                ctx.violation(case, {"subject": "vhdx.locate", "kind": "child-served-alone", "cfg": cfg},
                              {"read": got[:16].hex()})
                return
            ctx.outcome("resolved")
            ctx.nontrivial += 1
            reqs = [(0, 1024), (MB - 512, 1024), (0, 2 * MB), (MB + 5, 100)]
            _count_sources(ctx, disk, reqs)
            compare_reads(ctx, case, v, disk, reqs, "vhdx.locate." + cfg)
        finally:
            _close_chain(v)
            if fh:
                fh.close()


# ---- generic depth-1..3 chains for VMDK / Parallels / QCOW2 / VDI -------------------------------------------------------
ALPHA = {"vmdk-stream": [HOLE, ZERO, DATA], "vmdk-hosted": [HOLE, ZERO, DATA], "vmdk-sesparse": [HOLE, ZERO, "F", DATA], "vmdk-multi": [HOLE, ZERO, DATA],
         "hdd-split": [HOLE, DATA], "hdd": [HOLE, DATA], "hdd-top": [HOLE, DATA], "hdd-topdefault": [HOLE, DATA], "hdd-plainbase": [HOLE, DATA],
         "qcow2": ["U", "Z", "N", "C"], "qcow2-ext": ["u", "a", "z"], "vdi": [HOLE, ZERO, DATA],
         "vdi-mixed": [HOLE, ZERO, DATA], "vdi-mixed-up": [HOLE, ZERO, DATA],
         "vdi-grown": [HOLE, ZERO, DATA], "hdd-grown": [HOLE, DATA], "vmdk-grown": [HOLE, ZERO, DATA], "qcow2-grown": ["U", "Z", "N"],
         "vdi-grownpart": [HOLE, ZERO, DATA], "hdd-grownpart": [HOLE, DATA], "vmdk-grownpart": [HOLE, ZERO, DATA],
         "vdi-grown2": [HOLE, ZERO, DATA], "hdd-grown2": [HOLE, DATA], "vmdk-grown2": [HOLE, ZERO, DATA]}
UNIT = {"vmdk-stream": 4096, "hdd-split": 4096, "vmdk-hosted": 4096, "vmdk-sesparse": 4096, "vmdk-multi": 4096, "hdd": 4096, "hdd-top": 4096,
        "hdd-topdefault": 4096, "hdd-plainbase": 4096, "qcow2": 4096, "qcow2-ext": 512,
        "vdi": 4096, "vdi-mixed": 4096, "vdi-mixed-up": 4096, "vdi-grown": 4096, "hdd-grown": 4096, "vmdk-grown": 4096,
        "qcow2-grown": 4096, "vdi-grownpart": 4096, "hdd-grownpart": 4096, "vmdk-grownpart": 4096, "vdi-grown2": 4096,
        "hdd-grown2": 4096, "vmdk-grown2": 4096}


def _grown_lens(mech, depth, W):
    """`-grown` mechanisms: every ancestor is one unit shorter than its child (a disk enlarged after each snapshot); what lies
    beyond the end of an ancestor is below the base for that ancestor: the next one down, finally zeros."""
    if mech.endswith("-grown2"):  # the ancestor is two units shorter: a hole beyond its end can be followed by the child's own data
        return [max(1, W - 2 * (depth - 1 - k)) for k in range(depth)]
    if not mech.endswith("-grown"):
        return [W] * depth
    return [W - (depth - 1 - k) for k in range(depth)]


def _part_sizes(mech, depth, W, unit):
    """`-grownpart` mechanisms: every layer has W units, but the virtual size of an ancestor ends inside its last unit, a quarter
    of a unit and one sector earlier per level (so a request can straddle the end of one or two ancestors inside one unit)."""
    if not mech.endswith("-grownpart"):
        return None
    return [W * unit - (depth - 1 - k) * (unit // 4 + 512) for k in range(depth)]


def _mixed_layer(st, k, unit, up=False):
    """vdi-mixed: the layers of one chain use different block sizes (2x, 1x, 1/2x the unit going up the chain; vdi-mixed-up:
    1/2x, 1x, 2x, i.e. every parent has smaller blocks than its child); the W state tokens of a layer are laid over its own
    blocks (4 units of guest data)."""
    bs = ((unit // 2, unit, 2 * unit) if up else (2 * unit, unit, unit // 2))[k % 3]
    n = 4 * unit // bs
    toks = list(st) + list(st)[::-1] + list(st)
    return bs, [toks[(j * 5 + k) % len(toks)] if n > len(st) else toks[j] for j in range(n)]


def _shard_chain(shard, ctx):
    mech, depth, W = shard["mech"], shard["depth"], shard["W"]
    i, k = shard["slice"]
    per_layer = list(itertools.product(ALPHA[mech], repeat=W))
    with scratch_dir() as d:
        cache = {}
        for layers in sliced(itertools.product(per_layer, repeat=depth), i, k):
            c_ = {"kind": "chain", "mech": mech, "layers": [list(l) for l in layers]}
            if shard.get("asc"):
                c_["asc"] = True
            _case_chain(c_, ctx, d, cache)


def _to_model_states(mech, states):
    m = {HOLE: HOLE, ZERO: ZERO, DATA: DATA, "F": HOLE, "U": HOLE, "Z": ZERO, "N": DATA, "C": DATA, "u": HOLE, "a": DATA,
         "z": ZERO}
    return [m[s] for s in states]


_ASCENDING = [False]  # set per case: every layer stores its units in guest order (neighbours are adjacent in the file)


def _slots_for(states, k, placed):
    """physical slots: ascending in even layers, descending in odd layers (so neighbours are never trivially adjacent)"""
    idx = [i for i, s in enumerate(states) if s in placed]
    order = idx if (k % 2 == 0 or _ASCENDING[0]) else idx[::-1]
    slots = [None] * len(states)
    for n, i in enumerate(order):
        slots[i] = n
    return slots


def _case_chain(case, ctx, d, cache):
    _ASCENDING[0] = bool(case.get("asc"))
    if case.get("asc"):
        cache.clear()
    mech, layers = case["mech"], case["layers"]
    depth = len(layers)
    W = len(layers[0])
    unit = UNIT[mech]
    buf = bootstrap.bufsize()
    if mech == "hdd-plainbase":
        if any(x != DATA for x in layers[0]):
            return  # a Plain base image holds every cluster: only the all-data base map is meaningful

    size = W * unit
    lens = _grown_lens(mech, depth, W)
    if mech.endswith(("-grown", "-grown2")):
        if any(x != ALPHA[mech][0] for k, st in enumerate(layers) for x in st[lens[k]:]):
            return  # the tokens behind the end of a shorter layer do not exist: one representative (all first token)
        layers = [list(st[:lens[k]]) for k, st in enumerate(layers)]
        case = dict(case, layers=layers)
    # reference model: fold top-down
    disk = None
    if mech.startswith("vdi-mixed"):
        size = 4 * unit
        W = 4
        for k, st in enumerate(layers):
            bs, sts = _mixed_layer(st, k, unit, mech.endswith("-up"))
            disk = GuestDisk(size, bs, _to_model_states(mech, sts), k + 1, disk)
    elif mech == "qcow2-ext":
        for k, st in enumerate(layers):
            sub = list(st) + ["u"] * (32 - W)
            disk = GuestDisk(16384, 16384, [DATA], k + 1, disk, {0: _to_model_states(mech, sub)})
        size = 16384
    else:
        psz = _part_sizes(mech, depth, W, unit)
        for k, st in enumerate(layers):
            ul = {i: (pattern.COMPRESSIBLE | (k + 1)) for i, x in enumerate(st) if x == "C"}
            disk = GuestDisk(psz[k] if psz else len(st) * unit, unit, _to_model_states(mech, st), k + 1, disk, unit_layers=ul)
    ctx.model([mech, layers])
    ctx.executions += 1
    ctx.sample(case)
    if "requests" in case or "sector_requests" in case:
        reqs = [tuple(r) for r in case.get("requests", [])]
        sreqs = [tuple(r) for r in case.get("sector_requests", [])]
    else:
        pts = set()
        for u in range(W + 1):
            for dlt in (-512, -1, 0, 1, 512, unit // 2):
                pts.add(u * unit + dlt)
        pts |= {size - 1, size, size + 1}
        for e_ in (_part_sizes(mech, depth, W, unit) or [])[:-1]:
            pts |= {e_ - 512, e_ - 1, e_, e_ + 1, e_ + 512}
        pts = sorted(p for p in pts if 0 <= p <= size + 1)
        reqs = request_pairs(pts)
        spts = sorted({p // 512 for p in pts if p <= size})
        sreqs = request_pairs(spts) if mech.startswith("vmdk") else []
    with ctx.watch(case):
        try:
            top, reader, closer = _open_chain(mech, layers, d, cache, unit)
        except Exception as e:
            ctx.violation(case, {"subject": f"{mech}.chain{depth}.open", "kind": "exception", "exc": type(e).__name__},
                          {"exception": repr(e)[:400]})
            return
        try:
            if top.size != size:
                ctx.violation(case, {"subject": f"{mech}.chain{depth}.size", "kind": "mismatch"},
                              {"got": top.size, "expected": size})
                return
            _count_sources(ctx, disk, reqs)
            compare_reads(ctx, case, top, disk, reqs, f"{mech}.chain{depth}.read")
            if reader is not None and sreqs:
                compare_sector_reads(ctx, case, reader, disk, sreqs, f"{mech}.chain{depth}.read_sectors", 512)
            if hasattr(top, "_verif_hdd"):
                # open(guid) for every shot: the view of layer k is the fold of layers 0..k
                hdd, guids = top._verif_hdd
                m = None
                for k, st in enumerate(layers):
                    vps = _part_sizes(mech, depth, W, unit)
                    m = GuestDisk(vps[k] if vps else len(st) * unit, unit, _to_model_states(mech, st), k + 1, m)
                    if len(st) != W or (vps and k < depth - 1):
                        continue  # the view of a snapshot taken before the disk was enlarged: its size is not stated anywhere
                    for g in (guids[k], guids[k].strip("{}")):
                        view = hdd.open(g)
                        try:
                            compare_reads(ctx, case, view, m, [(0, size), (unit - 1, unit + 2)],
                                          f"{mech}.chain{depth}.open(guid{k})")
                        finally:
                            for _, st_ in view.streams:
                                x = st_
                                n = 0
                                while x is not None and n < 6:
                                    try:
                                        getattr(x, "fh", x).close()
                                    except Exception:
                                        pass
                                    x = getattr(x, "parent", None)
                                    n += 1
        finally:
            closer()


def _open_chain(mech, layers, d, cache, unit):
    """Builds every layer, opens the top through the public API; returns (stream, sector reader | None, closer)."""
    depth = len(layers)
    W = len(layers[-1])  # the top layer's length is the disk's (ancestors of `-grown` chains are shorter)
    grown = mech.endswith(("-grown", "-grown2"))
    psz = _part_sizes(mech, depth, W, unit)
    if grown:
        mech = {"vdi-grown": "vdi", "hdd-grown": "hdd", "vmdk-grown": "vmdk-hosted", "qcow2-grown": "qcow2"}[mech.replace("-grown2", "-grown")]
    if psz:
        mech = {"vdi-grownpart": "vdi", "hdd-grownpart": "hdd", "vmdk-grownpart": "vmdk-hosted"}[mech]
    if mech.startswith("vmdk"):
        from dissect.hypervisor.disk.vmdk import VMDK

        from mc.builders import vmdk as B

        grain = unit // 512
        for k, st in enumerate(layers):
            key = (mech, k, tuple(st), psz[k] if psz else None)
            name = f"l{k}"
            if cache.get(name) == key:
                continue
            sub = os.path.join(d, name)
            os.makedirs(sub, exist_ok=True)
            for fn in os.listdir(sub):
                os.chmod(os.path.join(sub, fn), 0o644)
                os.unlink(os.path.join(sub, fn))
            placed = (DATA,)
            kind = "sesparse" if (mech == "vmdk-sesparse" and k == depth - 1 and k > 0) or (mech == "vmdk-sesparse" and depth == 1) else "hosted"
            split = [len(st)] if not (mech == "vmdk-multi" and k == depth - 1) else [W - 1, 1]
            extents = []
            g0 = 0
            for xi, n in enumerate(split):
                part = st[g0:g0 + n]
                slots = _slots_for(part, k, placed)
                fn = f"{name}-s{xi + 1:03d}.vmdk"
                if kind == "sesparse":
                    img = B.build_sesparse(part, slots, grain, 64, n * grain, layer=k + 1)
                    extents.append(("RW", n * grain, "SESPARSE", fn, None))
                else:
                    # content of extent xi starts at guest grain g0: give the builder the absolute guest position
                    # (vmdk-stream: every layer is a compressed, stream-optimized extent -- deltas of that kind have parents too)
                    img = _hosted_extent(B, part, slots, grain, k + 1, g0, compressed=mech == "vmdk-stream",
                                         capacity=psz[k] // 512 if psz else None)
                    extents.append(("RW", psz[k] // 512 if psz else n * grain, "SPARSE", fn, None))
                if kind == "sesparse" and g0:
                    raise AssertionError
                img.write_to(os.path.join(sub, fn))
                g0 += n
            hint = None
            pcid = "ffffffff"
            if k > 0:
                pcid = f"{k:08x}"
                hint = f"../l{k - 1}/l{k - 1}.vmdk" if k % 2 else f"C:\\vms\\l{k - 1}\\l{k - 1}.vmdk"
            txt = B.descriptor_text("seSparse" if kind == "sesparse" else "twoGbMaxExtentSparse", extents,
                                    cid=f"{k + 1:08x}", parent_cid=pcid, parent_hint=hint)
            with open(os.path.join(sub, name + ".vmdk"), "w") as f:
                f.write(txt)
            cache[name] = key
            for kk in range(k + 1, 4):
                cache.pop(f"l{kk}", None) if False else None
        v = VMDK(Path(d) / f"l{depth - 1}" / f"l{depth - 1}.vmdk")

        def closer():
            x = v
            n = 0
            while x is not None and n < 6:
                for dsk in getattr(x, "disks", []):
                    try:
                        dsk.fh.close()
                    except Exception:
                        pass
                x = getattr(x, "parent", None)
                n += 1

        return v, v.read_sectors, closer
    if mech.startswith("hdd"):
        from dissect.hypervisor.disk.hdd import HDD

        from mc.builders import hdd as B

        spc = unit // 512
        hd = os.path.join(d, "verif.hdd")
        os.makedirs(hd, exist_ok=True)
        guids = [f"{{{k + 1:08x}-0000-4000-8000-000000000000}}" for k in range(depth)]
        if mech != "hdd-top":
            guids[-1] = B.DEFAULT_TOP
        if mech == "hdd-split":
            # two storages (units 0..W-2 and unit W-1), every snapshot has an image in both; the views of all snapshots are
            # opened one after the other on the same HDD object and read across the storage boundary
            per = [[], []]
            shots = []
            for k, st in enumerate(layers):
                for si, (a, b) in enumerate(((0, W - 1), (W - 1, W))):
                    part = list(st[a:b])
                    fn = f"verif.hdd.{si}.{guids[k]}.hds"
                    key = (mech, k, si, tuple(part), guids[k])
                    if cache.get(("f", k, si)) != key:
                        slots = [s + 1 if s is not None else None for s in _slots_for(part, k + si, (DATA,))]
                        img = B.build_hds(part, slots, spc, 2 if (k + si) % 2 == 0 else 1, len(part) * spc, layer=k + 1)
                        if a:
                            img.ext = [(off, kind, ((pl[0], pl[1] + a * unit) if kind == 1 and pl[0] == k + 1 else pl), ln)
                                       for off, kind, pl, ln in img.ext]
                        img.write_to(os.path.join(hd, fn))
                        cache[("f", k, si)] = key
                    per[si].append((guids[k], "Compressed", fn))
                shots.append((guids[k], guids[k - 1] if k else B.NULL_GUID))
            xml = B.descriptor_xml(W * spc, [(0, (W - 1) * spc, per[0][::-1]), ((W - 1) * spc, W * spc, per[1][::-1])], shots[::-1])
            if cache.get("xml") != xml:
                with open(os.path.join(hd, "DiskDescriptor.xml"), "w") as f:
                    f.write(xml)
                cache["xml"] = xml
            hdd = HDD(Path(hd))
            stream = hdd.open()
            stream._verif_hdd = (hdd, guids)

            def closer2():
                for _, st_ in getattr(stream, "streams", []):
                    x, n = st_, 0
                    while x is not None and n < 6:
                        try:
                            getattr(x, "fh", x).close()
                        except Exception:
                            pass
                        x = getattr(x, "parent", None)
                        n += 1

            return stream, None, closer2
        images = []
        shots = []
        for k, st in enumerate(layers):
            fn = f"verif.hdd.0.{guids[k]}.hds"
            plain = mech == "hdd-plainbase" and k == 0
            key = (mech, k, tuple(st), guids[k], psz[k] if psz else None)
            if cache.get(("f", k)) != key:
                if plain:
                    with open(os.path.join(hd, fn), "wb") as f:
                        f.write(pattern.span(1, 0, W * unit))
                else:
                    slots = [s + 1 if s is not None else None for s in _slots_for(st, k, (DATA,))]
                    B.build_hds(st, slots, spc, 2 if k % 2 == 0 else 1, psz[k] // 512 if psz else len(st) * spc, layer=k + 1).write_to(
                        os.path.join(hd, fn))
                cache[("f", k)] = key
            images.append((guids[k], "Plain" if plain else "Compressed", fn))
            shots.append((guids[k], guids[k - 1] if k else B.NULL_GUID))
        top_el = {"hdd": None, "hdd-plainbase": None, "hdd-top": guids[-1], "hdd-topdefault": B.DEFAULT_TOP}[mech]
        xml = B.descriptor_xml(W * spc, [(0, W * spc, images[::-1])], shots[::-1], top_guid=top_el)
        if cache.get("xml") != xml:
            with open(os.path.join(hd, "DiskDescriptor.xml"), "w") as f:
                f.write(xml)
            cache["xml"] = xml
        hdd = HDD(Path(hd))
        stream = hdd.open()
        stream._verif_hdd = (hdd, guids)

        def closer():
            for _, st_ in getattr(stream, "streams", []):
                x = st_
                n = 0
                while x is not None and n < 6:
                    try:
                        getattr(x, "fh", x).close()
                    except Exception:
                        pass
                    x = getattr(x, "parent", None)
                    n += 1

        return stream, None, closer
    if mech in ("qcow2", "qcow2-ext"):
        from dissect.hypervisor.disk.qcow2 import QCow2

        from mc.builders import qcow2 as B

        q = None
        for k, st in enumerate(layers):
            if mech == "qcow2":
                slots = _slots_for(st, k, ("N",))
                img, _ = B.build(list(st), slots, 12, 3 if k % 2 == 0 else 2 if "Z" not in st else 3, layer=k + 1,
                                 backing_name=f"l{k - 1}.qcow2" if k else None,
                                 comp={i: ((0, 1, 511)[(i + k) % 3], 0, False) for i in range(len(st))})
            else:
                sub = list(st) + ["u"] * (32 - W)
                alloc = "a" in sub
                states = [{"kind": "N" if alloc else "U", "sub": sub}]
                img, _ = B.build(states, [k + 1 if alloc else None], 14, 3, ext=True, layer=k + 1,
                                 backing_name=f"l{k - 1}.qcow2" if k else None)
            q = QCow2(img.bytesio(), backing_file=q) if k else QCow2(img.bytesio())
        return q, None, (lambda: None)
    if mech.startswith("vdi-mixed"):
        from dissect.hypervisor.disk.vdi import VDI

        from mc.builders import vdi as B

        v = None
        for k, st in enumerate(layers):
            bs, sts = _mixed_layer(st, k, unit, mech.endswith("-up"))
            img = B.build(sts, _slots_for(sts, k, (DATA,)), bs, layer=k + 1, image_type=4 if k else 1,
                          parent_uuid=b"\x11" * 16 if k else b"")
            v = VDI(img.bytesio(), parent=v) if k else VDI(img.bytesio())
        return v, None, (lambda: None)
    if mech == "vdi":
        from dissect.hypervisor.disk.vdi import VDI

        from mc.builders import vdi as B

        v = None
        for k, st in enumerate(layers):
            slots = _slots_for(st, k, (DATA,))
            img = B.build(list(st), slots, unit, psz[k] if psz else None, layer=k + 1, image_type=4 if k else 1,
                          parent_uuid=b"\x11" * 16 if k else b"")
            v = VDI(img.bytesio(), parent=v) if k else VDI(img.bytesio())
        return v, None, (lambda: None)
    raise ValueError(mech)


def _hosted_extent(B, part, slots, grain, layer, g0, compressed=False, capacity=None):
    """A hosted sparse extent whose grain j holds the pattern of *guest* grain g0 + j (extents are concatenated)."""
    if compressed:
        assert g0 == 0
        return B.build_hosted(part, slots, grain, 512, len(part) * grain, layer=layer, compressed=True, footer=True, stride=grain + 2)
    img = B.build_hosted(part, slots, grain, 512, capacity or len(part) * grain, layer=layer)
    if g0:
        # re-tag payload extents: the builder used guest offsets relative to the extent
        ext = []
        for off, kind, pl, ln in img.ext:
            if kind == 1 and pl[0] == layer:
                pl = (pl[0], pl[1] + g0 * grain * 512)
            ext.append((off, kind, pl, ln))
        img.ext = ext
    return img


def _case_vmdk_absent_table(case, ctx, d):
    from dissect.hypervisor.disk.vmdk import VMDK

    from mc.builders import vmdk as B

    grain, ngte = 8, 512
    tables = 4
    n = tables * ngte + 5
    absent = {"first-absent": {0}, "middle-absent": {1}, "two-absent": {0, 2}}[case["variant"]]
    base_st = [DATA] * n
    top_st = [HOLE] * n
    for t in range(tables + 1):
        if t not in absent:
            for j in (0, 1, 5, ngte - 1):
                g = t * ngte + j
                if g < n:
                    top_st[g] = DATA
    def slots_of(st, k):
        idx = [i for i, x in enumerate(st) if x == DATA]
        order = idx if k == 0 else idx[::-1]
        sl = [None] * len(st)
        for p, i in enumerate(order):
            sl[i] = p
        return sl
    for k, st in enumerate((base_st, top_st)):
        sub = os.path.join(d, f"l{k}")
        os.makedirs(sub, exist_ok=True)
        B.build_hosted(st, slots_of(st, k), grain, ngte, n * grain, layer=k + 1).write_to(os.path.join(sub, f"l{k}-s001.vmdk"))
        with open(os.path.join(sub, f"l{k}.vmdk"), "w") as f:
            f.write(B.descriptor_text("monolithicSparse", [("RW", n * grain, "SPARSE", f"l{k}-s001.vmdk", None)], cid=f"{k + 1:08x}",
                                      parent_cid="00000001" if k else "ffffffff", parent_hint="../l0/l0.vmdk" if k else None))
    disk = GuestDisk(n * grain * 512, grain * 512, top_st, 2, GuestDisk(n * grain * 512, grain * 512, base_st, 1))
    ctx.model(case)
    ctx.executions += 1
    ctx.sample(case)
    ctx.nontrivial += 1
    cov = ngte * grain  # sectors per grain table
    sreqs = []
    for t in sorted(absent):
        s0 = t * cov
        sreqs += [(s0 + 8, cov - 8 + 1), (s0 + 8, cov - 8 + 9), (s0 + 8 * 7 + 3, cov), (s0 + cov - 9, 18), (s0, cov + 8), (s0 + 8, 2 * cov),
                  (max(0, s0 - 8), cov + 24)]
    reqs = [(a * 512, c * 512) for a, c in sreqs] + [(0, n * grain * 512)]
    with ctx.watch(case, 300):
        v = VMDK(Path(d) / "l1" / "l1.vmdk")
        try:
            _count_sources(ctx, disk, reqs)
            compare_sector_reads(ctx, case, v.read_sectors, disk, sreqs, "vmdk.absent-table.read_sectors", 512)
            compare_reads(ctx, case, v, disk, reqs, "vmdk.absent-table.read")
        finally:
            x = v
            while x is not None:
                for dsk in x.disks:
                    try:
                        dsk.fh.close()
                    except Exception:
                        pass
                x = x.parent


def _case_deep_chain(case, ctx):
    """Layer k holds unit k (and every 9th layer also zeroes / rewrites a neighbour); unit u of the top view comes from the
    deepest layer that wrote it -- up to depth-1 levels below the top."""
    mech, depth = case["mech"], case["depth"]
    unit = 4096
    W = depth + 6
    size = W * unit
    ctx.model(case)
    ctx.executions += 1
    ctx.sample(case)
    ctx.nontrivial += 1
    disk = None
    top = None
    with ctx.watch(case, 300):
        for k in range(depth):
            st = [HOLE] * W
            st[k] = DATA
            if k % 9 == 4:
                st[(k + 3) % W] = DATA
            slots = [None] * W
            for n, i in enumerate(j for j in range(W) if st[j] == DATA):
                slots[i] = n
            disk = GuestDisk(size, unit, list(st), k + 1, disk)
            if mech == "vdi":
                from dissect.hypervisor.disk.vdi import VDI

                from mc.builders import vdi as B

                img = B.build(st, slots, unit, layer=k + 1, image_type=4 if k else 1, parent_uuid=b"\x11" * 16 if k else b"")
                top = VDI(img.bytesio(), parent=top) if k else VDI(img.bytesio())
            elif mech == "qcow2":
                from dissect.hypervisor.disk.qcow2 import QCow2

                from mc.builders import qcow2 as B

                qs = ["N" if x == DATA else "U" for x in st]
                img, _ = B.build(qs, slots, 12, 3, layer=k + 1, backing_name="below.qcow2" if k else None)
                top = QCow2(img.bytesio(), backing_file=top) if k else QCow2(img.bytesio())
            else:
                from dissect.hypervisor.disk.hdd import HDS

                from mc.builders import hdd as B

                hs = [s_ + 1 if s_ is not None else None for s_ in slots]
                img = B.build_hds(st, hs, unit // 512, 2 - k % 2, W * (unit // 512), layer=k + 1)
                top = HDS(img.bytesio(), parent=top) if k else HDS(img.bytesio())
        reqs = [(0, size), (unit - 1, 2 * unit + 2), (33 * unit - 5, 3 * unit), ((depth - 1) * unit, 7 * unit), (size - 100, 100)]
        _count_sources(ctx, disk, reqs)
        compare_reads(ctx, case, top, disk, reqs, f"{mech}.deep-chain{depth}.read")


# ---- QCOW2 internal snapshots: every view, interleaved operations on the views (they share caches and the handle) ---
def _shard_qsnap(shard, ctx):
    alpha = ["U", "Z", "N"]
    W = 2
    per = list(itertools.product(alpha, repeat=W))
    for active in per:
        for s1 in per:
            for s2 in (per[0], per[4], per[8]):
                for short_l1 in (False, True, "stale"):
                    for prime in (False, True):
                        for at0 in (False, True):
                            if at0 and short_l1:
                                continue
                            for backing in (False, True):
                                if backing and not (at0 or short_l1):
                                    continue
                                _case_qsnap({"kind": "qcow2-snap", "active": list(active), "snaps": [list(s1), list(s2)],
                                             "short_l1": short_l1, "prime": prime, "at0": at0, "backing": backing}, ctx)


def _case_qsnap(case, ctx):
    from dissect.hypervisor.disk.qcow2 import QCow2

    from mc.builders import qcow2 as B

    cb = 9
    cs = 512
    l2n = cs // 8
    active, snaps = case["active"], case["snaps"]
    W = len(active)
    at = l2n - 1  # the window straddles the first L2 boundary, so the views differ in their L1 tables too
    if case.get("at0"):
        at = 0  # the views differ inside the very first stream buffer
    total = at + W
    # every view stores its own data in its own slots (slot = view * W + i); views never share a slot here
    def slots_of(st, v):
        return [v * W + i if x == "N" else None for i, x in enumerate(st)]

    sdefs = []
    for n, st in enumerate(snaps):
        sdefs.append({"states": st, "slots": slots_of(st, n + 1), "id": str(n + 1), "name": f"snap-{n}", "layer": n + 2,
                      "window_at": at, "l1_size": 1 if (case["short_l1"] and n == 0) else None,
                      # the rest of the snapshot's L1 cluster still holds the entries of a longer table
                      "l1_stale": case["short_l1"] == "stale"})
    backing = case.get("backing")
    img, _ = B.build(active, slots_of(active, 0), cb, 3, None, at, total, snapshots=sdefs,
                     backing_name="base.raw" if backing else None)
    parent = None
    if backing:
        # all views fall through to one shared backing file object for their unallocated clusters
        parent = GuestDisk(total * cs, cs, [DATA] * total, 9)
    models = [B.model(active, cb, None, at, total, 1, parent)]
    for n, st in enumerate(snaps):
        st_eff = list(st)
        if case["short_l1"] and n == 0:
            # a snapshot L1 table with one entry covers only the first L2 table: clusters beyond read as unallocated
            st_eff = [x if (at + i) < l2n else "U" for i, x in enumerate(st)]
        models.append(B.model(st_eff, cb, None, at, total, n + 2, parent))
    ctx.model(case)
    ctx.executions += 1
    ctx.sample(case)
    size = total * cs
    lo = max(0, (at - 1) * cs)
    pts = [lo, lo + 1, max(0, at * cs - 1), at * cs, at * cs + 1, (at + 1) * cs - 1, (at + 1) * cs, (at + 1) * cs + 5, size - 1, size]
    reqs = request_pairs(sorted(set(pts)))
    with ctx.watch(case):
        try:
            if backing:
                from mc.vfile import TrapBytesIO

                q = QCow2(img.bytesio(), backing_file=TrapBytesIO(pattern.span(9, 0, total * cs)))
            else:
                q = QCow2(img.bytesio())
            if case.get("prime"):
                # the active view is used before the snapshot views are opened (views are copies of the active object:
                # whatever the active object has buffered or cached at that moment must not show through)
                views = [q]
                for s in q.snapshots:
                    for a in ((at - 1) * cs + 3, at * cs, 0):
                        q.seek(max(0, a))
                        q.read(cs + 1)
                    q.seek(0)
                    q.read(1)  # leaves the active object positioned inside its first, filled, buffer block
                    views.append(s.open())
            else:
                views = [q] + [s.open() for s in q.snapshots]
        except Exception as e:
            ctx.violation(case, {"subject": "qcow2.snapshot.open", "kind": "exception", "exc": type(e).__name__},
                          {"exception": repr(e)[:300]})
            return
        if len(views) != len(models):
            ctx.violation(case, {"subject": "qcow2.snapshot.count", "kind": "mismatch"}, {"got": len(views)})
            return
        # interleave: for every request, every order of the views (Shape B, depth = number of views)
        orders = list(itertools.permutations(range(len(views))))
        for oi, (a, n) in enumerate(reqs):
            order = orders[oi % len(orders)]
            for vi in order:
                sub = dict(case, requests=[[a, n]])
                _count_sources(ctx, models[vi], [(a, n)])
                if not compare_reads(ctx, sub, views[vi], models[vi], [(a, n)], f"qcow2.snapshot.view{vi}.read"):
                    return


def _case_qsnap_seq(case, ctx):
    """Shape B: the active view reads sequentially (no seeks) while a snapshot view of the same image -- sharing the file
    handle, the L2 cache and the backing file object -- reads elsewhere in between, in every A/B pattern of length 6."""
    from dissect.hypervisor.disk.qcow2 import QCow2

    from mc.builders import qcow2 as B
    from mc.models import StreamModel
    from mc.vfile import TrapBytesIO

    cs, W = 512, 8
    act = ["U", "N", "U", "U", "N", "U", "Z", "U"]
    snp = ["N", "U", "U", "N", "U", "U", "U", "N"]
    if case.get("layout") == "contig":
        act = ["N"] * W
        snp = ["N"] * 5 + ["U", "N", "N"]
    sl = lambda st, base: [base + i if x == "N" else None for i, x in enumerate(st)]  # noqa: E731
    backing = case["backing"]
    datafile = bool(case.get("datafile"))
    img, dimg = B.build(act, sl(act, 0), 9, 3, W * cs - 100, snapshots=[{"states": snp, "slots": sl(snp, W), "layer": 2}],
                        backing_name="b.raw" if backing else None, data_file=datafile)
    parent = GuestDisk(W * cs - 100, cs, [DATA] * W, 9) if backing else None
    models = [StreamModel(B.model(act, 9, W * cs - 100, layer=1, parent=parent)),
              StreamModel(B.model(snp, 9, W * cs - 100, layer=2, parent=parent))]
    ctx.model(case)
    ctx.executions += 1
    ctx.sample(case)
    ctx.nontrivial += 1
    with ctx.watch(case):
        kw = {"backing_file": TrapBytesIO(pattern.span(9, 0, W * cs - 100))} if backing else {}
        if datafile:
            kw["data_file"] = dimg.bytesio()
        q = QCow2(img.bytesio(), **kw)
        views = [q, q.snapshots[0].open()]
        views[1].seek(case["bpos"] * cs + 7)
        models[1].apply(("seek", case["bpos"] * cs + 7, 0))
        for step, who in enumerate(case["pattern"]):
            vi = 0 if who == "A" else 1
            n = 700 if vi == 0 else 600
            ctx.transitions += 1
            ctx.states += 1
            exp = models[vi].apply(("read", n))
            try:
                got = views[vi].read(n)
            except Exception as e:
                ctx.violation(case, {"subject": "qcow2.snapshot.sequential", "kind": "exception", "exc": type(e).__name__},
                              {"step": step, "exception": repr(e)[:200]})
                return
            if got != exp:
                ctx.violation(case, {"subject": "qcow2.snapshot.sequential", "kind": "mismatch", "view": vi},
                              {"step": step, "pattern": case["pattern"], "len_got": len(got), "len_expected": len(exp)})
                return
            for s_ in {models[vi].disk.source(max(0, models[vi].pos - 1))}:
                ctx.outcome(s_)


# ---- parent resolution configurations (VMDK, QCOW2 opt-out, Parallels) ---------------------------------------------
def _shard_locate(shard, ctx):
    for cfg in ("vmdk-same-dir", "vmdk-relative", "vmdk-backslash-abs", "vmdk-sibling-dir", "vmdk-missing",
                "vmdk-embedded-missing", "vmdk-embedded-found", "vmdk-embedded-nameless-handle", "vmdk-embedded-nameless-list",
                "vmdk-text-descriptor-nameless-handle", "vmdk-embedded-stale-hint", "vmdk-embedded-missing-no-extent-lines",
                "qcow2-none-given", "qcow2-optout", "qcow2-given", "hdd-missing-image", "hdd-moved-absolute",
                "hdd-missing-image-element", "hdd-missing-image-element-second-storage"):
        run_case({"kind": "locate", "cfg": cfg}, ctx)


def _case_locate(case, ctx, d):
    cfg = case["cfg"]
    ctx.executions += 1
    ctx.model(case)
    ctx.sample(case)
    grain = 8
    unit = 4096
    base_states, top_states = [DATA, DATA, HOLE], [HOLE, DATA, HOLE]
    parent = GuestDisk(3 * unit, unit, base_states, 1)
    disk = GuestDisk(3 * unit, unit, top_states, 2, parent)
    alone = GuestDisk(3 * unit, unit, top_states, 2)
    reqs = [(0, 3 * unit), (0, 512), (unit - 1, 2), (2 * unit, 100)]
    expect_fail = cfg in ("vmdk-missing", "vmdk-embedded-missing", "qcow2-none-given", "hdd-missing-image",
                          "hdd-missing-image-element", "hdd-missing-image-element-second-storage",
                          "vmdk-embedded-nameless-handle", "vmdk-embedded-nameless-list", "vmdk-text-descriptor-nameless-handle",
                          "vmdk-embedded-missing-no-extent-lines")
    optout = cfg in ("qcow2-optout", "vmdk-embedded-stale-hint")
    # the working directory holds look-alikes of every file name the scenarios use: parents, extents and images are looked for
    # relative to the file that names them, never relative to the working directory
    decoy = os.path.join(d, "cwd-with-lookalikes")
    os.makedirs(decoy, exist_ok=True)
    g0_ = "{00000001-0000-4000-8000-000000000000}"
    from mc.builders import hdd as _BH

    from mc.builders import vmdk as _BV

    # (well-formed look-alikes holding other data: a reader that picks them up serves them instead of failing on them)
    _BV.build_hosted([DATA] * 3, [0, 1, 2], grain, layer=9).write_to(os.path.join(decoy, "base-s001.vmdk"))
    _BV.build_hosted([DATA] * 3, [2, 1, 0], grain, layer=9).write_to(os.path.join(decoy, "top-s001.vmdk"))
    for nm in ("base.vmdk", "top.vmdk"):
        with open(os.path.join(decoy, nm), "w") as f:
            f.write(_BV.descriptor_text("monolithicSparse", [("RW", 3 * grain, "SPARSE", nm.replace(".vmdk", "-s001.vmdk"), None)],
                                        cid="00000001"))
    for nm in ("disk.hdd.0." + g0_ + ".hds", "disk.hdd.0." + _BH.DEFAULT_TOP + ".hds"):
        _BH.build_hds([DATA] * 3, [1, 2, 3], grain, 2, 3 * grain, layer=9).write_to(os.path.join(decoy, nm))
    for nm in ("base.qcow2", "DiskDescriptor.xml"):
        with open(os.path.join(decoy, nm), "wb") as f:
            f.write(b"\x55" * 4096)
    cwd = os.getcwd()
    with ctx.watch(case):
        try:
            os.chdir(decoy)
            try:
                stream = _open_locate(cfg, d, grain, base_states, top_states)
            finally:
                os.chdir(cwd)
        except Exception as e:
            if expect_fail:
                ctx.outcome("refused")
                ctx.nontrivial += 1
            else:
                ctx.violation(case, {"subject": "locate", "kind": "exception", "cfg": cfg, "exc": type(e).__name__},
                              {"exception": repr(e)[:300]})
            return
        if expect_fail:
            try:
                got = stream.read(512)
            except Exception:
                ctx.outcome("refused-late")
                ctx.nontrivial += 1
                return
            ctx.violation(case, {"subject": "locate", "kind": "child-served-alone", "cfg": cfg}, {"read": got[:16].hex()})
            return
        ctx.outcome("optout" if optout else "resolved")
        ctx.nontrivial += 1
        compare_reads(ctx, case, stream, alone if optout else disk, reqs, "locate." + cfg)


def _open_locate(cfg, d, grain, base_states, top_states):
    from mc.builders import hdd as BH
    from mc.builders import qcow2 as BQ
    from mc.builders import vmdk as BV

    W = len(top_states)
    if cfg.startswith("vmdk"):
        from dissect.hypervisor.disk.vmdk import VMDK

        vm = os.path.join(d, "vm")
        old = os.path.join(d, "old")
        os.makedirs(vm)
        os.makedirs(old)
        where = {"vmdk-same-dir": vm, "vmdk-relative": old, "vmdk-backslash-abs": vm, "vmdk-sibling-dir": old,
                 "vmdk-missing": None, "vmdk-embedded-missing": None, "vmdk-embedded-found": vm,
                 "vmdk-embedded-missing-no-extent-lines": None}.get(cfg, vm)
        hint = {"vmdk-same-dir": "base.vmdk", "vmdk-relative": "../old/base.vmdk",
                "vmdk-backslash-abs": "C:\\Users\\x\\vm\\base.vmdk", "vmdk-sibling-dir": "/somewhere/else/old/base.vmdk",
                "vmdk-missing": "base.vmdk", "vmdk-embedded-missing": "base.vmdk", "vmdk-embedded-found": "base.vmdk"}.get(cfg, "base.vmdk")
        if where:
            BV.build_hosted(base_states, _slots_for(base_states, 0, (DATA,)), grain, layer=1).write_to(
                os.path.join(where, "base-s001.vmdk"))
            with open(os.path.join(where, "base.vmdk"), "w") as f:
                f.write(BV.descriptor_text("monolithicSparse", [("RW", W * grain, "SPARSE", "base-s001.vmdk", None)],
                                           cid="00000001"))
        if cfg.startswith("vmdk-embedded"):
            txt = BV.descriptor_text("monolithicSparse", [("RW", W * grain, "SPARSE", "top.vmdk", None)], cid="00000002",
                                     parent_cid="00000001", parent_hint=hint)
            if cfg == "vmdk-embedded-stale-hint":
                # parentCID says "no parent"; a parentFileNameHint left over from earlier names an existing disk: no parent
                txt = BV.descriptor_text("monolithicSparse", [("RW", W * grain, "SPARSE", "top.vmdk", None)], cid="00000002",
                                         parent_cid="ffffffff", parent_hint=hint)
            if cfg == "vmdk-embedded-missing-no-extent-lines":
                # the descriptor names a parent and has no (recognisable) extent line; the parent is missing
                txt = "\n".join(ln for ln in txt.split("\n") if not ln.startswith("RW ")) + "\nRW\t%d\tSPARSE\t\"top.vmdk\"\n" % (W * grain)
            timg = BV.build_hosted(top_states, _slots_for(top_states, 1, (DATA,)), grain, layer=2, descriptor=txt)
            if cfg == "vmdk-embedded-nameless-handle":
                # a delta handed over as an object without a name: there is nowhere to look for the parent it names -- it
                # cannot be served alone (the parent exists on disk, which makes no difference)
                import io as _io

                return VMDK(_io.BytesIO(timg.tobytes()))
            if cfg == "vmdk-embedded-nameless-list":
                import io as _io

                return VMDK([_io.BytesIO(timg.tobytes())])
            timg.write_to(os.path.join(vm, "top.vmdk"))
            return VMDK(Path(vm) / "top.vmdk")
        if cfg == "vmdk-text-descriptor-nameless-handle":
            import io as _io

            BV.build_hosted(top_states, _slots_for(top_states, 1, (DATA,)), grain, layer=2).write_to(os.path.join(vm, "top-s001.vmdk"))
            return VMDK(_io.BytesIO(BV.descriptor_text("monolithicSparse", [("RW", W * grain, "SPARSE", "top-s001.vmdk", None)],
                                                       cid="00000002", parent_cid="00000001", parent_hint=hint).encode()))
        BV.build_hosted(top_states, _slots_for(top_states, 1, (DATA,)), grain, layer=2).write_to(
            os.path.join(vm, "top-s001.vmdk"))
        with open(os.path.join(vm, "top.vmdk"), "w") as f:
            f.write(BV.descriptor_text("monolithicSparse", [("RW", W * grain, "SPARSE", "top-s001.vmdk", None)],
                                       cid="00000002", parent_cid="00000001", parent_hint=hint))
        return VMDK(Path(vm) / "top.vmdk")
    if cfg.startswith("qcow2"):
        from dissect.hypervisor.disk import qcow2 as Q

        m = {HOLE: "U", DATA: "N"}
        base, _ = BQ.build([m[x] for x in base_states], _slots_for(base_states, 0, (DATA,)), 12, 3, layer=1)
        top, _ = BQ.build([m[x] for x in top_states], _slots_for(top_states, 1, (DATA,)), 12, 3, layer=2,
                          backing_name="base.qcow2", backing_format="qcow2")
        if cfg == "qcow2-none-given":
            return Q.QCow2(top.bytesio())
        if cfg == "qcow2-optout":
            return Q.QCow2(top.bytesio(), backing_file=Q.ALLOW_NO_BACKING_FILE)
        return Q.QCow2(top.bytesio(), backing_file=Q.QCow2(base.bytesio()))
    if cfg.startswith("hdd"):
        from dissect.hypervisor.disk.hdd import HDD

        spc = grain
        pvm = os.path.join(d, "new.pvm")
        hd = os.path.join(pvm, "disk.hdd")
        os.makedirs(hd)
        g0 = "{00000001-0000-4000-8000-000000000000}"
        files = {g0: "disk.hdd.0." + g0 + ".hds", BH.DEFAULT_TOP: "disk.hdd.0." + BH.DEFAULT_TOP + ".hds"}
        slots0 = [s + 1 if s is not None else None for s in _slots_for(base_states, 0, (DATA,))]
        slots1 = [s + 1 if s is not None else None for s in _slots_for(top_states, 1, (DATA,))]
        if cfg != "hdd-missing-image":
            BH.build_hds(base_states, slots0, spc, 2, W * spc, layer=1).write_to(os.path.join(hd, files[g0]))
        BH.build_hds(top_states, slots1, spc, 2, W * spc, layer=2).write_to(os.path.join(hd, files[BH.DEFAULT_TOP]))
        prefix = "/Users/someone/Parallels/old.pvm/disk.hdd/" if cfg == "hdd-moved-absolute" else ""
        images = [(g0, "Compressed", prefix + files[g0]), (BH.DEFAULT_TOP, "Compressed", prefix + files[BH.DEFAULT_TOP])]
        storages = [(0, W * spc, images)]
        if cfg == "hdd-missing-image-element":
            # the snapshot chain names the base, the storage lists no image for it (the file itself lies in the bundle)
            storages = [(0, W * spc, images[1:])]
        elif cfg == "hdd-missing-image-element-second-storage":
            # two storages; the second one lists only the top snapshot's image
            for k_, g_ in enumerate((g0, BH.DEFAULT_TOP)):
                BH.build_hds([HOLE, DATA][k_:k_ + 1] or [HOLE], [None, 1][k_:k_ + 1], spc, 2, spc, layer=k_ + 1).write_to(
                    os.path.join(hd, "disk.hdd.1." + g_ + ".hds"))
            storages = [(0, W * spc, images), (W * spc, (W + 1) * spc, [(BH.DEFAULT_TOP, "Compressed", "disk.hdd.1." + BH.DEFAULT_TOP + ".hds")])]
        xml = BH.descriptor_xml(storages[-1][1], storages, [(g0, BH.NULL_GUID), (BH.DEFAULT_TOP, g0)])
        with open(os.path.join(hd, "DiskDescriptor.xml"), "w") as f:
            f.write(xml)
        return HDD(Path(hd)).open()
    raise ValueError(cfg)
