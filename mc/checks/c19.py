"""C19 -- XML descriptors are parsed without entity expansion or external fetches.   Fault enumeration + audit monitor."""
from __future__ import annotations

import io
import itertools
import os
from pathlib import Path

from mc import monitors
from mc.scratch import scratch_dir

PROPERTY = "C19"
LEVEL = "fault_enumeration"
TECHNIQUE = "exhaustive enumeration of hostile document families at every XML entry point under an OS-level audit monitor"
RULE = ("entry point {OVF, VBox, PVS, Parallels DiskDescriptor via HDD(path)} x handle kind {text, binary} x document size "
        "{small, > 64 KiB, > 256 KiB} x hostile family {internal general entity, nested "
        "entity chain ('laughs' shape, factor 10 per level), external general entity file:// and http://127.0.0.1:<closed>, "
        "internal / external parameter entity, external DTD subset without entity declarations, DOCTYPE without declarations, "
        "plain} x nesting depth 1..6 x reference site {text, attribute, unused}; every sequence of two documents over entry point x "
        "{plain, reference to an undeclared entity, internal, nested, external} and every triple over {PVS, HDD, OVF} x {plain, "
        "undeclared reference, nested}, descriptors at one path also with identical size and timestamps. Oracle: a document that declares an entity is "
        "refused (any exception) and neither the canary file nor any socket / urllib event is seen; documents without entity "
        "declarations parse to the same disk list as the plain document. non-trivial = document that declares an entity")
ASSUMPTIONS = [
    "'declares entities' = the DTD internal subset contains an <!ENTITY ...> declaration (general or parameter); a DOCTYPE with "
    "only an external subset reference and no declaration is not an entity declaration and must parse (without fetching)",
    "file and network access is observed through CPython audit events (open, socket.*, urllib.*) raised in the worker process",
    "a DTD that re-declares one of the five predefined entities (XML 1.0 section 4.6) is not counted as declaring entities: expat "
    "drops such declarations without reporting or using them, so there is nothing to expand or fetch; either answer is accepted",
    "'cannot consume memory': the traced peak while a declaring document is refused stays below 12 x its size + 2 MiB (the "
    "unchanged library needs at most 7 copies of the text); the amplified family expands to 3 MiB from 66 KiB",
]
ALPHABET = "entry point x family x depth x reference site"
BOUND = {"quick": "4 entry points x 13 families x depth 1..6 x 3 sites; all pairs, triples over 3 entry points x 3 kinds",
         "thorough": "depth 1..10; every triple over 4 entry points x 5 kinds (8000 sequences)"}
EXPECT_OUTCOMES = ["refused", "parsed"]

ENTRY = ["ovf", "vbox", "pvs", "hdd"]
FAMILIES = ["internal", "laughs", "external-file", "external-http", "param-internal", "param-external", "external-dtd",
            "doctype-only", "plain", "predefined-redeclared", "predefined-case-variant", "unparsed", "internal-empty",
            "external-empty-sysid", "param-empty", "internal-empty-unused", "amplified"]
# entity names that case-fold to one of the five predefined names (expat only hard-wires the exact lower-case spellings)
CASE_VARIANTS = ["AMP", "LT", "Gt", "Apos", "QUOT", "aMp"]
SITES = ["text", "attribute", "unused"]


ALT_NS = {"vbox": ["http://www.innotek.de/VirtualBox-settings", "urn:other"],
          "ovf": ["http://schemas.dmtf.org/ovf/envelope/2", "urn:other"], "pvs": ["urn:parallels:pvs"], "hdd": ["urn:parallels:hdd"]}
SEQ_KINDS = ["plain", "undeclared-reference", "internal", "laughs", "external-file"]
# "plain-v": a document without any declaration whose content equals what the "internal" document expands to


def shards(tier):
    out = [{"entry": e, "tier": tier} for e in ENTRY] + [{"seq": "pairs", "slice": [i, 4]} for i in range(4)] + \
        [{"seq": "triples", "slice": [i, 4]} for i in range(4)]
    out.append({"linked": True})
    out.append({"nodep": True})
    out.append({"rewritten": True})
    if tier != "quick":
        out += [{"seq": "triples-full", "slice": [i, 16]} for i in range(16)]
    return out


def _run_linked(case, ctx):
    """A clean Parallels disk whose image lives in another .hdd directory (linked clone / template); that directory has a
    DiskDescriptor.xml of its own which declares entities.  Opening and reading the clean disk neither expands nor fetches
    anything from the neighbour, and the image is read as the clean descriptor says (Plain)."""
    from dissect.hypervisor.disk.hdd import HDD

    from mc import pattern
    from mc.builders import hdd as B

    fam, how = case["family"], case["how"]
    ctx.executions += 1
    ctx.model(case)
    ctx.sample(case)
    ctx.nontrivial += 1
    with scratch_dir() as d:
        canary = os.path.join(d, "canary-secret")
        with open(canary, "w") as f:
            f.write("Compressed")
        with open(canary + ".dtd", "w") as f:
            f.write('<!ENTITY t "Compressed">')
        tdir = os.path.join(d, "template.pvm", "template.hdd")
        cdir = os.path.join(d, "clone.pvm", "clone.hdd")
        os.makedirs(tdir)
        os.makedirs(cdir)
        data = pattern.sectors(3, 0, 16)
        with open(os.path.join(tdir, "template.hds"), "wb") as f:
            f.write(data)
        ref = os.path.join(tdir, "template.hds") if how == "absolute" else "../../template.pvm/template.hdd/template.hds"
        good = B.descriptor_xml(16, [(0, 16, [(B.DEFAULT_TOP, "Plain", ref)])], [(B.DEFAULT_TOP, B.NULL_GUID)])
        with open(os.path.join(cdir, "DiskDescriptor.xml"), "w") as f:
            f.write(good)
        decl = {"internal": '<!ENTITY t "Compressed">', "laughs": '<!ENTITY a "Comp"><!ENTITY b "&a;ressed"><!ENTITY t "&b;">',
                "external-file": f'<!ENTITY t SYSTEM "file://{canary}">',
                "param-external": f'<!ENTITY % ext SYSTEM "file://{canary}.dtd"> %ext;'}[fam]
        hostile = B.descriptor_xml(16, [(0, 16, [(B.DEFAULT_TOP, "Plain", "template.hds")])], [(B.DEFAULT_TOP, B.NULL_GUID)])
        hostile = hostile.replace("<Type>Plain</Type>", "<Type>&t;</Type>")
        head, sep, rest = hostile.partition("?>")
        hostile = (head + sep + f"<!DOCTYPE Parallels_disk_image [{decl}]>" + rest) if sep else f"<!DOCTYPE Parallels_disk_image [{decl}]>" + hostile
        with open(os.path.join(tdir, "DiskDescriptor.xml"), "w") as f:
            f.write(hostile)
        ctx.transitions += 1
        ctx.states += 1
        got = exc = None
        with ctx.watch(case, 120):
            with monitors.armed() as events:
                try:
                    s = HDD(Path(cdir)).open()
                    got = s.read(16 * 512)
                except Exception as e:
                    exc = e
            evs = list(events)
        bad = [e for e in evs if monitors.classify(e) == "network" or (e[0] == "open" and e[1] and isinstance(e[1][0], str)
                                                                       and "canary" in e[1][0])]
        if bad:
            ctx.violation(case, {"subject": "xml.hdd-linked", "kind": "external-access", "family": fam},
                          {"events": [repr(e)[:200] for e in bad[:3]]})
            return
        if exc is not None or got != data:
            ctx.violation(case, {"subject": "xml.hdd-linked", "kind": "benign-document-misparsed", "family": fam},
                          {"exception": repr(exc)[:200], "len": None if got is None else len(got)})
            return
        ctx.outcome("parsed")


NODEP_CODE = r"""
import json, os, sys, tempfile
sys.modules["defusedxml"] = None            # `import defusedxml` raises ImportError in this interpreter
sys.path.insert(0, sys.argv[1])
from mc import bootstrap
try:
    bootstrap.activate(None)                # imports the package of the tree under test
except ImportError as e:
    print(json.dumps({"refused": "ImportError at import of the package"}))
    sys.exit(0)
from mc.checks import c19
entry, fam = sys.argv[2], sys.argv[3]
d = tempfile.mkdtemp(dir=sys.argv[4])
canary = os.path.join(d, "canary-secret")
for p in (canary, canary + ".dtd"):
    open(p, "w").write('<!ENTITY g "leaked">' if p.endswith(".dtd") else "TOP-SECRET")
doc, expect = c19._document(entry, fam, 3, "text", canary)
try:
    res = c19._parse(entry, doc, d)
    print(json.dumps({"accepted": repr(res)[:300]}))
except BaseException as e:
    print(json.dumps({"refused": type(e).__name__}))
"""


def _run_nodep(case, ctx):
    """The hardened parser cannot be imported in this interpreter (a stripped-down installation): the entry points then fail
    (ImportError is a refusal) -- they do not fall back to a parser that expands entities."""
    import json
    import subprocess
    import sys

    from mc.bootstrap import repo_root

    ctx.executions += 1
    ctx.model(case)
    ctx.sample(case)
    ctx.nontrivial += 1
    ctx.transitions += 1
    ctx.states += 1
    verif = os.path.dirname(os.path.dirname(os.path.dirname(os.path.abspath(__file__))))
    with scratch_dir() as d:
        env = dict(os.environ, VERIF_REPO=repo_root(), PYTHONDONTWRITEBYTECODE="1")
        p = subprocess.run([sys.executable, "-c", NODEP_CODE, verif, case["entry"], case["family"], d], capture_output=True, text=True,
                           timeout=120, env=env, cwd=d)
    try:
        res = json.loads(p.stdout.strip().splitlines()[-1])
    except Exception:
        raise AssertionError(f"harness: no answer from the interpreter without defusedxml: {p.stdout[-300:]} {p.stderr[-600:]}")
    if "accepted" in res:
        ctx.violation(case, {"subject": f"{case['entry']}.without-hardened-parser", "kind": "declaring-document-accepted",
                             "family": case["family"]}, {"result": res["accepted"]})
        return
    ctx.outcome("refused")
    ctx.extra["nodep." + res["refused"]] += 1


def _run_rewritten(case, ctx):
    """An HDD object built on a benign descriptor; the descriptor file is then replaced by a hostile one (other size and
    time stamp); open() on the existing object either keeps using what it parsed or refuses -- it never expands."""
    from dissect.hypervisor.disk.hdd import HDD

    from mc.builders import hdd as B

    ctx.executions += 1
    ctx.model(case)
    ctx.sample(case)
    ctx.nontrivial += 1
    ctx.transitions += 1
    ctx.states += 1
    with scratch_dir() as d:
        hd = os.path.join(d, "x.hdd")
        os.makedirs(hd)
        canary = os.path.join(d, "canary-secret")
        for p_ in (canary, canary + ".dtd"):
            with open(p_, "w") as f:
                f.write('<!ENTITY g "leaked">' if p_.endswith(".dtd") else "TOP-SECRET")
        benign, _ = _document("hdd", "plain", 1, "text", canary)
        hostile, _ = _document("hdd", case["family"], 3, "text", canary)
        dp = os.path.join(hd, "DiskDescriptor.xml")
        with open(dp, "w") as f:
            f.write(benign)
        os.utime(dp, ns=(1_600_000_000_000_000_000, 1_600_000_000_000_000_000))
        B.build_hds(["D"], [1], 8, 2, 8).write_to(os.path.join(hd, "x.hds"))
        with ctx.watch(case, 60):
            h = HDD(Path(hd))
            def snap():
                from xml.etree.ElementTree import tostring

                return tostring(h.descriptor.xml)

            before = snap()
            with open(dp, "w") as f:
                f.write(hostile)
            raised = None
            try:
                st = h.open()
                for _, x in getattr(st, "streams", []):
                    try:
                        getattr(x, "fh", x).close()
                    except Exception:
                        pass
            except Exception as e:
                raised = e
            after = snap()
        # the object either keeps what it parsed, or refuses; a changed tree means the declaring document was parsed and accepted
        if after != before:
            ctx.violation(case, {"subject": "xml.hdd-rewritten", "kind": "declaring-document-accepted-after-rewrite",
                                 "family": case["family"]}, {"raised": repr(raised)[:200], "after": after[:300].decode("utf-8", "replace")})
            return
    ctx.outcome("refused")


def run_shard(shard, ctx):
    if shard.get("rewritten"):
        for fam in ("internal", "laughs", "external-file", "param-internal"):
            run_case({"rewritten": True, "family": fam}, ctx)
        return
    if shard.get("nodep"):
        for e in ENTRY:
            for fam in ("internal", "laughs", "external-file"):
                run_case({"nodep": True, "entry": e, "family": fam}, ctx)
        return
    if shard.get("linked"):
        for fam in ("internal", "laughs", "external-file", "param-external"):
            for how in ("absolute", "relative"):
                run_case({"linked": True, "family": fam, "how": how}, ctx)
        return
    if "seq" in shard:
        # Shape B: sequences of documents handed to objects of any of the four classes in one process: what an earlier
        # document did (even one that failed) must not change how a later one is treated
        steps = [(e, k) for e in ENTRY for k in SEQ_KINDS]
        if shard["seq"] == "pairs":
            space = itertools.product(steps, repeat=2)
        elif shard["seq"] == "triples-full":
            space = itertools.product(steps, repeat=3)
        else:
            sub = [(e, k) for e in ("pvs", "hdd", "ovf") for k in ("plain", "undeclared-reference", "laughs")]
            space = itertools.product(sub, repeat=3)
        i, k = shard["slice"]
        for n, seq in enumerate(space):
            if n % k != i:
                continue
            for samestat in ((False, True) if sum(1 for e, _ in seq if e == "hdd") >= 2 else (False,)):
                run_case({"sequence": [list(x) for x in seq], "samestat": samestat}, ctx)
        if shard["seq"] == "pairs" and i == 0:
            # large documents (40 / 70 KiB of comment padding): first the entity-free twin of a hostile document (identical once
            # entities are expanded and comments dropped), then the hostile one -- and the other way round
            for e in ENTRY:
                for pad in (40000, 70000):
                    for seq in ([[e, "plain-v"], [e, "internal"]], [[e, "internal"], [e, "plain-v"], [e, "internal"]],
                                [[e, "plain-v"], [e, "plain-v"], [e, "laughs"]]):
                        run_case({"sequence": seq, "samestat": False, "pad": pad}, ctx)
        return
    for fam in FAMILIES:
        deep = 7 if shard.get("tier", "quick") == "quick" else 11
        depths = range(1, deep) if fam in ("laughs", "internal", "param-internal", "predefined-case-variant") else (1,)
        if fam == "amplified":
            depths = (1, 2)
        for depth in depths:
            for site in SITES:
                handles = ("text", "bytes") if shard["entry"] != "hdd" else ("text",)
                if shard["entry"] != "hdd" and depth <= 2 and site == "text":
                    handles += ("text+forward-only", "bytes+forward-only", "text+offset", "bytes+offset")
                for handle in handles:
                    for pad in ((0, 70000, 300000) if depth == 1 and site != "attribute" else (0,)):
                        run_case({"entry": shard["entry"], "family": fam, "depth": depth, "site": site, "handle": handle,
                                  "pad": pad}, ctx)
                    if depth <= 2 and site == "text":
                        # the same documents in another (older / newer / foreign) namespace: what such a document yields is not
                        # specified here, that it is refused when it declares entities is
                        for ns in ALT_NS[shard["entry"]]:
                            run_case({"entry": shard["entry"], "family": fam, "depth": depth, "site": site, "handle": handle,
                                      "pad": 0, "altns": ns}, ctx)
                    if shard["entry"] == "hdd" and depth <= 2:
                        # benign copies of the descriptor next to it (Parallels keeps DiskDescriptor.xml.Backup)
                        run_case({"entry": "hdd", "family": fam, "depth": depth, "site": site, "handle": handle, "pad": 0,
                                  "siblings": True}, ctx)
                    if depth == 1 and site == "text":
                        # what may legally stand between the XML declaration and the DOCTYPE
                        for prolog in ("pi", "comment", "whitespace", "pi+comment", "no-declaration", "leading-blank-lines",
                                       "leading-space", "leading-bom", "no-declaration-leading-blank"):
                            run_case({"entry": shard["entry"], "family": fam, "depth": depth, "site": site, "handle": handle,
                                      "pad": 0, "prolog": prolog}, ctx)
                        if handle == "bytes":
                            for enc in ("utf-16", "utf-16-le-bom", "iso-8859-1", "gbk", "shift_jis", "big5", "euc-kr"):
                                run_case({"entry": shard["entry"], "family": fam, "depth": depth, "site": site,
                                          "handle": handle, "pad": 0, "encoding": enc}, ctx)


def _doctype(fam, depth, canary, root):
    if fam == "plain":
        return "", None
    if fam == "doctype-only":
        return f"<!DOCTYPE {root}>", None
    if fam == "external-dtd":
        return f'<!DOCTYPE {root} SYSTEM "file://{canary}.dtd">', None
    if fam == "internal":
        decls = ['<!ENTITY e0 "v">'] + [f'<!ENTITY e{i} "&e{i - 1};">' for i in range(1, depth)]
        return f"<!DOCTYPE {root} [{''.join(decls)}]>", f"&e{depth - 1};"
    if fam == "laughs":
        decls = ['<!ENTITY lol0 "lol">'] + [f'<!ENTITY lol{i} "{"&lol%d;" % (i - 1) * 10}">' for i in range(1, depth + 3)]
        return f"<!DOCTYPE {root} [{''.join(decls)}]>", f"&lol{depth + 2};"
    if fam == "amplified":
        # one 64 KiB entity (depth 2: built from eight references to an 8 KiB one) referenced 48 times: 3 MiB once expanded,
        # below the parser's own amplification guard.  Refusing it must not cost what expanding it costs
        if depth == 1:
            decls = f'<!ENTITY big "{"x" * 65536}">'
        else:
            decls = f'<!ENTITY part "{"y" * 8192}"><!ENTITY big "{"&part;" * 8}">'
        return f"<!DOCTYPE {root} [{decls}]>", "&big;" * 48
    if fam == "predefined-redeclared":
        # XML 1.0 4.6 allows documents to declare the predefined entities; it still is an entity declaration
        return f'<!DOCTYPE {root} [<!ENTITY lt "&#38;#60;"><!ENTITY amp "&#38;#38;"><!ENTITY quot "&#34;">]>', "&amp;"
    if fam == "predefined-case-variant":
        nm = CASE_VARIANTS[(depth - 1) % len(CASE_VARIANTS)]
        return f'<!DOCTYPE {root} [<!ENTITY {nm} "expanded-{nm}">]>', f"&{nm};"
    if fam == "unparsed":
        return f'<!DOCTYPE {root} [<!NOTATION n SYSTEM "n"><!ENTITY pic SYSTEM "file://{canary}" NDATA n>]>', None
    if fam == "external-empty-sysid":
        return f'<!DOCTYPE {root} [<!ENTITY self SYSTEM "">]>', None
    if fam == "param-empty":
        return f"<!DOCTYPE {root} [<!ENTITY % pad ''>]>", None
    if fam == "internal-empty-unused":
        return f'<!DOCTYPE {root} [<!ENTITY pad "">]>', None
    if fam == "internal-empty":
        return f'<!DOCTYPE {root} [<!ENTITY e "">]>', "&e;"
    if fam == "external-file":
        return f'<!DOCTYPE {root} [<!ENTITY xxe SYSTEM "file://{canary}">]>', "&xxe;"
    if fam == "external-http":
        return f'<!DOCTYPE {root} [<!ENTITY xxe SYSTEM "http://127.0.0.1:9/verif-canary">]>', "&xxe;"
    if fam == "param-internal":
        decls = ['<!ENTITY % p0 "<!ENTITY g \'v\'>">'] + [f'<!ENTITY % p{i} "%p{i - 1};">' for i in range(1, depth)]
        return f"<!DOCTYPE {root} [{''.join(decls)} %p{depth - 1};]>", "&g;"
    if fam == "param-external":
        return f'<!DOCTYPE {root} [<!ENTITY % ext SYSTEM "file://{canary}.dtd"> %ext;]>', "&g;"
    raise ValueError(fam)


def _document(entry, fam, depth, site, canary):
    root = {"ovf": "Envelope", "vbox": "VirtualBox", "pvs": "ParallelsVirtualMachine", "hdd": "Parallels_disk_image"}[entry]
    doctype, ref = _doctype(fam, depth, canary, root)
    txt = ref if (ref and site == "text") else ""
    att = ref if (ref and site == "attribute") else ""
    head = '<?xml version="1.0"?>' + doctype
    if entry == "ovf":
        ns = ('xmlns="http://schemas.dmtf.org/ovf/envelope/1" xmlns:ovf="http://schemas.dmtf.org/ovf/envelope/1" '
              'xmlns:rasd="http://schemas.dmtf.org/wbem/wscim/1/cim-schema/2/CIM_ResourceAllocationSettingData"')
        body = (f'<Envelope {ns}><References><File ovf:id="file1" ovf:href="disk1{att}.vmdk"/></References><DiskSection>'
                f'<Info>{txt}</Info><Disk ovf:diskId="d1" ovf:fileRef="file1"/></DiskSection><VirtualSystem ovf:id="vm">'
                '<VirtualHardwareSection><Item><rasd:HostResource>ovf:/disk/d1</rasd:HostResource>'
                '<rasd:ResourceType>17</rasd:ResourceType></Item></VirtualHardwareSection></VirtualSystem></Envelope>')
        expect = ["disk1.vmdk"]
    elif entry == "vbox":
        body = (f'<VirtualBox xmlns="http://www.virtualbox.org/"><Machine name="m{att}"><Description>{txt}</Description>'
                '<MediaRegistry><HardDisks><HardDisk location="a.vdi" format="VDI" type="Normal"/></HardDisks>'
                '</MediaRegistry></Machine></VirtualBox>')
        expect = ["a.vdi"]
    elif entry == "pvs":
        body = (f'<ParallelsVirtualMachine schemaVersion="1.0{att}"><Identification><VmName>{txt}</VmName></Identification>'
                '<Hardware><Hdd id="0"><SystemName>Fedora-0.hdd</SystemName></Hdd></Hardware></ParallelsVirtualMachine>')
        expect = ["Fedora-0.hdd"]
    else:
        from mc.builders import hdd as B

        xml = B.descriptor_xml(16, [(0, 16, [(B.DEFAULT_TOP, "Plain", "d.hds")])], [(B.DEFAULT_TOP, B.NULL_GUID)])
        xml = xml.replace("<?xml version='1.0' encoding='UTF-8'?>", "").strip()
        xml = xml.replace("<Name>verif</Name>", f"<Name>verif{txt}</Name>").replace('Version="1.0"', f'Version="1.0{att}"')
        body = xml
        expect = [(0, 16)]
    return head + body, expect


class _ForwardOnly:
    """A handle that can only be read front to back (a pipe, a streamed archive member): no seek, no tell, no length."""

    def __init__(self, inner):
        self._inner = inner

    def read(self, n=-1):
        return self._inner.read(n)

    def readable(self):
        return True

    def seekable(self):
        return False

    def seek(self, *a):
        raise io.UnsupportedOperation("seek")

    def tell(self):
        raise io.UnsupportedOperation("tell")

    def close(self):
        pass


def _parse(entry, doc, d, handle="text", encoding=None, fixed_stat=False):
    how = None
    if "+" in handle:
        handle, how = handle.split("+")
    if how is not None and entry != "hdd":
        # the same documents through a forward-only handle, and behind 517 bytes / characters of other content with the handle
        # positioned at the document's first character
        pre = "#" * 517 if how == "offset" else ""
        fh = io.StringIO(pre + doc) if handle == "text" else io.BytesIO((pre + doc).encode("utf-8"))
        fh.seek(len(pre))
        if how == "forward-only":
            fh = _ForwardOnly(fh)
    elif handle == "text":
        fh = io.StringIO(doc)
    elif encoding is None:
        fh = io.BytesIO(doc.encode("utf-8"))
    else:
        codec = {"utf-16-le-bom": "utf-16"}.get(encoding, encoding)
        decl = {"utf-16-le-bom": "UTF-16"}.get(encoding, encoding)
        doc = doc.replace('<?xml version="1.0"?>', f'<?xml version="1.0" encoding="{decl}"?>', 1)
        fh = io.BytesIO(doc.encode(codec))
    if entry == "ovf":
        from dissect.hypervisor.descriptor.ovf import OVF

        return list(OVF(fh).disks())
    if entry == "vbox":
        from dissect.hypervisor.descriptor.vbox import VBox

        return list(VBox(fh).disks())
    if entry == "pvs":
        from dissect.hypervisor.descriptor.pvs import PVS

        return list(PVS(fh).disks())
    from dissect.hypervisor.disk.hdd import HDD

    hd = os.path.join(d, "x.hdd")
    os.makedirs(hd, exist_ok=True)
    with open(os.path.join(hd, "DiskDescriptor.xml"), "w") as f:
        f.write(doc)
    if fixed_stat:
        os.utime(os.path.join(hd, "DiskDescriptor.xml"), ns=(1_700_000_000_000_000_000, 1_700_000_000_000_000_000))
    h = HDD(Path(hd))
    return [(s.start, s.end) for s in h.descriptor.storage_data.storages]


def _run_sequence(case, ctx):
    ctx.executions += 1
    ctx.model(case)
    ctx.sample(case)
    ctx.nontrivial += 1
    with scratch_dir() as d:
        canary = os.path.join(d, "canary-secret")
        for p in (canary, canary + ".dtd"):
            with open(p, "w") as f:
                f.write('<!ENTITY g "leaked">' if p.endswith(".dtd") else "TOP-SECRET")
        docs = []
        for entry, kind in case["sequence"]:
            if kind == "plain-v":
                doc, expect = _document(entry, "internal", 2, "text", canary)
                lo, hi = doc.index("<!DOCTYPE"), doc.index("]>") + 2
                doc = (doc[:lo] + doc[hi:]).replace("&e1;", "v")
                kind = "plain"
            elif kind == "undeclared-reference":
                doc, expect = _document(entry, "plain", 1, "text", canary)
                # a reference to an entity nobody declared (e.g. an HTML name): no declaration anywhere in the document
                doc = doc.replace("</", "&nbsp;</", 1)
            else:
                doc, expect = _document(entry, kind, 2, "text", canary)
            if case.get("pad"):
                cut = doc.rindex("</")
                doc = doc[:cut] + "<!--" + "p" * case["pad"] + "-->" + doc[cut:]
            docs.append([entry, kind, doc, expect])
        if case.get("samestat"):
            # every DiskDescriptor.xml of the sequence has the same byte size and the same timestamps
            n = max(len(x[2].encode()) for x in docs if x[0] == "hdd") + 8
            for x in docs:
                if x[0] == "hdd":
                    cut = x[2].rindex("</")
                    x[2] = x[2][:cut] + "<!--" + "p" * (n - len(x[2].encode()) - 7) + "-->" + x[2][cut:]
                    assert len(x[2].encode()) == n
        for step, (entry, kind, doc, expect) in enumerate(docs):
            ctx.transitions += 1
            ctx.states += 1
            result = exc = None
            sub = dict(case, step=step)
            with ctx.watch(sub, 120):
                with monitors.armed() as events:
                    try:
                        result = _parse(entry, doc, d, "text", None, fixed_stat=case.get("samestat"))
                    except Exception as e:
                        exc = e
                evs = list(events)
            bad = [e for e in evs if monitors.classify(e) == "network" or (e[0] == "open" and e[1] and isinstance(e[1][0], str)
                                                                           and "canary" in e[1][0])]
            if bad:
                ctx.violation(sub, {"subject": f"xml.sequence.{entry}", "kind": "external-access", "family": kind, "step": step},
                              {"events": [repr(e)[:200] for e in bad[:3]]})
                return
            if kind in ("internal", "laughs", "external-file"):
                if exc is None:
                    ctx.violation(sub, {"subject": f"xml.sequence.{entry}", "kind": "entity-declaration-accepted", "family": kind,
                                        "after": ["%s:%s" % (e, k) for e, k in case["sequence"][:step]]}, {"result": repr(result)[:200], "step": step})
                    return
                ctx.outcome("refused")
            elif kind == "plain":
                if exc is not None or result != expect:
                    ctx.violation(sub, {"subject": f"xml.sequence.{entry}", "kind": "benign-document-misparsed",
                                        "after": ["%s:%s" % (e, k) for e, k in case["sequence"][:step]]},
                                  {"exception": repr(exc)[:200], "result": repr(result)[:200], "expected": repr(expect), "step": step})
                    return
                ctx.outcome("parsed")


def run_case(case, ctx):
    if case.get("rewritten"):
        return _run_rewritten(case, ctx)
    if case.get("nodep"):
        return _run_nodep(case, ctx)
    if "sequence" in case:
        return _run_sequence(case, ctx)
    if case.get("linked"):
        return _run_linked(case, ctx)
    entry, fam, depth, site = case["entry"], case["family"], case["depth"], case["site"]
    ctx.executions += 1
    ctx.model(case)
    ctx.sample(case)
    declares = fam not in ("plain", "doctype-only", "external-dtd", "predefined-redeclared")
    if declares:
        ctx.nontrivial += 1
    with scratch_dir() as d:
        canary = os.path.join(d, "canary-secret")
        for p in (canary, canary + ".dtd"):
            with open(p, "w") as f:
                f.write('<!ENTITY g "leaked">' if p.endswith(".dtd") else "TOP-SECRET")
        doc, expect = _document(entry, fam, depth, site, canary)
        if case.get("prolog"):
            ins = {"pi": '<?xml-stylesheet type="text/xsl" href="style.xsl"?>', "comment": "<!-- generated -->",
                   "whitespace": "\n \t\n", "pi+comment": '<!-- c --><?proc data?>\n<!-- d -->', "no-declaration": ""}.get(case["prolog"], "")
            if case["prolog"] in ("leading-blank-lines", "leading-space", "leading-bom", "no-declaration-leading-blank"):
                # white space / a byte order mark in front of the document (an XML declaration is then no longer at the start:
                # such a document is not well-formed and may be refused as a whole -- it must never be accepted in part)
                lead = {"leading-blank-lines": "\n\n", "leading-space": " ", "leading-bom": "\ufeff", "no-declaration-leading-blank": "\n \n"}[case["prolog"]]
                if case["prolog"] == "no-declaration-leading-blank":
                    doc = doc.replace('<?xml version="1.0"?>', "", 1)
                doc = lead + doc
            elif case["prolog"] == "no-declaration":
                doc = doc.replace('<?xml version="1.0"?>', "", 1)
            else:
                doc = doc.replace('<?xml version="1.0"?>', '<?xml version="1.0"?>' + ins, 1)
        if case.get("altns"):
            if entry == "vbox":
                doc = doc.replace("http://www.virtualbox.org/", case["altns"])
            elif entry == "ovf":
                doc = doc.replace("http://schemas.dmtf.org/ovf/envelope/1", case["altns"])
            else:
                root = {"pvs": "<ParallelsVirtualMachine", "hdd": "<Parallels_disk_image"}[entry]
                doc = doc.replace(root, root + f' xmlns:v="{case["altns"]}" v:legacy="1"', 1)
        if case.get("pad"):
            # a large document: harmless comment padding before the closing tag of the root element
            cut = doc.rindex("</")
            doc = doc[:cut] + "<!--" + "p" * case["pad"] + "-->" + doc[cut:]
        if entry == "hdd":
            hd = os.path.join(d, "x.hdd")
            os.makedirs(hd, exist_ok=True)
            if case.get("siblings"):
                benign, _ = _document("hdd", "plain", 1, "text", canary)
                for nm in ("DiskDescriptor.xml.Backup", "DiskDescriptor.xml.bak", "DiskDescriptor.xml~", "DiskDescriptor.xml.orig",
                           "diskdescriptor.xml.backup", "DiskDescriptor.Backup.xml"):
                    with open(os.path.join(hd, nm), "w") as f:
                        f.write(benign)
        ctx.transitions += 1
        ctx.states += 1
        result = exc = None
        import tracemalloc

        with ctx.watch(case, 120):
            tracemalloc.start(1)
            tracemalloc.reset_peak()
            try:
                with monitors.armed() as events:
                    try:
                        result = _parse(entry, doc, d, case.get("handle", "text"), case.get("encoding"))
                    except Exception as e:
                        exc = e
                evs = list(events)
            finally:
                peak = tracemalloc.get_traced_memory()[1]
                tracemalloc.stop()
        if declares:
            # refusing a document costs no more memory than reading it: a few copies of its text (measured: up to 7), never its expansion
            allow = 12 * len(doc.encode("utf-8", "surrogatepass")) + (2 << 20)
            ctx.maxi("refusal_peak_over_allowance_permille", int(1000 * peak / allow))
            if peak > allow:
                ctx.violation(case, {"subject": f"xml.{entry}", "kind": "refusal-costs-expansion", "family": fam},
                              {"peak_bytes": peak, "allowance": allow, "document_bytes": len(doc)})
                return
        bad = [e for e in evs if monitors.classify(e) == "network" or (e[0] == "open" and e[1] and isinstance(e[1][0], str)
                                                                       and "canary" in e[1][0])]
        if bad:
            ctx.violation(case, {"subject": f"xml.{entry}", "kind": "external-access", "family": fam},
                          {"events": [repr(e)[:200] for e in bad[:3]]})
            return
        if declares:
            if exc is None:
                ctx.violation(case, {"subject": f"xml.{entry}", "kind": "entity-declaration-accepted", "family": fam, "site": site},
                              {"result": repr(result)[:200], "depth": depth})
                return
            ctx.outcome("refused")
        elif case.get("altns") and entry in ("vbox", "ovf"):
            ctx.outcome("refused" if exc is not None else "parsed")  # a document in another namespace: any answer, no access
        elif "leading" in (case.get("prolog") or "") and exc is not None:
            ctx.outcome("refused")  # not well-formed (text in front of the XML declaration): refusing the whole document is fine
        elif fam == "predefined-redeclared":
            # expat discards declarations of the five predefined names without reporting them (nothing is ever expanded to
            # anything but the predefined character): refusing and parsing are both acceptable, expanding is not
            if exc is None and any("&#" in str(x) or len(str(x)) > 60 for x in (result or [])):
                ctx.violation(case, {"subject": f"xml.{entry}", "kind": "predefined-entity-expanded", "family": fam},
                              {"result": repr(result)[:200]})
                return
            ctx.outcome("refused" if exc is not None else "parsed")
        elif case.get("encoding") in ("gbk", "shift_jis", "big5", "euc-kr") and exc is not None:
            ctx.outcome("refused")  # the XML parser does not support multi-byte legacy encodings at all: refusing is fine
        else:
            if exc is not None or result != expect:
                ctx.violation(case, {"subject": f"xml.{entry}", "kind": "benign-document-misparsed", "family": fam},
                              {"exception": repr(exc)[:200], "result": repr(result)[:200], "expected": repr(expect)})
                return
            ctx.outcome("parsed")
