"""C15 -- encrypted VMX: unlock round-trips and is authenticated.   Shape A (positive product) + exhaustive tamper enumeration."""
from __future__ import annotations

import base64
import copy
import itertools

from mc.builders import vmxenc as B
from mc.diskcheck import sliced

PROPERTY = "C15"
LEVEL = "model_checking"
TECHNIQUE = "exhaustive enumeration of parameter products and of every single-byte alteration against an independent encryptor"
RULE = ("positive: cipher {AES-128,-192,-256} x MAC {HMAC-SHA-1, HMAC-SHA-1-128, HMAC-SHA-256} x KDF {PBKDF2-SHA-1,-SHA-256} x "
        "salt length {0,8,16,33} x passphrase {empty, ASCII, non-ASCII, punctuation} x configuration length 0..48 bytes (every "
        "PKCS#7 padding length) x locator list {one pair, wrong+right, right+wrong, three pairs} with rounds=1, plus rounds "
        "{1,2,1000} and 16 large counts (10^4, 2^16, 10^5, 10^6, 2^20 each +-1, 2*10^6); encrypted configurations that "
        "re-define 1-3 clear-text names in 3 casings; every (wrapping cipher, data cipher) pair; salts and data keys whose "
        "base64 contains '+', '/', both and each padding length; negative: every other passphrase of a 6-element set; every byte position of the wrapped-key blob, of "
        "encryption.data and of both MACs x XOR delta (quick {0x01,0x80,0xFF}, thorough all 255) -> must raise and leave "
        "VMX.attr unchanged. non-trivial = multi-pair locator list, multi-block or empty configuration, or any tamper case")
ASSUMPTIONS = [
    "key safe / blob layout as in mc/builders/vmxenc.py: the serializer reproduces the repository fixture's key safe text and "
    "both encrypted blobs byte for byte when given the fixture's keys and IVs",
    "HMAC-SHA-1-128 is HMAC-SHA-1 truncated to 16 bytes; PKCS#7 padding; MAC over the plaintext",
    "alterations are applied to the decoded bytes and re-encoded (base64 has non-canonical spellings that leave bytes unchanged)",
    "configuration texts end in a printable character (a plaintext whose last byte is <= 16 is indistinguishable from padding)",
]
ALPHABET = "cipher x MAC x KDF x rounds x salt x passphrase x length x locator list; byte position x delta"
BOUND = {"quick": "full positive product at rounds=1; tamper deltas {0x01,0x80,0xFF} on 18 cipher/MAC/KDF combos x 3 lengths",
         "thorough": "all 255 deltas"}
EXPECT_OUTCOMES = ["unlocked", "refused-wrong-passphrase", "refused-tamper"]

CIPHERS = list(B.KEYLEN)
MACS = list(B.MACS)
KDFS = list(B.KDFS)
PHRASES = ["", "password", "pässwörd-日本", "p/w,(x)%:="]
OTHERS = ["password", "Password", "passwor", "password ", "", "pässwörd-日本"]


def shards(tier):
    out = []
    for i in range(16):
        out.append({"kind": "positive", "slice": [i, 16]})
    for i in range(16):
        out.append({"kind": "tamper", "slice": [i, 16], "deltas": [1, 0x80, 0xFF] if tier == "quick" else list(range(1, 256))})
    out.append({"kind": "rounds"})
    for kd in KDFS:
        for part in range(4):
            out.append({"kind": "rounds-big", "kdf": kd, "part": part})
    out.append({"kind": "override"})
    out.append({"kind": "mixed-cipher"})
    out.append({"kind": "b64-chars"})
    out.append({"kind": "value-chars"})
    out.append({"kind": "padding-lookalike"})
    out.append({"kind": "keysafe-reuse"})
    out.append({"kind": "mixed-mac-pairs"})
    out.append({"kind": "phrase-terminators"})
    out.append({"kind": "sequences"})
    out.append({"kind": "dict-order"})
    out.append({"kind": "undecodable"})
    out.append({"kind": "large"})
    return out


def config_text(n: int) -> str:
    """A VMX configuration of exactly n bytes made of well-formed lines."""
    if n == 0:
        return ""
    if n > 200:
        lines = []
        left = n
        i = 0
        while left > 120:
            ln = f'key{i:06d} = "{("v%d-" % i) * 12}"'
            lines.append(ln)
            left -= len(ln) + 1
            i += 1
        lines.append("t=" + "z" * (left - 2))
        text = "\n".join(lines)
        assert len(text.encode()) == n, (n, len(text.encode()))
        return text
    base = 'scsi0:0.fileName = "disk-ä.vmdk"\nmemsize = "512"\nnumvcpus = "2"\n'
    if n < 5:
        return "a=bcd"[:n] if n >= 3 else ("a=" if n == 2 else "a")
    lines = []
    left = n
    i = 0
    while left > 0:
        if left < 12:
            ln = "k" + "=" + "v" * (left - 2)
            lines.append(ln)
            left = 0
            break
        val = "v%d" % i
        ln = f'key{i} = "{val}"'
        if left - len(ln) - 1 < 3 and left - len(ln) - 1 != 0:
            ln = "k%d=" % i + "w" * (left - 3 - len(str(i)) + 1)
            ln = ln[:left]
            lines.append(ln)
            left = 0
            break
        lines.append(ln)
        left -= len(ln) + 1
        i += 1
    text = "\n".join(lines)
    if len(text.encode()) < n:
        text += "\n" + "z" * (n - len(text.encode()) - 1) if n - len(text.encode()) > 1 else "z"
    text = text[:n]
    if text.endswith("\n"):
        text = text[:-1] + "x"
    assert len(text.encode()) == n, (n, len(text.encode()))
    return text


VALUE_CHARS = ["\x0b", "\x0c", "\x1c", "\x1d", "\x1e", "\x85", "\u2028", "\u2029", "\xa0", "\u3000", "\t", "=", "#", "\r"]
TERMINATED = ["s3cret", "s3cret\n", "s3cret\r\n", "s3cret\r", "s3cret ", " s3cret", "s3cret\t", "\ufeffs3cret"]  # (a trailing NUL is no other key: HMAC zero-pads)
B64_BYTES = {"plus": b"\xfb\xef\xbe", "slash": b"\xff\xff\xff", "both": b"\xfb\xff\xbf\xfe\xfb\xff"}


def build(cipher, mac, kdf, rounds, salt_len, phrase, cfg, layout, data_cipher=None, salt_kind=None, key_kind=None,
          wrong_mac=None, dict_order=None):
    data_cipher = data_cipher or cipher
    salt = B.det_bytes("salt", salt_len)
    dk = B.det_bytes("datakey" + cipher, B.KEYLEN[data_cipher])
    if salt_kind:
        salt = {"pad1": B64_BYTES["both"] * 3 + b"\xfb\xef", "pad2": B64_BYTES["both"] * 3 + b"\xfb"}.get(
            salt_kind, (B64_BYTES.get(salt_kind, b"") * 6)[:18])
    if key_kind:
        dk = (B64_BYTES[key_kind] * 11)[:B.KEYLEN[data_cipher]]
    right, rblob = B.pair_text(phrase, kdf, cipher, rounds, salt, mac, data_cipher, dk, B.det_bytes("iv1", 16), order=dict_order)
    sameid = layout.endswith("-sameid")  # the pairs carry the same phrase id (ids are labels, not keys)
    layout = layout[:-7] if sameid else layout
    wrong, _ = B.pair_text(phrase + "#other", kdf, cipher, rounds, salt, wrong_mac or mac, data_cipher, B.det_bytes("otherkey", B.KEYLEN[data_cipher]),
                           B.det_bytes("iv2", 16), **({} if sameid else {"pid": "other"}))
    pairs = {"one": [right], "wrong-right": [wrong, right], "right-wrong": [right, wrong], "three": [wrong, right, wrong]}[layout]
    data_blob = B.seal(dk, cfg if isinstance(cfg, bytes) else cfg.encode(), mac, B.det_bytes("iv3", 16))
    outer = [(".encoding", "UTF-8"), ("displayName", "Encrypted VM"), ("memsize", "1")]
    return B.vmx_text(pairs, data_blob, outer), outer, rblob, data_blob, salt, dk


def run_shard(shard, ctx):
    kind = shard["kind"]
    if kind == "positive":
        i, k = shard["slice"]
        space = itertools.product(CIPHERS, MACS, KDFS, (0, 8, 16, 33), range(len(PHRASES)), range(0, 49),
                                  ("one", "wrong-right", "right-wrong", "three"))
        for c, m, kd, sl, pi, ln, lay in sliced(space, i, k):
            run_case({"kind": "positive", "cipher": c, "mac": m, "kdf": kd, "rounds": 1, "salt": sl, "phrase": pi, "len": ln,
                      "layout": lay}, ctx)
        if i == 0:
            for c, m, kd, lay in itertools.product(CIPHERS, MACS, KDFS, ("wrong-right-sameid", "right-wrong-sameid", "three-sameid")):
                run_case({"kind": "positive", "cipher": c, "mac": m, "kdf": kd, "rounds": 1, "salt": 16, "phrase": 1, "len": 21,
                          "layout": lay}, ctx)
    elif kind == "dict-order":
        # the four entries of the phrase dictionary in every order
        for n, order in enumerate(itertools.permutations(range(4))):
            for lay in ("one", "wrong-right"):
                run_case({"kind": "positive", "cipher": CIPHERS[n % 3], "mac": MACS[n % len(MACS)], "kdf": KDFS[n % 2], "rounds": 2 + n % 3,
                          "salt": 16, "phrase": 1, "len": 23, "layout": lay, "dict_order": list(order)}, ctx)
    elif kind == "undecodable":
        for n, (c, m) in enumerate(itertools.product(CIPHERS, MACS)):
            for line in (2, 4):
                for all_after in (False, True):
                    run_case({"kind": "undecodable", "cipher": c, "mac": m, "line": line, "all_after": all_after}, ctx)
    elif kind == "sequences":
        for c, m, kd in itertools.product(CIPHERS, MACS, KDFS):
            for seq in itertools.product("RWT", repeat=3):
                run_case({"kind": "sequence", "cipher": c, "mac": m, "kdf": kd, "seq": "".join(seq)}, ctx)
    elif kind == "large":
        for c, m in itertools.product(CIPHERS, MACS):
            for ln in (65519, 65520, 65535, 65536, 65537, 131072, 200001):
                run_case({"kind": "positive", "cipher": c, "mac": m, "kdf": KDFS[0], "rounds": 1, "salt": 16, "phrase": 1, "len": ln,
                          "layout": "one"}, ctx)
        # configurations of exactly 1 .. 4 MiB and one byte either side (sizes in which data may be fed to a MAC or cipher)
        for n, ln in enumerate(x * (1 << 20) + d for x in (1, 2, 3, 4) for d in (-1, 0, 1)):
            run_case({"kind": "positive", "cipher": CIPHERS[n % 3], "mac": MACS[n % len(MACS)], "kdf": KDFS[n % 2], "rounds": 1, "salt": 16,
                      "phrase": 1, "len": ln, "layout": "one"}, ctx)
    elif kind == "rounds-big":
        # the iteration count is whatever the key safe declares: decimal and binary round numbers +-1 up to 2,000,000
        big = [9999, 10000, 10001, 65535, 65536, 65537, 99999, 100000, 100001, 999999, 1000000, 1000001, 1048575, 1048576,
               1048577, 2000000]
        for r in big[shard["part"]::4]:
            run_case({"kind": "positive", "cipher": CIPHERS[r % 3], "mac": MACS[r % 3], "kdf": shard["kdf"], "rounds": r,
                      "salt": 16, "phrase": 1, "len": 37, "layout": "one"}, ctx)
    elif kind == "mixed-cipher":
        # the cipher of the passphrase-derived wrapping key and the cipher of the data key are independent fields
        for c, dc, m, kd in itertools.product(CIPHERS, CIPHERS, MACS, KDFS):
            for lay in ("one", "wrong-right"):
                run_case({"kind": "positive", "cipher": c, "data_cipher": dc, "mac": m, "kdf": kd, "rounds": 2, "salt": 16,
                          "phrase": 3, "len": 21, "layout": lay}, ctx)
    elif kind == "b64-chars":
        # salts and data keys whose base64 spelling contains '+', '/', both, and every padding length
        for c, m in itertools.product(CIPHERS, MACS):
            for salt_kind in ("plus", "slash", "both", "pad1", "pad2"):
                for key_kind in ("plus", "slash", "both"):
                    run_case({"kind": "positive", "cipher": c, "mac": m, "kdf": KDFS[len(salt_kind) % 2], "rounds": 1, "salt": 16,
                              "phrase": 1, "len": 9, "layout": "one", "salt_kind": salt_kind, "key_kind": key_kind}, ctx)
    elif kind == "keysafe-reuse":
        # one KeySafe object asked several times (a passphrase prompt or a word-list loop): every sequence of right / wrong
        # attempts of length 3, one- and three-pair safes
        for seq in itertools.product("RW", repeat=3):
            for lay in ("one", "three"):
                run_case({"kind": "keysafe-reuse", "seq": "".join(seq), "layout": lay}, ctx)
    elif kind == "padding-lookalike":
        # configurations whose own last bytes look like an intact PKCS#7 padding (k bytes of value k): padding is always added
        # on top, so nothing is ambiguous
        tails = ["\n" * k for k in (1, 2, 9, 10, 11, 16)] + ["\t" * 9, "\r" * 13, "\x01", "\x02\x02", "\x0c" * 12, "\x10" * 16,
                                                              "\x0b" * 11, "\x07" * 7, "\x03\x03\x03"]
        for ti, (c, m) in itertools.product(range(len(tails)), itertools.product(CIPHERS, MACS)):
            for ln in (5, 16 - len(tails[ti]) % 16, 37):
                run_case({"kind": "positive", "cipher": c, "mac": m, "kdf": KDFS[ti % 2], "rounds": 1, "salt": 8, "phrase": 1,
                          "len": max(3, ln), "layout": "one", "tail": tails[ti]}, ctx)
    elif kind == "mixed-mac-pairs":
        # several passphrase pairs with different MAC types: the data is verified with the MAC of the pair that was opened
        for m_right, m_wrong in itertools.product(MACS, MACS):
            for lay in ("wrong-right", "right-wrong", "three"):
                for c in CIPHERS:
                    run_case({"kind": "positive", "cipher": c, "mac": m_right, "wrong_mac": m_wrong, "kdf": KDFS[0], "rounds": 1,
                              "salt": 16, "phrase": 2, "len": 23, "layout": lay}, ctx)
    elif kind == "value-chars":
        for ci, where in itertools.product(range(len(VALUE_CHARS)), ("middle", "twice", "start", "end")):
            run_case({"kind": "positive", "cipher": CIPHERS[ci % 3], "mac": MACS[ci % 3], "kdf": KDFS[ci % 2], "rounds": 1, "salt": 8,
                      "phrase": 1, "len": 0, "layout": "one", "value_char": ci, "where": where}, ctx)
    elif kind == "phrase-terminators":
        # the passphrase takes part in the key derivation byte for byte: trailing / leading blanks and line terminators count
        for right, tries in itertools.product(TERMINATED, repeat=2):
            run_case({"kind": "terminators", "right": right, "try": tries}, ctx)
    elif kind == "override":
        # the encrypted configuration re-defines names that are also present in the clear-text part (in any casing): after
        # unlock the decrypted value is the one exposed
        names = [".encoding", "displayName", "memsize"]
        for c, m in itertools.product(CIPHERS, MACS):
            for mask in range(1, 8):
                for casing in ("same", "lower", "upper"):
                    run_case({"kind": "positive", "cipher": c, "mac": m, "kdf": KDFS[mask % 2], "rounds": 1, "salt": 8, "phrase": 2,
                              "len": 0, "layout": "one", "override": [n for i, n in enumerate(names) if mask >> i & 1],
                              "casing": casing}, ctx)
    elif kind == "rounds":
        for c, m, kd, r in itertools.product(CIPHERS, MACS, KDFS, (1, 2, 1000)):
            run_case({"kind": "positive", "cipher": c, "mac": m, "kdf": kd, "rounds": r, "salt": 16, "phrase": 2, "len": 37,
                      "layout": "wrong-right"}, ctx)
    else:
        i, k = shard["slice"]
        space = itertools.product(CIPHERS, MACS, KDFS, (7, 16, 40))
        for c, m, kd, ln in sliced(space, i, k):
            run_case({"kind": "tamper", "cipher": c, "mac": m, "kdf": kd, "len": ln, "deltas": shard["deltas"]}, ctx)


def _expected(outer, cfg):
    exp = {k.lower(): v for k, v in outer}
    exp.update(B.parse_dictionary(cfg))
    return exp


def run_case(case, ctx):
    from dissect.hypervisor.descriptor.vmx import VMX

    ctx.executions += 1
    ctx.model({k: v for k, v in case.items() if k != "deltas"})
    ctx.sample({k: v for k, v in case.items() if k != "deltas"})
    with ctx.watch(case, 300):
        if case["kind"] == "undecodable":
            # an authentic configuration whose text is not UTF-8 from some line on (written by a host with another code page): if
            # unlocking fails on it, it fails as a whole -- nothing of the earlier lines is merged into the visible configuration
            lines = [b'guestOS = "windows9-64"', b'memsize = "4096"', b'annotation = "caf\xe9 du coin"', b'numvcpus = "2"',
                     b'displayName = "\xff\xfe"']
            bad = case["line"]
            cfgb = b"\n".join(ln if (i == bad or (case["all_after"] and i > bad)) else ln.replace(b"\xe9", b"e").replace(b"\xff\xfe", b"x")
                              for i, ln in enumerate(lines)) + b"\n"
            text, outer, rblob, dblob, salt, dk = build(case["cipher"], case["mac"], KDFS[0], 1, 16, "password", cfgb, "one")
            v = VMX.parse(text)
            before = dict(v.attr)
            ctx.transitions += 1
            ctx.states += 1
            ctx.nontrivial += 1
            try:
                v.unlock_with_phrase("password")
            except Exception as e:
                if dict(v.attr) != before:
                    ctx.violation(case, {"subject": "vmx.unlock", "kind": "failed-unlock-changed-configuration", "exc": type(e).__name__},
                                  {"added": sorted(set(v.attr) - set(before))[:6]})
                    return
                ctx.outcome("refused")
                return
            ctx.outcome("unlocked")  # (a reader that decodes such text some other way may well succeed)
            return
        if case["kind"] == "sequence":
            # one VMX object, three unlock attempts in every order of {Right passphrase, Wrong passphrase, Tampered data}:
            # a right attempt always succeeds, a wrong one always raises and leaves attr as it was, whatever came before
            cfg = config_text(37)
            text, outer, rblob, dblob, salt, dk = build(case["cipher"], case["mac"], case["kdf"], 1, 16, "password", cfg, "one")
            v = VMX.parse(text)
            ctx.nontrivial += 1
            good_data = v.attr["encryption.data"]
            t = bytearray(dblob)
            t[20] ^= 0x40
            bad_data = base64.b64encode(bytes(t)).decode()
            for step, what in enumerate(case["seq"]):
                ctx.transitions += 1
                ctx.states += 1
                before = copy.deepcopy(v.attr)
                v.attr["encryption.data"] = bad_data if what == "T" else good_data
                before["encryption.data"] = v.attr["encryption.data"]
                try:
                    v.unlock_with_phrase("password" if what in "RT" else "passw0rd")
                    raised = False
                except Exception:
                    raised = True
                if what == "R":
                    exp = dict(before)
                    exp.update(B.parse_dictionary(cfg))
                    if raised or v.attr != exp:
                        ctx.violation(case, {"subject": "vmx.unlock.sequence", "kind": "right-passphrase-failed-after-history",
                                             "step": step}, {"seq": case["seq"], "raised": raised})
                        return
                    ctx.outcome("unlocked")
                else:
                    if not raised:
                        ctx.violation(case, {"subject": "vmx.unlock.sequence", "kind": "accepted-after-history", "what": what,
                                             "step": step}, {"seq": case["seq"]})
                        return
                    if v.attr != before:
                        ctx.violation(case, {"subject": "vmx.unlock.sequence", "kind": "attr-changed-on-failure", "step": step},
                                      {"seq": case["seq"]})
                        return
                    ctx.outcome("refused-wrong-passphrase" if what == "W" else "refused-tamper")
            return
        if case["kind"] == "keysafe-reuse":
            from dissect.hypervisor.descriptor.vmx import KeySafe

            text, outer, rblob, dblob, salt, dk = build("AES-256", "HMAC-SHA-1", KDFS[0], 1, 16, "password", config_text(9), case["layout"])
            ks = KeySafe.from_text(VMX.parse(text).attr["encryption.keysafe"])
            ctx.nontrivial += 1
            for step, what in enumerate(case["seq"]):
                ctx.transitions += 1
                ctx.states += 1
                try:
                    key, mac = ks.unseal_with_phrase("password" if what == "R" else "passw0rd")
                    ok = key == dk
                except Exception:
                    ok = None
                if what == "R" and ok is not True:
                    ctx.violation(case, {"subject": "keysafe.unseal.sequence", "kind": "right-passphrase-failed-after-history", "step": step},
                                  {"seq": case["seq"]})
                    return
                if what == "W" and ok is not None:
                    ctx.violation(case, {"subject": "keysafe.unseal.sequence", "kind": "accepted-after-history", "step": step}, {"seq": case["seq"]})
                    return
                ctx.outcome("unlocked" if what == "R" else "refused-wrong-passphrase")
            return
        if case["kind"] == "terminators":
            cfg = config_text(21)
            text, outer, rblob, dblob, salt, dk = build("AES-256", "HMAC-SHA-256", KDFS[0], 1, 16, case["right"], cfg, "one")
            v = VMX.parse(text)
            before = copy.deepcopy(v.attr)
            ctx.nontrivial += 1
            ctx.transitions += 1
            ctx.states += 1
            try:
                v.unlock_with_phrase(case["try"])
                raised = False
            except Exception:
                raised = True
            if case["try"] == case["right"]:
                exp = dict(before)
                exp.update(B.parse_dictionary(cfg))
                if raised or v.attr != exp:
                    ctx.violation(case, {"subject": "vmx.unlock", "kind": "correct-passphrase-refused", "how": "terminators"},
                                  {"passphrase": repr(case["right"])})
                    return
                ctx.outcome("unlocked")
            else:
                if not raised:
                    ctx.violation(case, {"subject": "vmx.unlock", "kind": "unlocked-with-wrong-passphrase", "how": "terminators"},
                                  {"right": repr(case["right"]), "tried": repr(case["try"])})
                    return
                if v.attr != before:
                    ctx.violation(case, {"subject": "vmx.unlock", "kind": "attr-changed-on-failure", "how": "wrong-passphrase"}, {})
                    return
                ctx.outcome("refused-wrong-passphrase")
            return
        if case["kind"] == "positive":
            phrase = PHRASES[case["phrase"]]
            cfg = config_text(case["len"])
            if case.get("tail") is not None:
                cfg = config_text(case["len"]) + case["tail"]
            if case.get("value_char") is not None:
                ch = VALUE_CHARS[case["value_char"]]
                v = {"middle": "my old disk" + ch + "copy.vmdk", "twice": "a" + ch + "b" + ch + "memsize = 9", "start": ch + "x",
                     "end": "x" + ch}[case["where"]]
                cfg = 'scsi0:0.fileName = "%s"\nmemsize = "512"' % v
            if case.get("override"):
                cs = {"same": str, "lower": str.lower, "upper": str.upper}[case["casing"]]
                cfg = "\n".join(['%s = "decrypted-%d"' % (cs(n), i) for i, n in enumerate(case["override"])] + ['extra = "1"'])
            text, outer, rblob, dblob, salt, dk = build(case["cipher"], case["mac"], case["kdf"], case["rounds"], case["salt"],
                                                        phrase, cfg, case["layout"], case.get("data_cipher"),
                                                        case.get("salt_kind"), case.get("key_kind"), case.get("wrong_mac"),
                                                        case.get("dict_order"))
            if case["layout"] != "one" or case["len"] == 0 or case["len"] >= 16:
                ctx.nontrivial += 1
            v = VMX.parse(text)
            before = copy.deepcopy(v.attr)
            ctx.transitions += 1
            ctx.states += 1
            try:
                v.unlock_with_phrase(phrase)
            except Exception as e:
                ctx.violation(case, {"subject": "vmx.unlock", "kind": "correct-passphrase-refused", "mac": case["mac"],
                                     "exc": type(e).__name__}, {"exception": repr(e)[:300]})
                return
            exp = dict(before)
            exp.update(B.parse_dictionary(cfg))
            if v.attr != exp:
                ctx.violation(case, {"subject": "vmx.unlock", "kind": "wrong-configuration"},
                              {"got": repr(sorted(v.attr.items()))[:400], "expected": repr(sorted(exp.items()))[:400]})
                return
            ctx.outcome("unlocked")
            # every other passphrase must be refused and leave attr unchanged
            for other in OTHERS:
                if other == phrase:
                    continue
                if case["len"] % 7 or case["salt"] != 16:
                    break  # the wrong-passphrase sub-space is run on a sub-grid (lengths 0,7,..; salt 16)
                ctx.transitions += 1
                ctx.states += 1
                w = VMX.parse(text)
                b4 = copy.deepcopy(w.attr)
                try:
                    w.unlock_with_phrase(other)
                except Exception:
                    if w.attr != b4:
                        ctx.violation(case, {"subject": "vmx.unlock", "kind": "attr-changed-on-failure", "how": "wrong-passphrase"},
                                      {"other": other})
                        return
                    ctx.outcome("refused-wrong-passphrase")
                    continue
                ctx.violation(case, {"subject": "vmx.unlock", "kind": "unlocked-with-wrong-passphrase"}, {"other": other})
                return
            return
        # ---- tamper ---------------------------------------------------------------------------------------------
        phrase = "password"
        cfg = config_text(case["len"])
        text, outer, rblob, dblob, salt, dk = build(case["cipher"], case["mac"], case["kdf"], 1, 16, phrase, cfg, "one")
        ctx.nontrivial += 1
        nmac = B.MACS[case["mac"]][1]
        positions = case.get("positions")
        for field, blob in (("wrapped-key", rblob), ("data", dblob)):
            for pos in range(len(blob)):
                region = "iv" if pos < 16 else ("mac" if pos >= len(blob) - nmac else "ciphertext")
                for delta in case["deltas"]:
                    if positions is not None and [field, pos, delta] not in positions:
                        continue
                    ctx.transitions += 1
                    ctx.states += 1
                    t = bytearray(blob)
                    t[pos] ^= delta
                    if field == "wrapped-key":
                        pair = B.pair_from_blob(case["kdf"], case["cipher"], 1, salt, case["mac"], bytes(t))
                        txt = B.vmx_text([pair], dblob, outer)
                    else:
                        pair = B.pair_from_blob(case["kdf"], case["cipher"], 1, salt, case["mac"], rblob)
                        txt = B.vmx_text([pair], bytes(t), outer)
                    v = VMX.parse(txt)
                    before = copy.deepcopy(v.attr)
                    sub = dict(case, positions=[[field, pos, delta]])
                    try:
                        v.unlock_with_phrase(phrase)
                    except Exception:
                        if v.attr != before:
                            ctx.violation(sub, {"subject": "vmx.unlock", "kind": "attr-changed-on-failure", "how": "tamper",
                                                "field": field, "region": region}, {"pos": pos, "delta": delta})
                            return
                        ctx.outcome("refused-tamper")
                        continue
                    inpad = field == "data" and region == "iv" and case["len"] < 16 and pos >= case["len"]
                    ctx.violation(sub, {"subject": "vmx.unlock", "kind": "tamper-accepted", "field": field, "region": region,
                                        "single_block_padding_position": inpad},
                                  {"pos": pos, "delta": delta, "blob_len": len(blob), "config_len": case["len"]})
                    return
