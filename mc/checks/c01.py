"""C01 -- QCOW2 read correctness.   Shape A (input-space product): standard L2 windows + extended-L2 bit windows."""
from __future__ import annotations

import itertools

from mc import bootstrap, pattern
from mc.builders import qcow2 as B
from mc.diskcheck import compare_reads, sliced, window_models
from mc.models import HOLE, RawDisk, boundaries, request_pairs
from mc.vfile import TrapBytesIO

PROPERTY = "C01"
LEVEL = "model_checking"
TECHNIQUE = "explicit-state bounded-exhaustive exploration of the real reader against a reference disk model"
RULE = ("standard L2: cluster size x version/header form x window position (cluster 0, straddling an L2-table boundary, "
        "behind an L1 entry without L2 table) x table order/placement (incl. host offsets > 4 GiB, 2^40, 2^55) x backing "
        "file {none, longer, equal, shorter by a non-cluster amount, empty} x external data file x every assignment of "
        "{unallocated, zero, zero+offset, normal, compressed (in-sector start 0/1/511, exact / one extra sector, top of the "
        "descriptor range), compressed-incompressible} to a W-cluster window x every injective placement of the "
        "allocated clusters into W+1 slots x every boundary request. extended L2: every assignment of {unalloc, alloc, "
        "zero} to bit windows {0,1,2}+{14..17}+{29,30,31} of one cluster and to the last/first three sub-clusters of two "
        "adjacent clusters x backgrounds x entry kinds x adjacency. non-trivial = request touching >= 2 units that differ "
        "in state or are not stored adjacently ascending")
ASSUMPTIONS = [
    "QCOW2 layout per QEMU docs/interop/qcow2.txt as transcribed in mc/builders/qcow2.py (round-trip through an independent "
    "decoder; no QCOW2 fixture exists in the repository and qemu-img is not available)",
    "zlib (raw deflate) compression only: zstandard is not installed in this environment",
    "version 2 images use no zero flag; bytes 72.. of a version-2 file belong to header extensions / the backing file name",
    "compressed clusters whose deflate stream is larger than a cluster are allowed by the descriptor format and included",
    "invalid sub-cluster bitmaps (alloc and zero on the same bit) are outside C01 (covered by C11)",
]
ALPHABET = "cluster {U, Z, A(slot), N(slot), C, I}; sub-cluster {u, a, z}; cluster_bits; version; header form; layouts"
BOUND = {"quick": "W=3 (one geometry W=4), cluster_bits {9,12,16}, extended L2 windows 3^6 x 3",
         "thorough": "W=4, cluster_bits 9..21, extended L2 windows 3^10 x 3"}
EXPECT_OUTCOMES = ["data@L1", "zero@L1", "zero-below-base", "data@L2", "zero-beyond-parent"]

V3 = [B.U, B.Z, B.A, B.N, B.C]
V2 = [B.U, B.N, B.C]
GB4 = (4 << 30) + (1 << 21)


def _geoms(tier):
    q = [
        dict(cb=9, ver=3, W=3, at="0", alpha="V3", layout="l1_first", cut=0, hl=112),
        dict(cb=9, ver=2, W=3, at="straddle", alpha="V2", layout="l2_first", cut=100, v2="backing", backing="longer"),
        dict(cb=12, ver=3, W=3, at="0", alpha="V3", layout="l1_first", cut=0, hl=104, w4=True),
        # 104-byte header (QEMU < 5.1) directly followed by a header extension whose first byte is not zero
        dict(cb=12, ver=3, W=3, at="0", alpha="V3", layout="l1_first", cut=0, hl=104, featext=True, only=[B.U, B.N, B.C]),
        dict(cb=12, ver=3, W=3, at="straddle", alpha="V3", layout="l2_reversed", cut=1000, hl=112, backing="shorter"),
        dict(cb=12, ver=2, W=3, at="absent", alpha="V2", layout="tables_after_data", cut=0, v2="ext"),
        dict(cb=16, ver=3, W=3, at="straddle", alpha="V3", layout="l1_first", cut=512, hl=112, tbase=GB4, dbase=1 << 40,
             comp_high=True),
        # version 2 with a first header extension of 4 / 16 / 31 bytes (length bits 2, 4, 0..4), small and large clusters
        dict(cb=12, ver=2, W=3, at="0", alpha="V2", layout="l1_first", cut=0, v2="ext", extlen=4, only=[B.U, B.N]),
        dict(cb=16, ver=2, W=3, at="0", alpha="V2", layout="l1_first", cut=0, v2="ext", extlen=16, only=[B.U, B.N, B.C]),
        dict(cb=14, ver=2, W=3, at="straddle", alpha="V2", layout="l2_first", cut=0, v2="ext", extlen=31, only=[B.U, B.N]),
        dict(cb=16, ver=3, W=3, at="0", alpha="V3", layout="l1_first", cut=0, hl=112, datafile=True, only=[B.U, B.Z, B.N]),
        # external data file whose clusters lie far beyond the length of the (small) image file that holds the tables
        dict(cb=12, ver=3, W=3, at="0", alpha="V3", layout="l1_first", cut=0, hl=112, datafile=True, dbase=1 << 24, only=[B.U, B.Z, B.N]),
        # external data file without the (optional) data-file-name extension, over a backing file
        dict(cb=12, ver=3, W=3, at="0", alpha="V3", layout="l1_first", cut=0, hl=112, datafile="anon", backing="equal",
             only=[B.U, B.Z, B.N]),
        dict(cb=12, ver=3, W=3, at="0", alpha="V3", layout="l1_first", cut=7, hl=112, backing="equal"),
        dict(cb=9, ver=3, W=3, at="absent", alpha="V3", layout="l1_first", cut=0, hl=112, backing="empty",
             tbase=1 << 55, dbase=GB4, only=[B.U, B.Z, B.N, B.A]),
        dict(cb=12, ver=3, W=3, at="0", alpha="V3", layout="l1_first", cut=0, hl=112, only=[B.U, B.N, B.C, B.I]),
        # compressed clusters whose deflate stream is 1.3 x the cluster size (valid: the descriptor addresses up to 2 x)
        dict(cb=12, ver=3, W=3, at="0", alpha="V3", layout="l1_first", cut=0, hl=112, only=[B.U, B.N, B.L]),
        dict(cb=16, ver=3, W=3, at="0", alpha="V3", layout="l1_first", cut=512, hl=112, only=[B.N, B.L, B.C]),
        dict(cb=12, ver=2, W=3, at="0", alpha="V2", layout="l1_first", cut=0, v2="fmt+backing", backing="shorter"),
        # compressed clusters byte-packed back to back (several start in the same 512-byte host sector), as qemu-img -c writes
        dict(cb=12, ver=3, W=4, at="0", alpha="V3", layout="l1_first", cut=0, hl=112, only=[B.U, B.N, B.C], pack=True),
        dict(cb=16, ver=3, W=3, at="straddle", alpha="V3", layout="l2_first", cut=0, hl=112, only=[B.Z, B.C], pack=True),
        # a backing file that ends 5 MiB before the image does: unallocated clusters beyond its end read as zeros, however long the
        # request
        dict(cb=16, ver=3, W=3, at="straddle", alpha="V3", layout="l1_first", cut=512, hl=112, backing="short-5m",
             only=[B.U, B.N, B.Z]),
        # far into the L1 table: the window straddles L1 entries 129 / 130 (beyond the 128 cached L2 tables)
        dict(cb=9, ver=3, W=3, at="l1-130", alpha="V3", layout="l2_reversed", cut=7, hl=112, only=[B.U, B.N, B.Z, B.C]),
        # the disk ends exactly where the coverage of the last L1 entry ends and the buffer is larger than what is left
        dict(cb=9, ver=3, W=3, at="end", alpha="V3", layout="l1_first", cut=100, hl=112, bufs=[65536], only=[B.U, B.Z, B.N]),
    ]
    if tier == "quick":
        # quick tier: the lean boundary set (4 points per cluster instead of 7) -- the reader itself costs ~0.3 ms/read
        return [dict(g, lean=True) for g in q]
    t = []
    for g in q:
        g = dict(g)
        if g.get("w4"):
            g["W"] = 4
        t.append(g)
    for cb in range(9, 22):
        t.append(dict(cb=cb, ver=3, W=3, at="straddle", alpha="V3", layout="l2_first", cut=(1 << cb) // 2 + 1, hl=112,
                      backing="shorter" if cb % 2 else None, tbase=GB4 if cb % 3 == 0 else None,
                      comp_high=cb % 2 == 0))
        t.append(dict(cb=cb, ver=2, W=3, at="0", alpha="V2", layout="l1_first", cut=0, v2="backing" if cb % 2 else "ext",
                      backing="longer" if cb % 2 else None))
    return t


def _ext_geoms(tier):
    q = [dict(cb=14, kind="pair", at="straddle", thin=3),
         dict(cb=14, bg="u", kind="single", positions="quick"), dict(cb=14, bg="a", kind="single", positions="quick"),
         dict(cb=14, bg="z", kind="single", positions="quick"), dict(cb=14, kind="pair"),
         dict(cb=16, bg="a", kind="single", positions="mid", backing="shorter"),
         # 256 KiB clusters: 16384 extended entries per L2 table; a pair at entry 8193 (beyond 64 KiB of table bytes / 8192 entries)
         dict(cb=18, kind="pair", at="deep", thin=27)]
    if tier == "quick":
        return q
    t = [dict(cb=14, bg=bg, kind="single", positions="full") for bg in "uaz"]
    t += [dict(cb=14, kind="pair"), dict(cb=16, kind="pair", backing="longer"),
          dict(cb=21, bg="a", kind="single", positions="quick"), dict(cb=16, bg="u", kind="single", positions="quick",
                                                                       backing="shorter")]
    return t


BUFS = {"quick": [512, 8192], "thorough": [512, 4096, 8192, 65536]}
SLICES = {"quick": 8, "thorough": 16}
ALPHAS = {"V3": V3, "V2": V2}


def shards(tier):
    out = []
    for buf in BUFS[tier]:
        for gi, g in enumerate(_geoms(tier)):
            if g.get("bufs"):
                continue
            if tier == "quick" and buf == 512 and gi % 3 != 1:
                continue  # quick: the 512-byte buffer (every sector-aligned back-end request) on every third geometry
            k = SLICES[tier] * (4 if g["W"] >= 4 else 1)
            for i in range(k):
                out.append({"buf": buf, "kind": "std", "geom": g, "slice": [i, k]})
    for g in _geoms(tier):
        for buf in g.get("bufs", []):
            for i in range(SLICES[tier]):
                out.append({"buf": buf, "kind": "std", "geom": g, "slice": [i, SLICES[tier]]})
    out.append({"buf": 8192, "kind": "history", "geom": {"W": 3}, "slice": [0, 1]})
    for buf in ([8192] if tier == "quick" else [512, 8192]):
        for g in _ext_geoms(tier):
            k = 16 if tier == "quick" else 48
            for i in range(k):
                out.append({"buf": buf, "kind": "ext", "geom": g, "slice": [i, k]})
    return out


def _window(g):
    l2n = (1 << g["cb"]) // 8
    W = g["W"]
    if g["at"] == "0":
        return 0, W
    if g["at"] == "straddle":
        return l2n - 2, l2n - 2 + W + 1
    if g["at"] == "end":
        return l2n - W, l2n
    if g["at"] == "l1-130":
        return 130 * l2n - 2, 130 * l2n - 2 + W + 1
    return l2n, l2n + W + 1  # "absent": the first L1 entry has no L2 table


def run_shard(shard, ctx):
    g = shard["geom"]
    i, k = shard["slice"]
    if shard["kind"] == "ext" and g.get("thin"):
        for n, case in enumerate(sliced(_ext_cases(g), i, k)):
            if n % g["thin"] == 0:
                run_case(case, ctx)
        return
    if shard["kind"] == "history":
        # images of both L2 entry formats with the same number of entries per table, one after the other in one process (the
        # standard one first for 1024 and 4096 entries, the extended one first for 2048), the extended window in the upper half
        # of its table
        for c, order in ((13, "std-ext"), (14, "ext-std"), (15, "std-ext")):
            gs = dict(cb=c, ver=3, W=3, at="straddle", alpha="V3", layout="l1_first", cut=0, hl=112)
            ge = dict(cb=c + 1, kind="pair", at="upper")
            std = [{"kind": "std", "geom": gs, "states": st, "slots": sl}
                   for st, sl in (([B.N, B.U, B.N, B.Z], [1, None, 0, None]), ([B.Z, B.N, B.N, B.U], [None, 0, 2, None]))]
            ext = [c_ for n, c_ in enumerate(_ext_cases(ge)) if n % 97 == 0][:6]
            for case in (std + ext if order == "std-ext" else ext + std) * 2:
                run_case(case, ctx)
        return
    if shard["kind"] == "std":
        W = g["W"]
        alpha = g.get("only") or ALPHAS[g["alpha"]]
        for states, slots in sliced(window_models(alpha, W, W + 1, placed=B.PLACED), i, k):
            run_case({"kind": "std", "geom": g, "states": states, "slots": slots}, ctx)
    else:
        for case in sliced(_ext_cases(g), i, k):
            run_case(case, ctx)


def _backing(g, size, cs):
    how = g.get("backing")
    if how is None:
        return None, None
    n = {"longer": size + cs + 512, "equal": size, "shorter": max(512, size - cs - cs // 2 - 100), "empty": 0,
         "short-5m": max(512, size - (5 << 20) - 100)}[how]
    if how == "shorter" and size > (64 << 20):
        n = size - cs - cs // 2 - 100
    return n, how


class _PatternFile:
    """Raw backing file of `n` bytes holding layer-2 pattern (virtual, any size)."""

    def __init__(self, n, layer=2):
        self.n, self.layer, self.pos = n, layer, 0

    def seek(self, pos, whence=0):
        self.pos = pos if whence == 0 else self.pos + pos if whence == 1 else self.n + pos
        return self.pos

    def tell(self):
        return self.pos

    def read(self, k=-1):
        if k is None or k < 0:
            k = self.n - self.pos
        k = max(0, min(k, self.n - self.pos))
        out = pattern.span(self.layer, self.pos, k)
        self.pos += k
        return out


def _std_requests(g, size, buf, at, total):
    cs = 1 << g["cb"]
    lo = max(0, (at - 1) * cs)
    hi = min(size, (at + g["W"] + 1) * cs)
    pts = boundaries(size, cs, buf, lo, hi, rich=not g.get("lean"))
    if cs > 65536 or total > 64:
        reqs = request_pairs(pts, max(2 * buf, 2 * cs if cs <= 65536 else 0) + 1024)
        if cs > 65536:
            b0 = at * cs
            reqs += [(b0, cs), (b0 + cs // 2, cs), (b0 + cs - 512, cs + 1024), (b0, 2 * cs)]
    else:
        reqs = request_pairs(pts)
    if size <= (1 << 20):
        reqs.append((0, size))
    if g.get("backing") == "short-5m":
        # single requests that run 2 .. 4.9 MiB past the end of the backing file (and on into the window)
        bn = size - (5 << 20) - 100
        reqs += [(bn - 4096, 3 << 20), (bn - 100, (2 << 20) + 300000), (bn + 1, (5 << 20) - 2), (size - (4 << 20), (4 << 20) - 1),
                 (bn - 70000, (5 << 20) + 70100)]
    return reqs


def run_case(case, ctx):
    if case["kind"] == "std":
        return _case_std(case, ctx)
    return _case_ext(case, ctx)


def _open(ctx, case, img, dimg, backing_fh, subject, big):
    from dissect.hypervisor.disk.qcow2 import QCow2

    fh = img.sparse(log=False) if big else img.bytesio()
    kw = {}
    if dimg is not None:
        kw["data_file"] = dimg.sparse(log=False) if big else dimg.bytesio()
    if backing_fh is not None:
        kw["backing_file"] = backing_fh
    try:
        return QCow2(fh, **kw)
    except Exception as e:
        ctx.violation(case, {"subject": subject + ".open", "kind": "exception", "exc": type(e).__name__},
                      {"exception": repr(e)[:300]})
        return None


def _case_std(case, ctx):
    g = case["geom"]
    states, slots = case["states"], case["slots"]
    cb = g["cb"]
    cs = 1 << cb
    at, total = _window(g)
    size = total * cs - g["cut"]
    buf = bootstrap.bufsize()
    comp = {i: ((0, 1, 511)[i % 3], i % 2, bool(g.get("comp_high")) and i % 2 == 1) for i in range(len(states))}
    bname = bfmt = exts = None
    bn, how = _backing(g, size, cs)
    if bn is not None:
        bname = "base-é.img"
    if g.get("featext"):
        exts = [(B.EXT_FEATURE_TABLE, bytes([0, 0]) + b"dirty bit".ljust(46, b"\0"))]
    if g["ver"] == 2:
        if g.get("v2") == "ext":
            # bytes 72..79 of a version-2 file are the first extension's type and length: in a version-3 header the same bytes
            # are the incompatible-feature word, whose bits 0..4 would be bits 0..4 of this length
            exts = [(0x12345678, b"\xff" * g.get("extlen", 40)), (0, b"")]
        elif g.get("v2") == "fmt+backing":
            bfmt = "raw"
    img, dimg = B.build(states, slots, cb, g["ver"], size, at, total, layout=g["layout"], table_base=g.get("tbase"),
                        data_base=g.get("dbase"), backing_name=bname, backing_format=bfmt, header_length=g.get("hl", 112),
                        data_file=g.get("datafile") or False, comp=comp, extensions=exts, comp_pack=bool(g.get("pack")))
    parent = RawDisk.__new__(RawDisk) if False else None
    backing_fh = None
    if bn is not None:
        backing_fh = _PatternFile(bn)
        from mc.models import GuestDisk, DATA

        parent = GuestDisk(bn, cs, [DATA] * ((bn + cs - 1) // cs), 2)
    disk = B.model(states, cb, size, at, total, 1, parent)
    ctx.model([g, states, slots])
    ctx.executions += 1
    ctx.sample(case)
    reqs = [tuple(r) for r in case["requests"]] if "requests" in case else _std_requests(g, size, buf, at, total)
    big = img.size > (8 << 20) or (dimg is not None and dimg.size > (8 << 20))
    full_states = [B.U] * at + list(states) + [B.U] * (total - at - len(states))
    full_slots = [None] * at + list(slots) + [None] * (total - at - len(states))
    srcs = [disk.source(u * cs) for u in range(total)] if total <= 64 else None
    subject = f"qcow2.v{g['ver']}" + (".datafile" if g.get("datafile") else "") + (".backing" if bn is not None else "")
    with ctx.watch(case):
        q = _open(ctx, case, img, dimg, backing_fh, subject, big)
        if q is None:
            return
        if q.size != size:
            ctx.violation(case, {"subject": subject + ".size", "kind": "mismatch"}, {"got": q.size, "expected": size})
            return
        if srcs is None:
            for i in range(len(states)):
                ctx.outcome(disk.source((at + i) * cs))
        if size <= (4 << 20):
            disk.materialize()
        compare_reads(ctx, case, q, disk, reqs, subject + ".read", full_states, full_slots, cs, srcs)


# ---- extended L2 ---------------------------------------------------------------------------------------------------
def _ext_cases(g):
    if g["kind"] == "single":
        pos = {"quick": [0, 1, 15, 16, 30, 31], "mid": [13, 14, 15, 16, 17, 18], "full": [0, 1, 2, 14, 15, 16, 17, 29, 30, 31]}[
            g["positions"]]
        for kind in (B.N, B.U):
            alpha = "uaz" if kind == B.N else "uz"
            if kind == B.U and g["bg"] == "a":
                continue
            for combo in itertools.product(alpha, repeat=len(pos)):
                sub = [g["bg"]] * 32
                for p, s in zip(pos, combo):
                    sub[p] = s
                yield {"kind": "ext", "geom": g, "clusters": [{"kind": kind, "sub": sub}], "slots": [1 if kind == B.N else None]}
    else:
        # a compressed cluster (its sub-cluster bitmap is empty: it is compressed as a whole) next to standard ones, in both
        # positions; requests start at every sub-cluster border inside it (see _case_ext)
        for k0, k1 in ((B.C, B.N), (B.N, B.C), (B.C, B.U), (B.U, B.C), (B.C, B.C)):
            for bg in ("a", "u") if B.N in (k0, k1) else ("u",):
                for adj in ((1, 2), (2, 1)):
                    subs = [["u"] * 32 if k == B.C else ([bg] * 29 + ["a", "z", "a"] if j == 0 else ["a", "u", "a"] + [bg] * 29)
                            for j, k in enumerate((k0, k1))]
                    if B.U in (k0, k1):
                        subs = [[("u" if x == "a" else x) for x in sb] if k == B.U else sb for sb, k in zip(subs, (k0, k1))]
                    yield {"kind": "ext", "geom": g, "clusters": [{"kind": k0, "sub": subs[0]}, {"kind": k1, "sub": subs[1]}],
                           "slots": [adj[0] if k0 == B.N else None, adj[1] if k1 == B.N else None], "compressed": True}
        # two adjacent clusters: last three sub-clusters of the first, first three of the second
        for k0, k1 in ((B.N, B.N), (B.N, B.U), (B.U, B.N), (B.U, B.U)):
            a0 = "uaz" if k0 == B.N else "uz"
            a1 = "uaz" if k1 == B.N else "uz"
            for bg0 in a0:
                bg1 = bg0 if bg0 in a1 else "u"
                for tail in itertools.product(a0, repeat=3):
                    for head in itertools.product(a1, repeat=3):
                        for adj in ((1, 2), (2, 1)):
                            sub0 = [bg0] * 29 + list(tail)
                            sub1 = list(head) + [bg1] * 29
                            yield {"kind": "ext", "geom": g,
                                   "clusters": [{"kind": k0, "sub": sub0}, {"kind": k1, "sub": sub1}],
                                   "slots": [adj[0] if k0 == B.N else None, adj[1] if k1 == B.N else None]}


def _case_ext(case, ctx):
    g = case["geom"]
    cb = g["cb"]
    cs = 1 << cb
    sub = cs // 32
    clusters, slots = case["clusters"], case["slots"]
    buf = bootstrap.bufsize()
    at = 0
    if g.get("at") == "straddle":
        at = cs // 16 - 1  # the pair sits on both sides of the end of the first extended-L2 table (16-byte entries)
    elif g.get("at") == "deep":
        at = 8193
    elif g.get("at") == "upper":
        at = (cs // 16) * 3 // 4 + 1
    total = at + len(clusters) + 1
    size = total * cs - (sub // 2 if len(clusters) == 1 else 0)
    states = clusters + [{"kind": B.U, "sub": ["u"] * 32}]
    slots = list(slots) + [None]
    bn, how = _backing(g, size, cs)
    backing_fh = parent = None
    if bn is not None:
        if how == "shorter":
            bn = cs + 17 * sub + 77 if len(clusters) > 1 else 20 * sub + 77
        backing_fh = _PatternFile(bn)
        from mc.models import DATA, GuestDisk

        parent = GuestDisk(bn, cs, [DATA] * ((bn + cs - 1) // cs), 2)
    img, _ = B.build(states, slots, cb, 3, size, at, total, ext=True, backing_name="b.raw" if bn is not None else None)
    disk = B.model(states, cb, size, at, total, 1, parent)
    ctx.model([g, clusters, slots])
    ctx.executions += 1
    ctx.sample(case)
    if "requests" in case:
        reqs = [tuple(r) for r in case["requests"]]
    else:
        pts = set()
        interesting = set()
        for ci, c in enumerate(clusters):
            for k in range(32):
                if k == 0 or c["sub"][k] != c["sub"][k - 1] or k in (1, 31):
                    interesting.add(ci * 32 + k)
        interesting |= {0, 32 * len(clusters)}
        if case.get("compressed"):
            for ci, c in enumerate(clusters):
                if c["kind"] == B.C:
                    interesting |= {ci * 32 + k for k in (2, 4, 5, 16, 30)}
        base = at * cs
        for s in sorted(interesting):
            for d in (-1, 0, 1):
                pts.add(base + s * sub + d)
        pts |= {size - 1, size, size + 1, base + cs - 1, base + cs, base + cs + 1,
                base + ((buf // sub + 1) * sub if buf < cs else cs)}
        pts = sorted(p for p in pts if max(0, base - 1) <= p <= size + 1)
        reqs = request_pairs(pts)
    subject = "qcow2.extl2" + (".backing" if bn is not None else "")
    base_off = at * cs
    with ctx.watch(case, 90):
        q = _open(ctx, case, img, None, backing_fh, subject, img.size > (8 << 20))
        if q is None:
            return
        if g.get("at") != "deep":
            disk.materialize()
        # per sub-cluster state/slot vectors for the non-triviality rule
        st = ["u"] * (32 * at) if at <= 64 else None
        if st is not None:
            for c in states:
                st += list(c["sub"])
            compare_reads(ctx, case, q, disk, reqs, subject + ".read", st, list(range(len(st))), sub,
                          [disk.source(i * sub) for i in range(len(st))])
        else:
            ctx.nontrivial += 1
            for i in range(32 * len(clusters)):
                ctx.outcome(disk.source(base_off + i * sub))
            compare_reads(ctx, case, q, disk, reqs, subject + ".straddle.read")
