"""C17 -- Hyper-V VMCX/VMRS: decoded tree equals the stored key/value tree.   Shape A (input-space product)."""
from __future__ import annotations

import io
import itertools
import math
import struct

from mc.builders import hyperv as B
from mc.diskcheck import sliced

PROPERTY = "C17"
LEVEL = "model_checking"
TECHNIQUE = "explicit-state bounded-exhaustive exploration of the real parser against the model tree it was serialised from"
RULE = ("every ordered forest with <= N entries (N=5 quick, 6 thorough; depth <= 3 enforced by the shapes) with leaf types "
        "cycling through all six value types x every distribution of the entries over 1-3 key tables x entry order inside the "
        "tables {parents first, children first}; every boundary value of every type (incl. strings / arrays of 0x7FF, 0x800, "
        "0x801 bytes stored as file objects) x key alphabet; a Free entry at every position; competing key tables with "
        "sequence pairs {0,1,2,65535}^2; header sequence pairs likewise with a poisoned inactive header; object tables "
        "chained 1-5 deep, fanned out or tail-linked; further flag bits {0x02,0x04,0x80,0xFE} on every value; strings whose "
        "surrogate pairs straddle the 4 KiB / 8 KiB / 64 KiB marks of their file object or that begin with U+FEFF / U+FFFE; key "
        "tables larger than 64 KiB (entries at 0x1000a..); unallocated slots between the object-table entries. Oracle: as_dict() equals the model tree including Python types; item access equals as_dict. non-trivial = "
        "more than one key table, a Free entry, a file object, a competing table or a non-default header pair")
ASSUMPTIONS = [
    "layout as documented in hyperv.py and transcribed in mc/builders/hyperv.py; the independent decoder in that module decodes "
    "both repository fixtures to the trees the repository's tests pin",
    "keys are at most 254 UTF-8 bytes (the data offset is one byte); equal sequence numbers leave the choice open",
    "Node entries carry no value; value types map to int / int / float / str / bytes / bool",
    "entries at the root are Node entries, as in every observed file (as_dict() of a root-level leaf is not defined)",
]
ALPHABET = "forest shape x table distribution x order x value x key x free position x sequence pair"
BOUND = {"quick": "forests <= 5 entries (5: every 3rd distribution), 1-3 tables", "thorough": "forests <= 6 entries, full product"}
EXPECT_OUTCOMES = ["tree", "value", "free", "competing", "headers", "object-table-chain"]

VALUES = {
    B.T_INT: [0, -1, 2 ** 63 - 1, -2 ** 63, 2304],
    B.T_UINT: [0, 1, 2 ** 63, 2 ** 64 - 1],
    B.T_DBL: [0.0, -0.0, 1.5, float("inf"), -2.5e-300],
    B.T_BOOL: [True, False],
    # strings whose surrogate pairs straddle the 4 KiB / 8 KiB / 64 KiB marks of the file object that holds them
    B.T_STR: ["", "a", "héllo \U0001F98A", "x" * 0x3FF, "y" * 0x400, "z" * 0x401, "\U0001F98A" * 0x200,
              "p" * 2047 + "\U0001F600" + "q" * 9, "p" * 4095 + "\U0001F600" + "q" * 9, "\U0001F600" + "p" * 4094 + "\U0001F600",
              "r" * 8191 + "\U0001F98A" * 3, "s" * 32767 + "\U0001F600", "\u00e9" * 4096, "t" * 4097,
              # the stored strings are UTF-16-LE without a byte order mark: a leading U+FEFF / U+FFFE is part of the value
              "\ufeffinline", "\ufffeinline", "\ufeff" + "n" * 0x500, "\ufffe" + "m" * 0x500, "k" * 0x500 + "\ufeff"],
    B.T_ARR: [b"", b"\x00", bytes(range(256)), b"\xAA" * 0x7FF, b"\xBB" * 0x800, b"\xCC" * 0x801,
              bytes(range(256)) * 32, bytes(range(255)) * 33 + b"\x01", bytes(range(251)) * 270],
}
KEYS = ["k", "configuration", "schüssel-日本", "K" * 200, "é" * 120, "with space", "_ac6b8dc1-3257_"]
SEQS = [0, 1, 2, 65535]
LEAF_CYCLE = [B.T_INT, B.T_STR, B.T_BOOL, B.T_UINT, B.T_ARR, B.T_DBL]


def forests(n, depth=3):
    """All ordered forests with exactly n nodes and height <= depth, as nested lists."""
    if n == 0:
        return [[]]
    if depth == 0:
        return []
    out = []
    for k in range(1, n + 1):  # size of the first tree
        for children in forests(k - 1, depth - 1):
            for rest in forests(n - k, depth):
                out.append([children] + rest)
    return out


def tree_from_shape(shape, variant=0):
    """shape: nested lists -> {key: (type, value)}; leaves cycle through the value types."""
    counter = [0]

    def make(nodes):
        d = {}
        for ch in nodes:
            i = counter[0]
            counter[0] += 1
            key = f"n{i}" if i % 3 else KEYS[(i + variant) % len(KEYS)] + str(i)
            if ch:
                d[key] = (B.T_NODE, make(ch))
            else:
                t = LEAF_CYCLE[(i + variant) % len(LEAF_CYCLE)]
                vals = VALUES[t]
                d[key] = (t, vals[(i + variant) % len(vals)])
        return d

    # every observed file has only Node entries at the root ("configuration"); root-level leaves are left out of the
    # well-formed space, so the forest hangs under one root node
    return {"configuration": (B.T_NODE, make(shape))}


def shards(tier):
    out = []
    N = 5 if tier == "quick" else 6
    for n in range(1, N + 1):
        k = {1: 1, 2: 1, 3: 2, 4: 8, 5: 16, 6: 64}[n]
        for i in range(k):
            out.append({"kind": "tree", "n": n, "slice": [i, k], "thin": tier == "quick" and n == 5})
    out += [{"kind": "value"}, {"kind": "flags"}, {"kind": "bigtable"}, {"kind": "holes"}, {"kind": "many"}, {"kind": "coincide"},
            {"kind": "alive"}, {"kind": "realfile"}, {"kind": "free"}, {"kind": "competing"}, {"kind": "headers"}, {"kind": "chain"}, {"kind": "high"}]
    return out


def run_shard(shard, ctx):
    kind = shard["kind"]
    if kind == "tree":
        n = shard["n"]
        space = itertools.product(range(len(forests(n))), itertools.product((1, 2, 3), repeat=n + 1), ("fwd", "rev"))
        for j, (fi, placement, order) in enumerate(sliced(space, *shard["slice"])):
            if shard["thin"] and j % 3:
                continue
            run_case({"kind": "tree", "n": n, "forest": fi, "placement": list(placement), "order": order}, ctx)
    elif kind == "value":
        for t, vals in VALUES.items():
            for vi in range(len(vals)):
                for ki in range(len(KEYS)):
                    if (vi + ki) % 2 and ki not in (3, 4):
                        continue
                    run_case({"kind": "value", "type": t, "vi": vi, "key": ki}, ctx)
    elif kind == "flags":
        # further bits in the flag byte next to FileObjectPointer (0x02 occurs in real files): the value is decoded all the same
        for fl in (0x02, 0x04, 0x80, 0xFE):
            for t, vals in VALUES.items():
                for vi in range(len(vals)):
                    if t in (B.T_STR, B.T_ARR) and len(B.enc_value(t, vals[vi])) > 0x3000 and fl != 0x02:
                        continue
                    run_case({"kind": "value", "type": t, "vi": vi, "key": (vi + t) % len(KEYS), "flags": fl}, ctx)
    elif kind == "bigtable":
        # key tables larger than 64 KiB: a large Free entry pushes the following entries to offsets 0x1000a.. -- the same low 16
        # bits as the entries at the start of this and of the other tables
        for fi in range(0, len(forests(5)), 2):
            for nt in (1, 2, 3):
                for pos in (1, 2, 3):
                    for order in ("fwd", "rev"):
                        run_case({"kind": "bigtable", "forest": fi, "ntables": nt, "pos": pos, "order": order}, ctx)
    elif kind == "many":
        # more object-table entries than fit one 4 KiB block (227): 226..300 key tables + file objects behind them
        for nt in (226, 227, 228, 240, 300):
            for holes in (0, 1):
                run_case({"kind": "many", "ntables": nt, "holes": holes}, ctx)
    elif kind == "realfile":
        for buffering in (0, -1, "gzip", "bz2", "lzma"):
            for steps in itertools.product(("decode", "stream-big", "stream-small"), repeat=3 if isinstance(buffering, int) else 2):
                run_case({"kind": "realfile", "buffering": buffering, "steps": list(steps) + ["decode"]}, ctx)
    elif kind == "alive":
        for n in (2, 3):
            for use in itertools.product(range(n), repeat=3):
                run_case({"kind": "alive", "n": n, "use": list(use)}, ctx)
    elif kind == "coincide":
        # numerically equal values stored under different types in one file (1 / 1.0 / True / unsigned 1, 0 / 0.0 / -0.0 / False)
        for rot in range(9):
            for rev in (False, True):
                for nt in (1, 2):
                    run_case({"kind": "coincide", "rot": rot, "rev": rev, "ntables": nt}, ctx)
    elif kind == "holes":
        # unallocated slots in front of and between the allocated object-table entries
        for fi in range(0, len(forests(4)), 2):
            for nt in (1, 2, 3):
                for holes in (1, 2, 3):
                    for depth in (0, 1, 2):
                        run_case({"kind": "holes", "forest": fi, "ntables": nt, "holes": holes, "depth": depth}, ctx)
    elif kind == "free":
        shape = forests(5)[17]
        for pos in range(0, 6):
            for nt in (1, 2):
                for order in ("fwd", "rev"):
                    run_case({"kind": "free", "pos": [pos], "ntables": nt, "order": order}, ctx)
        run_case({"kind": "free", "pos": [0, 1, 2, 3, 4], "ntables": 2, "order": "fwd"}, ctx)
        # freed entries that kept their flag byte (file-object pointer 0x01, 0x02, both) and stale parent / key / pointer bytes
        for fl in (1, 2, 3, 0x80):
            for pos in (1, 3, 5):
                for nt in (1, 2):
                    run_case({"kind": "free", "pos": [pos], "ntables": nt, "order": "fwd", "free_flags": fl}, ctx)
    elif kind == "competing":
        for a, b in itertools.product(SEQS, SEQS):
            for which in (1, 2, 12):
                run_case({"kind": "competing", "active_seq": a, "stale_seq": b, "which": which}, ctx)
        # the newest copy of a key table holds only a Free entry (its keys were deleted), an older copy still has them
        for seq_new, seq_old in ((9, 3), (2, 1), (65535, 0)):
            for pos in ([0], [99]):
                run_case({"kind": "emptied", "seqs": [seq_new, seq_old], "pos": pos}, ctx)
        # three copies of one key table: the newest may come first, in the middle or last in the object table
        for seqs in itertools.permutations((5, 7, 9)):
            for seqs2 in ((1, 2, 3), (3, 1, 2)):
                run_case({"kind": "competing3", "seqs": list(seqs), "seqs2": list(seqs2)}, ctx)
    elif kind == "headers":
        for a, b in itertools.product(SEQS, SEQS):
            run_case({"kind": "headers", "seqs": [a, b]}, ctx)
    elif kind == "high":
        # values in file objects beyond 4 GiB / 8 GiB, aliasing low file objects modulo 2^32
        for base in (0xFFFFF000, 0x1_0000_0000, 0x1_0004_0000, 0x2_0004_1000, 0x7FFF_FFFF_F000):
            for nt in (1, 2):
                run_case({"kind": "high", "base": base, "ntables": nt}, ctx)
    elif kind == "chain":
        for n in (3, 5):
            for fi in range(0, len(forests(n)), 3):
                for nt in (1, 2, 3):
                    run_case({"kind": "chain", "n": n, "forest": fi, "ntables": nt}, ctx)
        # object tables chained 1..5 deep (first -> A -> B ...), fanned out from the first table, or linked by their last entry
        for depth, shape, nt in itertools.product((1, 2, 3, 5), ("chain", "fan", "tail"), (1, 2, 3)):
            for fi in (1, 7, 20):
                run_case({"kind": "chain", "n": 5, "forest": fi, "ntables": nt, "depth": depth, "shape": shape}, ctx)


def _same(a, b):
    """Deep equality including Python types and the sign of zero."""
    if type(a) is not type(b):
        return False
    if isinstance(a, dict):
        return a.keys() == b.keys() and list(a) == list(a) and all(_same(a[k], b[k]) for k in a)
    if isinstance(a, float):
        return struct.pack("<d", a) == struct.pack("<d", b)
    return a == b


def _walk_values(hf_node, model):
    """Item access must agree with as_dict: hf[k][k2]...value."""
    for k, v in model.items():
        e = hf_node[k]
        if isinstance(v, dict):
            if not _walk_values(e, v):
                return False
        elif not _same(e.value, v):
            return False
    return True


def run_case(case, ctx):
    from dissect.hypervisor.descriptor.hyperv import HyperVFile

    ctx.executions += 1
    ctx.model(case)
    ctx.sample(case)
    kind = case["kind"]
    kw = {}
    nontrivial = False
    if kind == "realfile":
        # the file is handed over as an operating-system file (buffered or not); a 2 MiB value is read through the streaming
        # interface of its file object, the stream is dropped and collected, and the tree is decoded again: same answer
        import gc
        import os

        from mc.scratch import scratch_dir

        ctx.outcome("value")
        ctx.nontrivial += 1
        tree = {"configuration": (B.T_NODE, {"blob": (B.T_ARR, bytes(range(256)) * 8192), "small": (B.T_ARR, b"\x07" * 0x900),
                                             "i": (B.T_INT, -3600), "n": (B.T_NODE, {"s": (B.T_STR, "x" * 0x480)})})}
        img = B.build(tree, ntables=2)
        exp = B.plain(tree)
        with scratch_dir() as d, ctx.watch(case):
            p = os.path.join(d, "vm.vmrs")
            with open(p, "wb") as f:
                f.write(img)
            if case["buffering"] in ("gzip", "bz2", "lzma"):
                # a decompressing reader over another file: its fileno() names the compressed file, not this byte stream
                import bz2
                import gzip
                import lzma

                mod_ = {"gzip": gzip, "bz2": bz2, "lzma": lzma}[case["buffering"]]
                with mod_.open(p, "wb") as f:
                    f.write(img)
                fh = mod_.open(p, "rb")
            else:
                fh = open(p, "rb", buffering=0) if case["buffering"] == 0 else open(p, "rb")
            try:
                hf = HyperVFile(fh)
                for step in case["steps"]:
                    ctx.transitions += 1
                    ctx.states += 1
                    if step == "decode":
                        got = hf.as_dict()
                        if not _same(got, exp):
                            ctx.violation(case, {"subject": "hyperv.realfile", "kind": "tree-mismatch"}, {"got": repr(got)[:200]})
                            return
                    else:
                        ent = hf["configuration"]["blob" if step == "stream-big" else "small"]
                        fo = ent.get_file_object()
                        st = fo.open(ent.file_object_pointer[1])
                        data = st.read()
                        want = exp["configuration"]["blob" if step == "stream-big" else "small"]
                        if bytes(data) != bytes(want):
                            ctx.violation(case, {"subject": "hyperv.realfile", "kind": "stream-mismatch"}, {"len": len(data)})
                            return
                        del st
                        gc.collect()
                fh.seek(0)
                if fh.read(4) != img[:4]:
                    ctx.violation(case, {"subject": "hyperv.realfile", "kind": "handle-unusable-afterwards"}, {})
            except Exception as e:
                ctx.violation(case, {"subject": "hyperv.realfile", "kind": "exception", "exc": type(e).__name__}, {"exception": repr(e)[:300]})
            finally:
                try:
                    fh.close()
                except Exception:
                    pass
        return
    if kind == "alive":
        # two or three files open at once, same layout (file objects at the same offsets), different values: each object
        # decodes its own file, in whatever order they are opened and used
        ctx.outcome("value")
        ctx.nontrivial += 1
        trees = []
        for g in range(case["n"]):
            trees.append({"configuration": (B.T_NODE, {
                "blob": (B.T_ARR, bytes([0x41 + g]) * 0x900), "text": (B.T_STR, chr(0x61 + g) * 0x480), "i": (B.T_INT, -3600 - g),
                "n": (B.T_NODE, {"inner": (B.T_ARR, bytes([0x51 + g]) * 0x1000), "u": (B.T_UINT, 7 + g)})})})
        imgs = [B.build(t, ntables=2) for t in trees]
        exps = [B.plain(t) for t in trees]
        with ctx.watch(case):
            try:
                hfs = [HyperVFile(io.BytesIO(im)) for im in imgs]
                for idx in case["use"]:
                    ctx.transitions += 1
                    ctx.states += 1
                    got = hfs[idx].as_dict()
                    if not _same(got, exps[idx]) or not _walk_values(hfs[idx], exps[idx]):
                        ctx.violation(case, {"subject": "hyperv.alive", "kind": "tree-mismatch"},
                                      {"file": idx, "got": repr(got)[:300]})
                        return
            except Exception as e:
                ctx.violation(case, {"subject": "hyperv.alive", "kind": "exception", "exc": type(e).__name__}, {"exception": repr(e)[:300]})
        return
    if kind == "tree":
        tree = tree_from_shape(forests(case["n"])[case["forest"]], case["forest"])
        kw = dict(placement=case["placement"], ntables=3, table_order=case["order"])
        nontrivial = len(set(case["placement"])) > 1
        ctx.outcome("tree")
    elif kind == "value":
        t = case["type"]
        v = VALUES[t][case["vi"]]
        tree = {"root": (B.T_NODE, {KEYS[case["key"]]: (t, v), "sibling": (B.T_INT, 7)})}
        nontrivial = t in (B.T_STR, B.T_ARR) and len(B.enc_value(t, v)) - 4 >= 0x800
        if case.get("flags"):
            kw = dict(extra_flags=case["flags"])
            nontrivial = True
        ctx.outcome("value")
    elif kind == "many":
        n = case["ntables"]
        leaves = {f"_device-{i:04d}_": (LEAF_CYCLE[i % 6], VALUES[LEAF_CYCLE[i % 6]][i % 2]) for i in range(n + 7)}
        leaves["blob"] = (B.T_ARR, b"\x33" * 0x900)
        leaves["text"] = (B.T_STR, "t" * 0x480)
        tree = {"configuration": (B.T_NODE, {"devices": (B.T_NODE, leaves), "tail": (B.T_INT, 5)})}
        kw = dict(ntables=n, holes=case["holes"], fileobj_base=0x400000)
        nontrivial = True
        ctx.outcome("tree")
    elif kind == "coincide":
        items = [("i1", (B.T_INT, 1)), ("b1", (B.T_BOOL, True)), ("d1", (B.T_DBL, 1.0)), ("u1", (B.T_UINT, 1)), ("i0", (B.T_INT, 0)),
                 ("b0", (B.T_BOOL, False)), ("d0", (B.T_DBL, 0.0)), ("dn", (B.T_DBL, -0.0)), ("u0", (B.T_UINT, 0))]
        items = items[case["rot"]:] + items[:case["rot"]]
        if case["rev"]:
            items = items[::-1]
        tree = {"configuration": (B.T_NODE, dict(items))}
        kw = dict(ntables=case["ntables"])
        nontrivial = True
        ctx.outcome("value")
    elif kind == "bigtable":
        tree = tree_from_shape(forests(5)[case["forest"]], case["forest"])
        kw = dict(ntables=case["ntables"], table_order=case["order"], free_at={case["pos"]}, free_size="alias")
        nontrivial = True
        ctx.outcome("free")
    elif kind == "holes":
        tree = tree_from_shape(forests(4)[case["forest"]], 2)
        tree["configuration"][1]["bigleaf"] = (B.T_ARR, b"\x22" * 0x900)
        kw = dict(ntables=case["ntables"], holes=case["holes"])
        if case["depth"]:
            kw.update(object_table_chain=case["depth"], chain_shape="chain", extra_replay_log=True)
        nontrivial = True
        ctx.outcome("object-table-chain")
    elif kind == "free":
        tree = tree_from_shape(forests(5)[17], 1)
        kw = dict(ntables=case["ntables"], table_order=case["order"], free_at=set(case["pos"]), free_flags=case.get("free_flags", 0),
                  free_size=64 if case.get("free_flags") else 32)
        nontrivial = True
        ctx.outcome("free")
    elif kind == "competing":
        tree = tree_from_shape(forests(5)[20], 2)
        stale_tree = tree_from_shape(forests(5)[20], 2 + len(LEAF_CYCLE) * 0)
        # same shape and types, other values of the same byte size
        stale_tree = _revalue(tree)
        a, b = case["active_seq"], case["stale_seq"]
        if a == b:
            return  # equal sequence numbers leave the choice open
        which = {1: [1], 2: [2], 12: [1, 2]}[case["which"]]
        # the copy with the higher number is the one whose values the model expects
        if a > b:
            kw = dict(ntables=2, table_seq=a, stale={t: b for t in which}, stale_tree=stale_tree)
        else:
            kw = dict(ntables=2, table_seq=a, stale={t: b for t in which}, stale_tree=stale_tree)
            # the "stale" copy is newer: expected values come from it for the affected tables
            tree_expected = _merge_expected(tree, stale_tree, which, 2)
        nontrivial = True
        ctx.outcome("competing")
    elif kind == "emptied":
        leaves = {f"k{i}": (LEAF_CYCLE[i % 6], VALUES[LEAF_CYCLE[i % 6]][0]) for i in range(6)}
        tree = {"configuration": (B.T_NODE, leaves)}
        # entries in preorder: the node, then k0..k5; the node and k1, k3, k5 live in table 1, k0, k2, k4 in table 2
        placement = [1, 2, 1, 2, 1, 2, 1]
        kw = dict(ntables=2, placement=placement, table_seq=case["seqs"][0], free_only_tables=(2,),
                  stale={2: [(case["seqs"][1], tree)]}, stale_positions=case["pos"])
        tree_expected = {"configuration": (B.T_NODE, {k: v for i, (k, v) in enumerate(leaves.items()) if i % 2 == 1})}
        nontrivial = True
        ctx.outcome("competing")
    elif kind == "competing3":
        tree = tree_from_shape(forests(5)[20], 2)
        gen = [tree, _revalue(tree), _revalue(_revalue(_revalue(tree)))]  # three generations with pairwise different values
        gen[2] = _revalue2(tree)
        sq = case["seqs"]  # sequence numbers of generation 0 (written as the "active" copy), 1 and 2 of key table 1
        positions = {0: [0, 99], 1: [0, 0], 2: [99, 99]}[case["seqs2"][0] % 3]
        kw = dict(ntables=2, table_seq=sq[0], stale={1: [(sq[1], gen[1]), (sq[2], gen[2])]}, stale_positions=positions)
        winner = gen[sq.index(max(sq))]
        tree_expected = _merge_expected(tree, winner, [1], 2)
        nontrivial = True
        ctx.outcome("competing")
    elif kind == "headers":
        tree = tree_from_shape(forests(3)[2], 0)
        kw = dict(seqs=tuple(case["seqs"]))
        nontrivial = case["seqs"][0] != case["seqs"][1]
        ctx.outcome("headers")
    elif kind == "high":
        tree = None
    else:
        tree = tree_from_shape(forests(case["n"])[case["forest"]], 3)
        tree["configuration"][1]["bigleaf"] = (B.T_ARR, b"\x11" * 0x900)
        kw = dict(ntables=case["ntables"], second_object_table=True)
        if case.get("depth"):
            tree["configuration"][1]["bigstr"] = (B.T_STR, "w" * 0x500)
            kw = dict(ntables=case["ntables"], object_table_chain=case["depth"], chain_shape=case["shape"],
                      extra_replay_log=case["depth"] % 2 == 1)
        nontrivial = True
        ctx.outcome("object-table-chain")
    if kind == "high":
        tree = {"configuration": (B.T_NODE, {
            "low-a": (B.T_ARR, b"\x11" * 0x900), "high-s": (B.T_STR, "h" * 0x500), "n": (B.T_NODE, {"high-a": (B.T_ARR, bytes(range(256)) * 9),
                                                                                                   "i": (B.T_INT, -5)}),
            "low-s": (B.T_STR, "l" * 0x480)})}
        nontrivial = True
        ctx.outcome("value")
        ctx.nontrivial += 1
        # low file objects at 0x40000.., the same tree again with its file objects at `base` (aliases modulo 2^32 when base
        # is 0x1_0004_0000): build two images and merge the high objects into one sparse image
        low = B.build(tree, ntables=case["ntables"])
        himg = B.build(tree, ntables=case["ntables"], fileobj_base=case["base"], fileobj_gap=0x3000, as_image=True)
        # keep low decoys: the low image's file-object bytes stay in place under the high image's first 1 MiB
        from mc.vfile import Image

        merged = Image("hyperv-high")
        head = himg.ext[0][2]
        merged.put(0, head[:0x40000] + low[0x40000:])
        for off, kind_, pl, ln in himg.ext[1:]:
            if kind_ == 0:
                merged.put(off, pl, meta=False)
            else:
                merged.put_pattern(off, ln, pl[0], pl[1])
        expected = B.plain(tree)
        ctx.transitions += 1
        ctx.states += 1
        with ctx.watch(case):
            try:
                hf = HyperVFile(merged.sparse(log=False))
                got = hf.as_dict()
            except Exception as e:
                ctx.violation(case, {"subject": "hyperv.high", "kind": "exception", "exc": type(e).__name__}, {"exception": repr(e)[:300]})
                return
            if not _same(got, expected) or not _walk_values(hf, expected):
                ctx.violation(case, {"subject": "hyperv.high", "kind": "tree-mismatch"}, {"got": repr(got)[:300]})
        return
    if nontrivial:
        ctx.nontrivial += 1
    img = B.build(tree, **kw)
    expected = B.plain(tree)
    if kind == "competing" and case["active_seq"] < case["stale_seq"]:
        expected = B.plain(tree_expected)
    if kind in ("competing3", "emptied"):
        expected = B.plain(tree_expected)
    if kind == "headers":
        a, b = case["seqs"]
        if a != b:
            # poison the inactive header: wrong signature -> choosing it must not go unnoticed
            off = 0x1000 if a > b else 0
            img = img[:off] + b"\xde\xad\xbe\xef" + img[off + 4:]
    ctx.transitions += 1
    ctx.states += 1
    with ctx.watch(case):
        try:
            hf = HyperVFile(io.BytesIO(img))
            got = hf.as_dict()
        except Exception as e:
            ctx.violation(case, {"subject": "hyperv." + kind, "kind": "exception", "exc": type(e).__name__},
                          {"exception": repr(e)[:300]})
            return
        if not _same(got, expected):
            ctx.violation(case, {"subject": "hyperv." + kind, "kind": "tree-mismatch"},
                          {"got": repr(got)[:500], "expected": repr(expected)[:500]})
            return
        if kind == "headers" and case["seqs"][0] != case["seqs"][1]:
            want = max(case["seqs"])
            if hf.header.sequence_number != want:
                ctx.violation(case, {"subject": "hyperv.headers", "kind": "wrong-active-header"},
                              {"got": hf.header.sequence_number, "expected": want})
                return
        try:
            ok = _walk_values(hf, expected)
        except Exception as e:
            ctx.violation(case, {"subject": "hyperv." + kind, "kind": "item-access-exception", "exc": type(e).__name__},
                          {"exception": repr(e)[:300]})
            return
        if not ok:
            ctx.violation(case, {"subject": "hyperv." + kind, "kind": "item-access-mismatch"}, {})
            return
        # what a caller does with a result does not change the next one: empty every dictionary of the first result (and of
        # the item-access subtrees), decode again
        try:
            _scrub(got)
            for k in list(hf.keys() if hasattr(hf, "keys") else []):
                sub = hf[k]
                if hasattr(sub, "as_dict"):
                    _scrub(sub.as_dict())
            again = hf.as_dict()
        except Exception as e:
            ctx.violation(case, {"subject": "hyperv." + kind, "kind": "exception-on-second-decode", "exc": type(e).__name__},
                          {"exception": repr(e)[:300]})
            return
        if not _same(again, expected):
            ctx.violation(case, {"subject": "hyperv." + kind, "kind": "tree-mismatch-after-caller-changed-earlier-result"},
                          {"got": repr(again)[:500], "expected": repr(expected)[:500]})


def _scrub(d):
    if isinstance(d, dict):
        for v in list(d.values()):
            _scrub(v)
        d.clear()
        d["scrubbed-by-caller"] = 1


def _revalue(tree):
    """Same shape, keys and value byte sizes, different values."""
    out = {}
    for k, (t, v) in tree.items():
        if t == B.T_NODE:
            out[k] = (t, _revalue(v))
        elif t == B.T_INT:
            out[k] = (t, 424242 if v != 424242 else 1)
        elif t == B.T_UINT:
            out[k] = (t, 777 if v != 777 else 1)
        elif t == B.T_DBL:
            out[k] = (t, 2.75)
        elif t == B.T_BOOL:
            out[k] = (t, not v)
        elif t == B.T_STR:
            out[k] = (t, "".join("Q" if ord(c) < 0x10000 else c for c in v))
        else:
            out[k] = (t, bytes((b ^ 0x5A) for b in v))
    return out


def _revalue2(tree):
    """A third value set, different from the tree and from _revalue(tree), same byte sizes."""
    out = {}
    for k, (t, v) in tree.items():
        if t == B.T_NODE:
            out[k] = (t, _revalue2(v))
        elif t == B.T_INT:
            out[k] = (t, -31337)
        elif t == B.T_UINT:
            out[k] = (t, 31337)
        elif t == B.T_DBL:
            out[k] = (t, -8.5)
        elif t == B.T_BOOL:
            out[k] = (t, v)
        elif t == B.T_STR:
            out[k] = (t, "".join("W" if ord(c) < 0x10000 else c for c in v))
        else:
            out[k] = (t, bytes((b ^ 0xA5) for b in v))
    return out


def _merge_expected(tree, newer, which, ntables):
    """Entries are distributed round-robin (preorder index mod ntables); tables in `which` take their values from `newer`."""
    ents_a = B.flatten(tree)
    ents_b = B.flatten(newer)
    idx = [0]

    def rebuild(d, dn):
        out = {}
        for (k, (t, v)), (k2, (t2, v2)) in zip(d.items(), dn.items()):
            i = idx[0]
            idx[0] += 1
            table = (i % ntables) + 1
            if t == B.T_NODE:
                out[k] = (t, rebuild(v, v2))
            else:
                out[k] = (t, v2 if table in which else v)
        return out

    return rebuild(tree, newer)
