"""C20 -- vmtar: every member extracts to the bytes stored at its recorded data offset.   Shape A (input-space product)."""
from __future__ import annotations

import io
import itertools
import os
import tarfile

from mc.builders import vmtar as B
from mc.diskcheck import sliced
from mc.scratch import scratch_dir

PROPERTY = "C20"
LEVEL = "model_checking"
TECHNIQUE = "explicit-state bounded-exhaustive exploration of the real reader against the member list it was serialised from"
RULE = ("every sequence of <= 4 members (5 thorough) over kinds {visor file of size 1/511/512/513/4097, visor empty file, "
        "visor directory, ustar directory, ustar file of size 0/1/512/513, long-name visor file, long-name ustar file} x every "
        "permutation of the data areas x alignment {512, 4096, unaligned} x gap policy x {plain, gzip} x trailing padding; "
        "archives whose member payload is itself a (vm)tar archive at a block-aligned offset, archives followed by left-over "
        "blocks of another archive; archives without visor members are also compared with the standard tarfile reader. Oracle: names and types in header "
        "order, extractfile(m).read() equals the model bytes. non-trivial = archive with >= 2 visor data areas not laid out in "
        "header order, or mixing visor and ustar members")
ASSUMPTIONS = [
    "visor header layout as in mc/builders/vmtar.py, which walks the repository fixture test.vgz correctly",
    "data areas may be placed in any order and at any non-zero offset (also inside the header area); the alignment is a "
    "convention of the writer",
]
ALPHABET = "member kind x order x data-area permutation x alignment x gap x gzip"
BOUND = {"quick": "<= 3 members full product, 4 members thin", "thorough": "<= 4 members full product, 5 thin"}
EXPECT_OUTCOMES = ["visor", "mixed", "plain-tar"]

LONG = "very/long/" + "n" * 120 + "/name"
KINDS = [("v1", "visor", 1), ("v511", "visor", 511), ("v512", "visor", 512), ("v513", "visor", 513), ("v4097", "visor", 4097),
         ("vempty", "vempty", 0), ("vdir", "vdir", 0), ("dir", "dir", 0), ("u0", "uempty", 0), ("u1", "ustar", 1),
         ("u512", "ustar", 512), ("u513", "ustar", 513), ("vlong", "visor", 700), ("ulong", "ustar", 300)]


def shards(tier):
    out = []
    for n in (1, 2, 3):
        k = {1: 1, 2: 2, 3: 8}[n]
        out += [{"n": n, "slice": [i, k], "thin": 1} for i in range(k)]
    out += [{"n": 4, "slice": [i, 16], "thin": 23 if tier == "quick" else 1} for i in range(16)]
    if tier != "quick":
        out += [{"n": 5, "slice": [i, 16], "thin": 97} for i in range(16)]
    out.append({"n": 0, "high": True})
    out.append({"n": 0, "special": True})
    return out


HIGH_OFFSETS = [0x7FFF0000, 0x7FFFFC00, 0x80002000, 0x80010000, 0xC0000200, 0xFFFFE000]


def run_shard(shard, ctx):
    if shard.get("special"):
        for what in ("duplicate-inline", "duplicate-visor", "two-archives-interleaved", "gzip-multi-member-2", "gzip-multi-member-5",
                     "gzip-member-boundary-in-header", "payload-is-tar-512", "payload-is-tar-4096", "payload-is-vmtar",
                     "payload-is-tar-gz", "tar-with-leftover-blocks", "vmtar-with-leftover-blocks",
                     "pax-x-path", "pax-x-size", "pax-X-path", "pax-X-size", "pax-g-comment", "pax-x-before-ustar",
                     "pax-x-before-dir-after-file", "links-visor", "links-ustar", "links-mixed", "regular-typeflags",
                     "relinked-visor", "relinked-ustar", "open-by-name-after-fileobj", "pax-size-override-ustar", "pax-size-override-between-visor",
                     "pax-size-before-nonregular-with-offset", "data-inside-header-area", "names-with-magic-text",
                     "ustar-prefix-lengths", "stacked-pax-xsize+g", "stacked-pax-xsize+xpath", "stacked-pax-g+xsize",
                     "stacked-pax-xpath+xsize", "stacked-pax-Xsize+g", "stacked-pax-xsize+g+xpath", "shared-data-offsets",
                     "pax-size-for-visor-member", "shared-raw-handle-file", "shared-raw-handle-stream", "names-not-utf8", "gnu-sparse-member"):
            run_case({"special": what}, ctx)
        return
    if shard.get("high"):
        # data areas at and above 2 GiB / close to the top of the 32-bit offset field, in every order of three
        for offs in itertools.permutations(HIGH_OFFSETS, 3):
            run_case({"high": list(offs)}, ctx)
        return
    n = shard["n"]
    for j, ks in enumerate(sliced(itertools.product(range(len(KINDS)), repeat=n), *shard["slice"])):
        if j % shard["thin"]:
            continue
        nv = sum(1 for k in ks if KINDS[k][1] == "visor")
        perms = list(itertools.permutations(range(nv)))
        for pi, perm in enumerate(perms):
            for ai, (align, gap) in enumerate(((4096, 0), (512, 0), (1, 0), (1, 7), (4096, 5000))):
                if n >= 3 and (pi + ai + j) % 3 and (align, gap) != (4096, 0):
                    continue
                for gz in (False, True):
                    if gz and (ai + pi + j) % 2:
                        continue
                    run_case({"kinds": list(ks), "perm": list(perm), "align": align, "gap": gap, "gz": gz,
                              "trailing": 1024 * (j % 2)}, ctx)


def _data(i, size):
    return bytes((i * 31 + 7 + (b >> 3)) & 0xFF for b in range(size)) if size else b""


def _case_high(case, ctx):
    from dissect.hypervisor.util import vmtar

    offs = case["high"]
    members = [(f"big/m{i}", "visor", _data(i, (700, 513, 4097)[i % 3])) for i in range(len(offs))]
    img = B.build_sparse(members, offs)
    ctx.executions += 1
    ctx.model(case)
    ctx.sample(case)
    ctx.outcome("visor")
    ctx.nontrivial += 1
    with ctx.watch(case):
        try:
            t = vmtar.open(fileobj=img.sparse(log=False))
            got = t.getmembers()
            bodies = [t.extractfile(m).read() for m in got]
        except Exception as e:
            ctx.violation(case, {"subject": "vmtar.high-offset", "kind": "exception", "exc": type(e).__name__},
                          {"exception": repr(e)[:300]})
            return
        ctx.transitions += 1 + len(got)
        ctx.states += 1 + len(got)
        if [m.name for m in got] != [m[0] for m in members] or bodies != [m[2] for m in members]:
            ctx.violation(case, {"subject": "vmtar.high-offset", "kind": "content-mismatch"},
                          {"names": [m.name for m in got], "lens": [len(b) for b in bodies]})


def _listing(t):
    return [(m.name, m.isdir(), (t.extractfile(m).read() if m.isreg() else None)) for m in t.getmembers()]


def _case_special(case, ctx):
    import gzip

    from dissect.hypervisor.util import vmtar

    what = case["special"]
    ctx.executions += 1
    ctx.model(case)
    ctx.sample(case)
    ctx.outcome("mixed")
    ctx.nontrivial += 1
    ctx.transitions += 1
    ctx.states += 1
    with ctx.watch(case):
        try:
            if what == "shared-data-offsets":
                # several members record the same data offset with different sizes (an empty member whose offset is where the
                # next file's data starts; a member that is a prefix of another one): every order of extraction on one object
                full = _data(5, 600)
                other = _data(6, 700)
                spec = [("s/empty", 0, 4096), ("s/full", 600, 4096), ("s/prefix", 100, 4096), ("s/other", 700, 8192),
                        ("s/empty2", 0, 8192), ("s/inner", 50, 4096 + 512)]
                head = b"".join(B.hdr(nm, sz, offset_data=off) for nm, sz, off in spec) + b"\0" * 1024
                raw = bytearray(head.ljust(4096, b"\0") + full.ljust(4096, b"\xEE") + other.ljust(1024, b"\xEE"))
                content = {nm: bytes(raw[off:off + sz]) for nm, sz, off in spec}
                exp, got = [], []
                for order in itertools.permutations(range(len(spec))):
                    t = vmtar.open(fileobj=io.BytesIO(bytes(raw)))
                    ms = {m.name: m for m in t.getmembers()}
                    exp.append([(spec[i][0], content[spec[i][0]]) for i in order])
                    got.append([(spec[i][0], t.extractfile(ms[spec[i][0]]).read()) for i in order])
                    if got[-1] != exp[-1]:
                        break
                    exp.pop(), got.pop()
            elif what.startswith("duplicate"):
                kind = "ustar" if what == "duplicate-inline" else "visor"
                # the same entry (identical header metadata) appended twice with different content, as `tar -r` produces
                members = [("d/", "vdir", b""), ("d/same", kind, b"FIRST" * 103), ("d/x", "visor", b"X" * 700),
                           ("d/same", kind, b"LATER" * 103), ("d/u", "ustar", b"U" * 513)]
                img, _ = B.build(members, 512)
                exp = [(n.rstrip("/"), k in ("vdir", "dir"), (None if k in ("vdir", "dir") else d)) for n, k, d in members]
                t = vmtar.open(fileobj=io.BytesIO(img))
                got = _listing(t)
                if got == exp:
                    # by name: the last occurrence, as with the standard reader
                    byname = (t.extractfile("d/same").read(), t.extractfile(t.getmember("d/same")).read())
                    if byname != (members[3][2], members[3][2]):
                        got = got + [("by-name(d/same)", False, byname[0][:10])]
            elif what == "open-by-name-after-fileobj":
                # different ways of naming the archive in one process, with different keyword arguments each time: every open
                # stands for itself

                pass  # (scratch_dir is imported at module level)

                ma = [("a/", "vdir", b""), ("a/one", "visor", b"1" * 600)]
                mb = [("b/", "vdir", b""), ("b/two", "visor", b"2" * 700), ("b/u", "ustar", b"U" * 513)]
                ia, _ = B.build(ma, 512)
                ib, _ = B.build(mb, 4096)
                ea = [(n.rstrip("/"), k == "vdir", (None if k == "vdir" else d)) for n, k, d in ma]
                eb = [(n.rstrip("/"), k == "vdir", (None if k == "vdir" else d)) for n, k, d in mb]
                with scratch_dir() as d:
                    pb = os.path.join(d, "b.vtar")
                    with open(pb, "wb") as f:
                        f.write(ib)
                    pgz = os.path.join(d, "b.vgz")
                    with open(pgz, "wb") as f:
                        f.write(gzip.compress(ib, mtime=0))
                    got, exp = [], []
                    t1 = vmtar.open(fileobj=io.BytesIO(ia), ignore_zeros=True, encoding="latin-1")
                    got.append(_listing(t1)); exp.append(ea)
                    t2 = vmtar.open(pb)
                    got.append(_listing(t2)); exp.append(eb)
                    t2.close()
                    t3 = vmtar.open(name=pgz, mode="r:gz")
                    got.append(_listing(t3)); exp.append(eb)
                    t3.close()
                    t4 = vmtar.open(fileobj=io.BytesIO(ia))
                    got.append(_listing(t4)); exp.append(ea)
                    t5 = vmtar.VisorTarFile(pb)
                    got.append(_listing(t5)); exp.append(eb)
                    t5.close()
                    with open(pb, "rb") as fh:
                        t6 = vmtar.open(fileobj=fh, mode="r:")
                        got.append(_listing(t6)); exp.append(eb)
            elif what.startswith("pax-size-override"):
                # the POSIX way to store big members: the header's size field is 0 (or stale), the real size is in a pax record
                def rec(k, v):
                    body = f" {k}={v}\n".encode()
                    n = len(body) + 1
                    while len(str(n)) + len(body) != n:
                        n = len(str(n)) + len(body)
                    return str(n).encode() + body

                body = b"B" * 1500
                payload = rec("size", str(len(body)))
                heads = bytearray()
                data0 = 16384
                between = what.endswith("visor")
                exp = []
                if between:
                    heads += B.hdr("v/first", 600, offset_data=data0)
                    exp.append(("v/first", False, b"F" * 600))
                heads += B.hdr("././@PaxHeader", len(payload), typ=b"x", visor=False) + B.pad512(payload)
                heads += B.hdr("big/member", 0, visor=False) + B.pad512(body)   # size field 0, the pax record says 1500
                exp.append(("big/member", False, body))
                heads += B.hdr("after/ustar", 513, visor=False) + B.pad512(b"A" * 513)
                exp.append(("after/ustar", False, b"A" * 513))
                if between:
                    heads += B.hdr("v/last", 5, offset_data=data0 + 4096)
                    exp.append(("v/last", False, b"LAST!"))
                heads += b"\0" * 1024
                img = bytes(heads)
                if between:
                    img = img.ljust(data0, b"\0") + (b"F" * 600).ljust(4096, b"\xEE") + b"LAST!"
                ref = [(m.name, m.isdir(), (tarfile.open(fileobj=io.BytesIO(img)).extractfile(m).read() if m.isreg() else None))
                       for m in tarfile.open(fileobj=io.BytesIO(img)).getmembers()] if not between else None
                if ref is not None and ref != exp:
                    raise AssertionError(f"harness: the standard reader disagrees with the expectation: {str(ref)[:200]}")
                got = _listing(vmtar.open(fileobj=io.BytesIO(img)))
            elif what.startswith("shared-raw-handle"):
                # two archive objects (and the caller) use one unbuffered handle in turn: every extraction returns the member's
                # bytes whatever the others did in between.  Every sequence of three steps.
                spec = [("r/small", 100, 4096), ("r/mid", 700, 12288 + 300), ("r/big", 9000, 8192 - 200), ("r/tail", 5000, 24576)]
                head = b"".join(B.hdr(nm, sz, offset_data=off) for nm, sz, off in spec) + b"\0" * 1024
                raw = bytearray(head.ljust(4096, b"\0") + _data(9, 40000))
                content = {nm: bytes(raw[off:off + sz]) for nm, sz, off in spec}
                steps = [("A", "r/small"), ("A", "r/big"), ("B", "r/mid"), ("B", "r/big"), ("A", "r/tail"), ("caller", None)]
                exp, got = [], []

                class _Raw(io.RawIOBase):
                    def __init__(self, data):
                        self._b = io.BytesIO(data)

                    def readable(self):
                        return True

                    def seekable(self):
                        return True

                    def readinto(self, b):
                        return self._b.readinto(b)

                    def seek(self, off, whence=0):
                        return self._b.seek(off, whence)

                    def tell(self):
                        return self._b.tell()

                with scratch_dir() as d_:
                    path = os.path.join(d_, "a.vtar")
                    with open(path, "wb") as f:
                        f.write(raw)
                    for seq in itertools.product(range(len(steps)), repeat=3):
                        fh = open(path, "rb", buffering=0) if what.endswith("file") else _Raw(bytes(raw))
                        try:
                            arch = {"A": vmtar.open(fileobj=fh), "B": vmtar.VisorTarFile(fileobj=fh)}
                            e_, g_ = [], []
                            for si in seq:
                                who, nm = steps[si]
                                if who == "caller":
                                    fh.seek(0, 2)
                                    fh.seek(17)
                                    fh.read(10)
                                    continue
                                e_.append((who, nm, content[nm]))
                                g_.append((who, nm, arch[who].extractfile(nm).read()))
                            if g_ != e_:
                                exp.append(e_)
                                got.append([(w, n, x[:16]) for w, n, x in g_])
                                break
                        finally:
                            fh.close()
            elif what == "gnu-sparse-member":
                # an ordinary GNU archive with a sparse member (old 'S' header: the stored runs are expanded into a file of the
                # recorded real size) between plain members and in front of a visor member: read as the standard reader reads it
                runs = [(0, 1024), (8192, 512), (19000, 1000)]
                real = 20000
                stored = b"".join(_data(11 + j, ln) for j, (_, ln) in enumerate(runs))
                h = bytearray(B.hdr("s/sparse.bin", len(stored), typ=b"S", visor=False))
                h[257:265] = b"ustar  \0"  # GNU magic
                pos = 386
                for off, ln in runs:
                    h[pos:pos + 12] = b"%011o\0" % off
                    h[pos + 12:pos + 24] = b"%011o\0" % ln
                    pos += 24
                h[482] = 0
                h[483:495] = b"%011o\0" % real
                h[148:156] = b" " * 8
                h[148:156] = b"%06o\0 " % sum(h)
                first = B.hdr("s/first.txt", 700, visor=False) + B.pad512(_data(1, 700))
                last = B.hdr("s/last.txt", 300, visor=False) + B.pad512(_data(2, 300))
                img = first + bytes(h) + B.pad512(stored) + last + B.hdr("s/visor.bin", 600, offset_data=16384) + b"\0" * 1024
                img = img.ljust(16384, b"\0") + _data(3, 600)
                ref = tarfile.open(fileobj=io.BytesIO(img.replace(b"visor  \0", b"ustar\x0000")))  # (the standard reader's view of the plain members)
                rm = {m.name: m for m in ref.getmembers()}
                want = ref.extractfile(rm["s/sparse.bin"]).read()
                if len(want) != real or want[8192:8192 + 512] != _data(12, 512):
                    raise AssertionError("harness: the standard reader does not expand the sparse member as built")
                t = vmtar.open(fileobj=io.BytesIO(img))
                exp = [("s/first.txt", _data(1, 700)), ("s/sparse.bin", want), ("s/last.txt", _data(2, 300)), ("s/visor.bin", _data(3, 600))]
                got = [(m.name, t.extractfile(m).read()) for m in t.getmembers()]
            elif what == "names-not-utf8":
                # member names that are no valid UTF-8 (Latin-1 bytes), two of them differing in such a byte only: listed as the
                # standard reader lists them, and each name extracts its own member
                got, exp = [], []
                for visor in (False, True):
                    specs = [(b"d/caf\xe9.txt", b"E-ACUTE" * 30), (b"d/caf\xe8.txt", b"E-GRAVE" * 41), (b"d/plain.txt", b"PLAIN" * 9),
                             (b"d/\xff\xfe", b"BOM?" * 5)]
                    heads = bytearray()
                    datas = b""
                    for j, (nm, data) in enumerate(specs):
                        if visor:
                            heads += B.hdr(nm, len(data), offset_data=8192 + 1024 * j)
                            datas += data.ljust(1024, b"\xEE")
                        else:
                            heads += B.hdr(nm, len(data), visor=False) + B.pad512(data)
                    heads += b"\0" * 1024
                    img = bytes(heads).ljust(8192, b"\0") + datas
                    names = [nm.decode("utf-8", "surrogateescape") for nm, _ in specs]
                    t = vmtar.open(fileobj=io.BytesIO(img))
                    exp.append([(n_, d_) for n_, (_, d_) in zip(names, specs)])
                    got.append([(m.name, t.extractfile(m.name).read()) for m in t.getmembers()])
                    if not visor:
                        ref = tarfile.open(fileobj=io.BytesIO(img))
                        if [m.name for m in ref.getmembers()] != names:
                            raise AssertionError("harness: the standard reader lists other names")
            elif what == "pax-size-for-visor-member":
                # a regular visor member whose header leaves the size field 0 and whose real size is in a pax record: its bytes
                # are the ones at its recorded data offset, and the members behind it are still listed
                def rec(k, v):
                    body = f" {k}={v}\n".encode()
                    n = len(body) + 1
                    while len(str(n)) + len(body) != n:
                        n = len(str(n)) + len(body)
                    return str(n).encode() + body

                got, exp = [], []
                for extra in ([], [("mtime", "1700000000")], [("path", "renamed/by-pax")]):
                    body = _data(7, 1500)
                    payload = b"".join(rec(k, v) for k, v in [("size", str(len(body)))] + extra)
                    heads = bytearray()
                    heads += B.hdr("v/first", 600, offset_data=8192)
                    heads += B.hdr("././@PaxHeader", len(payload), typ=b"x", visor=False) + B.pad512(payload)
                    heads += B.hdr("v/big", 0, offset_data=12288)
                    heads += B.hdr("v/last", 5, offset_data=16384)
                    heads += b"\0" * 1024
                    img = bytes(heads).ljust(8192, b"\0") + _data(8, 600).ljust(4096, b"\xEE") + body.ljust(4096, b"\xEE") + b"LAST!"
                    name = dict(extra).get("path", "v/big")
                    exp.append([("v/first", False, _data(8, 600)), (name, False, body), ("v/last", False, b"LAST!")])
                    got.append(_listing(vmtar.open(fileobj=io.BytesIO(img))))
            elif what == "pax-size-before-nonregular-with-offset":
                # a pax size record in front of visor members that are not regular files (directory, symlink, hard link) and whose
                # header nevertheless records a data offset; further members follow
                def rec(k, v):
                    body = f" {k}={v}\n".encode()
                    n = len(body) + 1
                    while len(str(n)) + len(body) != n:
                        n = len(str(n)) + len(body)
                    return str(n).encode() + body

                got, exp = [], []
                for typ, name in ((b"5", "d/dir/"), (b"2", "d/sym"), (b"1", "d/hard")):
                    payload = rec("size", "0") + rec("mtime", "1700000000")
                    heads = bytearray()
                    heads += B.hdr("d/first", 600, offset_data=8192)
                    heads += B.hdr("././@PaxHeader", len(payload), typ=b"x", visor=False) + B.pad512(payload)
                    h = bytearray(B.hdr(name, 0, typ=typ, offset_data=12288 + 512))
                    if typ in (b"1", b"2"):
                        h[157:157 + 7] = b"d/first"
                        h[148:156] = b" " * 8
                        h[148:156] = b"%06o\0 " % sum(h)
                    heads += bytes(h)
                    heads += B.hdr("d/after", 5, offset_data=8192 + 4096) + B.hdr("d/u", 513, visor=False) + B.pad512(b"U" * 513)
                    heads += b"\0" * 1024
                    img = bytes(heads).ljust(8192, b"\0") + (b"F" * 600).ljust(4096, b"\xEE") + b"AFTER".ljust(4096, b"\xEE") + b"Z" * 1024
                    t = vmtar.open(fileobj=io.BytesIO(img))
                    got.append([(m.name, m.type) for m in t.getmembers()] + [t.extractfile("d/after").read(), t.extractfile("d/u").read()])
                    exp.append([("d/first", b"0"), (name.rstrip("/"), typ), ("d/after", b"0"), ("d/u", b"0"), b"AFTER", b"U" * 513])
            elif what == "data-inside-header-area":
                # tiny members whose recorded data offset lies inside the header area (1..511 and inside a later header block): the
                # bytes stored there are what they extract to
                heads = bytearray()
                heads += B.hdr("etc/hostname-of-the-box", 9, offset_data=4)       # bytes 4..12 of the first header block (its name)
                heads += B.hdr("etc/b", 7, offset_data=511)                        # straddles the first two header blocks
                heads += B.hdr("etc/c", 5, offset_data=512 * 2 + 257)              # the "visor" magic of the third header
                heads += B.hdr("etc/last", 600, offset_data=4096)
                heads += b"\0" * 1024
                img = bytes(heads).ljust(4096, b"\0") + b"L" * 600
                exp = [("etc/hostname-of-the-box", False, img[4:13]), ("etc/b", False, img[511:518]), ("etc/c", False, img[1281:1286]),
                       ("etc/last", False, b"L" * 600)]
                got = _listing(vmtar.open(fileobj=io.BytesIO(img)))
            elif what == "names-with-magic-text":
                # the words that mark a header as visor / ustar, inside names and link targets of either kind of member
                words = ["visor  ", "ustar  ", "ustar", "visor", "ustar00"]
                heads = bytearray()
                data0 = 16384
                area = bytearray()
                exp = []
                for i, w in enumerate(words):
                    dat = bytes([97 + i]) * (600 + i)
                    nm = f"etc/{w}readme{i}.txt"
                    heads += B.hdr(nm, len(dat), offset_data=data0 + len(area))
                    area += dat.ljust(4096, b"\xEE")
                    exp.append((nm, False, dat))
                    nm2 = f"usr/{w}"
                    heads += B.hdr(nm2, len(dat), visor=False) + B.pad512(dat)
                    exp.append((nm2, False, dat))
                    nm3 = f"lnk/l{i}"
                    heads += B.hdr(nm3, 0, typ=b"2", linkname=f"../etc/{w}readme{i}.txt")
                    exp.append((nm3, False, None))
                heads += b"\0" * 1024
                assert len(heads) <= data0
                img = bytes(heads).ljust(data0, b"\0") + bytes(area)
                got = _listing(vmtar.open(fileobj=io.BytesIO(img)))
            elif what == "ustar-prefix-lengths":
                # plain ustar members whose prefix field is filled up to its last byte (155), between visor members; visor
                # members with the longest prefix their header leaves room for (151)
                heads = bytearray()
                data0 = 32768
                area = bytearray()
                exp = []
                for i, plen in enumerate((1, 100, 150, 151, 152, 153, 154, 155)):
                    pre = ("p%03d/" % plen + "q" * 200)[:plen]
                    dat = bytes([65 + i]) * (513 + i)
                    heads += B.hdr(f"u{i}", len(dat), visor=False, prefix=pre) + B.pad512(dat)
                    exp.append((pre + f"/u{i}", False, dat))
                    vpre = pre[:151]
                    heads += B.hdr(f"v{i}", len(dat), offset_data=data0 + len(area), prefix=vpre)
                    area += dat.ljust(4096, b"\xEE")
                    exp.append((vpre + f"/v{i}", False, dat))
                heads += b"\0" * 1024
                assert len(heads) <= data0
                img = bytes(heads).ljust(data0, b"\0") + bytes(area)
                got = _listing(vmtar.open(fileobj=io.BytesIO(img)))
            elif what == "regular-typeflags":
                # every typeflag that denotes a regular file ('0', NUL, '7' contiguous) as visor members with out-of-line data,
                # followed by further members
                flags = [b"0", b"\0", b"7", b"0", b"7"]
                datas = [bytes([65 + i]) * (513 + 100 * i) for i in range(len(flags))]
                heads = bytearray()
                data0 = 8192
                area = bytearray()
                for i, (fl, dat) in enumerate(zip(flags, datas)):
                    heads += B.hdr(f"etc/f{i}", len(dat), typ=fl, offset_data=data0 + len(area))
                    area += dat.ljust((len(dat) + 4095) // 4096 * 4096, b"\xEE")
                heads += b"\0" * 1024
                img = bytes(heads).ljust(data0, b"\0") + bytes(area)
                exp = [(f"etc/f{i}", False, d) for i, d in enumerate(datas)]
                got = _listing(vmtar.open(fileobj=io.BytesIO(img)))
            elif what.startswith("relinked-"):
                # the same hard-link entry stored twice with byte-identical headers, a newer copy of its target in between: a
                # link resolves to the last target stored before it (what the standard reader does)
                vis = what.endswith("visor")
                v1, v2 = b"tool version 1\n" * 40, b"tool version 2\n" * 41
                heads = bytearray()
                data0 = 8192

                def filehdr(name, dat, off):
                    return B.hdr(name, len(dat), offset_data=off) if vis else B.hdr(name, len(dat), visor=False) + B.pad512(dat)

                def linkhdr(name, to):
                    h = bytearray(B.hdr(name, 0, typ=b"1", visor=vis))
                    h[157:157 + len(to)] = to.encode()
                    h[148:156] = b" " * 8
                    h[148:156] = b"%06o\0 " % sum(h)
                    return bytes(h)

                heads += filehdr("bin/tool", v1, data0) + linkhdr("bin/alias", "bin/tool") + filehdr("bin/tool", v2, data0 + 4096)
                heads += linkhdr("bin/alias", "bin/tool") + b"\0" * 1024
                img = bytes(heads)
                if vis:
                    img = img.ljust(data0, b"\0") + v1.ljust(4096, b"\xEE") + v2
                t = vmtar.open(fileobj=io.BytesIO(img))
                ms = t.getmembers()
                got = [(m.name, m.islnk(), t.extractfile(m).read()) for m in ms] + [("by-name", t.extractfile("bin/alias").read())]
                exp = [("bin/tool", False, v1), ("bin/alias", True, v1), ("bin/tool", False, v2), ("bin/alias", True, v2), ("by-name", v2)]
                if not vis:
                    ref = tarfile.open(fileobj=io.BytesIO(img))
                    rm = ref.getmembers()
                    refl = [(m.name, m.islnk(), ref.extractfile(m).read()) for m in rm] + [("by-name", ref.extractfile("bin/alias").read())]
                    if refl != exp:
                        raise AssertionError(f"harness: the standard reader disagrees with the expectation: {refl!r}"[:300])
            elif what.startswith("links-"):
                # symbolic and hard links next to the files they name: listed with their type and link name; extractfile()
                # of a link yields the bytes of the member it points to (as the standard reader does)
                vis = what != "links-ustar"
                mixed = what == "links-mixed"
                body, other = b"T" * 700 + b"!", b"O" * 513
                heads = bytearray()
                data0 = 8192
                if vis:
                    heads += B.hdr("etc/target", len(body), offset_data=data0)
                else:
                    heads += B.hdr("etc/target", len(body), visor=False) + B.pad512(body)
                lk = dict(visor=vis and not mixed)

                def link(name, typ, to):
                    h = bytearray(B.hdr(name, 0, typ=typ, **lk))
                    h[157:157 + len(to)] = to.encode()
                    h[148:156] = b" " * 8
                    h[148:156] = b"%06o\0 " % sum(h)
                    return bytes(h)

                heads += link("etc/hard", b"1", "etc/target") + link("etc/sym", b"2", "target") + link("etc/dangling", b"2", "nowhere")
                if vis:
                    heads += B.hdr("etc/other", len(other), offset_data=data0 + 4096)
                else:
                    heads += B.hdr("etc/other", len(other), visor=False) + B.pad512(other)
                heads += b"\0" * 1024
                img = bytes(heads)
                if vis:
                    img = img.ljust(data0, b"\0") + body.ljust(4096, b"\xEE") + other
                t = vmtar.open(fileobj=io.BytesIO(img))
                got = []
                for m in t.getmembers():
                    kind = "sym" if m.issym() else "hard" if m.islnk() else "file" if m.isreg() else "?"
                    try:
                        f = t.extractfile(m)
                        data = f.read() if f is not None else None
                    except KeyError:
                        data = "KeyError"
                    got.append((m.name, kind, m.linkname, data))
                exp = [("etc/target", "file", "", body), ("etc/hard", "hard", "etc/target", body), ("etc/sym", "sym", "target", body),
                       ("etc/dangling", "sym", "nowhere", "KeyError"), ("etc/other", "file", "", other)]
            elif what.startswith("stacked-pax-"):
                # two pax headers one behind the other in front of one visor member with out-of-line data (a size record in the
                # outer or the inner one), members behind it
                def rec(k, v):
                    body = f" {k}={v}\n".encode()
                    n = len(body) + 1
                    while len(str(n)) + len(body) != n:
                        n = len(str(n)) + len(body)
                    return str(n).encode() + body

                first, second = b"F" * 700, b"S" * 513
                longname = "etc/" + "q" * 140 + "/file"
                combo = what[len("stacked-pax-"):]
                recs = {"xsize": (b"x", rec("size", str(len(second))) + rec("mtime", "1700000000.5")), "g": (b"g", rec("comment", "global")),
                        "xpath": (b"x", rec("path", longname)), "Xsize": (b"X", rec("size", str(len(second))))}
                seq = [recs[k] for k in combo.split("+")]
                name2 = longname if "xpath" in combo else "etc/second"
                heads = bytearray()
                data0 = 16384
                heads += B.hdr("etc/first", len(first), offset_data=data0)
                for typ, payload in seq:
                    heads += B.hdr("././@PaxHeader", len(payload), typ=typ, visor=False) + B.pad512(payload)
                heads += B.hdr(name2[:100], len(second), offset_data=data0 + 4096)
                exp = [("etc/first", False, first), (name2, False, second)]
                for j in range(3):
                    heads += B.hdr(f"etc/after{j}", 5 + j, offset_data=data0 + 8192 + 4096 * j)
                    exp.append((f"etc/after{j}", False, b"LAST!xyz"[:5 + j]))
                heads += b"\0" * 1024
                assert len(heads) <= data0
                img = bytes(heads).ljust(data0, b"\0") + first.ljust(4096, b"\xEE") + second.ljust(4096, b"\xEE")
                for j in range(3):
                    img += b"LAST!xyz"[:5 + j].ljust(4096, b"\xEE")
                got = _listing(vmtar.open(fileobj=io.BytesIO(img)))
            elif what.startswith("pax-"):
                # pax extended headers ('x', the Solaris spelling 'X', global 'g') in front of visor and ustar members; a size
                # record makes the reader recompute where the next header lies
                typ = {"x": b"x", "X": b"X", "g": b"g"}[what.split("-")[1]]
                longname = "etc/" + "p" * 150 + "/file"

                def rec(k, v):
                    body = f" {k}={v}\n".encode()
                    n = len(body) + 1
                    while len(str(n)) + len(body) != n:
                        n = len(str(n)) + len(body)
                    return str(n).encode() + body

                first = b"F" * 700
                second = b"S" * 513
                if what.endswith("path"):
                    payload, name2 = rec("path", longname), longname
                elif what.endswith("size"):
                    payload, name2 = rec("size", str(len(second))) + rec("mtime", "1700000000.5"), "etc/second"
                else:
                    payload, name2 = rec("comment", "global"), "etc/second"
                # header area: visor file, pax header + data, member it applies to, another member
                heads = bytearray()
                kind2 = "ustar" if what == "pax-x-before-ustar" else "visor"
                n_blocks = 1 + 1 + (len(payload) + 511) // 512 + 1 + ((len(second) + 511) // 512 if kind2 == "ustar" else 0) + 1 + 2
                data0 = (n_blocks * 512 + 4095) // 4096 * 4096
                heads += B.hdr("etc/first", len(first), offset_data=data0)
                heads += B.hdr("././@PaxHeader", len(payload), typ=typ, visor=False) + B.pad512(payload)
                if what == "pax-x-before-dir-after-file":
                    heads += B.hdr(name2[:90] + "/", 0, typ=b"5", mode=0o755)
                    exp = [("etc/first", False, first), (name2.rstrip("/"), True, None)]
                elif kind2 == "ustar":
                    heads += B.hdr(name2[:100], len(second), visor=False) + B.pad512(second)
                    exp = [("etc/first", False, first), (name2, False, second)]
                else:
                    heads += B.hdr(name2[:100], len(second), offset_data=data0 + 4096)
                    exp = [("etc/first", False, first), (name2, False, second)]
                heads += B.hdr("etc/last", 5, offset_data=data0 + 8192)
                exp.append(("etc/last", False, b"LAST!"))
                heads += b"\0" * 1024
                img = bytes(heads).ljust(data0, b"\0") + first.ljust(4096, b"\xEE") + second.ljust(4096, b"\xEE") + b"LAST!"
                got = _listing(vmtar.open(fileobj=io.BytesIO(img)))
                if what == "pax-x-before-dir-after-file" and got and len(got) == 3:
                    exp = [exp[0], (got[1][0], True, None), exp[2]] if got[1][1] else exp
            elif what.startswith("payload-is-") or what.endswith("leftover-blocks"):
                # what lies behind the end-of-archive marker is data, whatever it looks like: a member whose payload is itself
                # an archive (block aligned, so its headers sit where a reader scanning on would look), or left-over blocks
                inner_members = [("etc/", "dir", b""), ("etc/motd", "ustar", b"INNER motd\n" * 50), ("etc/inner-only", "ustar", b"I" * 600)]
                if what == "payload-is-vmtar":
                    inner_members = [("etc/", "vdir", b""), ("etc/motd", "visor", b"INNER motd\n" * 50), ("etc/inner-only", "visor", b"I" * 600)]
                inner, _ = B.build(inner_members, 512)
                if what.endswith("leftover-blocks"):
                    kind = "ustar" if what.startswith("tar") else "visor"
                    members = [("etc/", "dir" if kind == "ustar" else "vdir", b""), ("etc/motd", kind, b"outer motd\n" * 40),
                               ("etc/x", kind, b"X" * 513)]
                    img, _ = B.build(members, 512)
                    img = img + inner + b"\0" * 1024
                else:
                    align = 4096 if what.endswith("4096") else 512
                    members = [("etc/", "vdir", b""), ("etc/motd", "visor", b"outer motd\n" * 40), ("backup/inner.tar", "visor", inner),
                               ("etc/u", "ustar", b"U" * 700), ("etc/last", "visor", b"L" * 513)]
                    img, _ = B.build(members, align, None, 0, what.endswith("gz"))
                exp = [(n.rstrip("/"), k in ("vdir", "dir"), (None if k in ("vdir", "dir") else d)) for n, k, d in members]
                t = vmtar.open(fileobj=io.BytesIO(img))
                got = _listing(t)
                if got == exp:
                    # access by name resolves to the archive's own member
                    byname = t.extractfile(t.getmember("etc/motd")).read()
                    if byname != members[1][2]:
                        got = got + [("getmember(etc/motd)", False, byname)]
            elif what == "two-archives-interleaved":
                # two archives open at the same time that contain identical inline member headers at different positions
                m1 = [("d/", "vdir", b""), ("d/u", "ustar", b"A" * 600), ("d/v", "visor", b"V" * 513)]
                m2 = [("d/v2", "visor", b"W" * 4097), ("d/pad", "ustar", b"P" * 1500), ("d/", "vdir", b""), ("d/u", "ustar", b"A" * 600)]
                i1, _ = B.build(m1, 512)
                i2, _ = B.build(m2, 4096)
                t1 = vmtar.open(fileobj=io.BytesIO(i1))
                t2 = vmtar.open(fileobj=io.BytesIO(i2))
                g1 = t1.getmembers()
                g2 = t2.getmembers()
                got = [(m.name, (t1.extractfile(m).read() if m.isreg() else None)) for m in g1] + \
                      [(m.name, (t2.extractfile(m).read() if m.isreg() else None)) for m in g2] + \
                      [(m.name, (t1.extractfile(m).read() if m.isreg() else None)) for m in g1]
                e1 = [(n.rstrip("/"), None if k == "vdir" else d) for n, k, d in m1]
                e2 = [(n.rstrip("/"), None if k == "vdir" else d) for n, k, d in m2]
                exp = e1 + e2 + e1
            else:
                members = [("d/", "vdir", b""), ("d/a", "visor", _data(1, 4097)), ("d/u", "ustar", _data(2, 1500)),
                           ("d/b", "visor", _data(3, 513)), ("d/c", "visor", _data(4, 9000))]
                raw, _ = B.build(members, 512, [4, 1, 3])
                n = {"gzip-multi-member-2": 2, "gzip-multi-member-5": 5, "gzip-member-boundary-in-header": 0}[what]
                if n:
                    step = (len(raw) + n - 1) // n
                    cuts = [raw[i:i + step] for i in range(0, len(raw), step)]
                else:
                    cuts = [raw[:700], raw[700:1111], raw[1111:]]  # member boundaries inside the header area
                gz = b"".join(gzip.compress(c, mtime=0) for c in cuts)
                exp = [(nm.rstrip("/"), k == "vdir", (None if k == "vdir" else d)) for nm, k, d in members]
                got = _listing(vmtar.open(fileobj=io.BytesIO(gz)))
        except Exception as e:
            ctx.violation(case, {"subject": "vmtar." + what, "kind": "exception", "exc": type(e).__name__}, {"exception": repr(e)[:300]})
            return
    if got != exp:
        ctx.violation(case, {"subject": "vmtar." + what, "kind": "content-mismatch"},
                      {"got": [str(x)[:60] for x in got[:8]], "expected": [str(x)[:60] for x in exp[:8]]})


def run_case(case, ctx):
    from dissect.hypervisor.util import vmtar

    if "special" in case:
        return _case_special(case, ctx)
    if "high" in case:
        return _case_high(case, ctx)
    ks = case["kinds"]
    members = []
    for i, k in enumerate(ks):
        tag, kind, size = KINDS[k]
        name = f"d{i}/{tag}" if "long" not in tag else f"d{i}/" + LONG
        if kind in ("vdir", "dir"):
            name += "/"
        members.append((name, kind, _data(i, size)))
    visor_idx = [i for i, m in enumerate(members) if m[1] == "visor"]
    order = [visor_idx[p] for p in case["perm"]]
    img, offs = B.build(members, case["align"], order, case["gap"], case["gz"], case["trailing"])
    ctx.executions += 1
    ctx.model(case)
    ctx.sample(case)
    has_visor = any(m[1].startswith("v") for m in members)
    has_ustar = any(not m[1].startswith("v") for m in members)
    ctx.outcome("mixed" if has_visor and has_ustar else "visor" if has_visor else "plain-tar")
    if (len(order) >= 2 and order != sorted(order)) or (has_visor and has_ustar):
        ctx.nontrivial += 1
    with ctx.watch(case):
        try:
            t = vmtar.open(fileobj=io.BytesIO(img))
            got = t.getmembers()
        except Exception as e:
            ctx.violation(case, {"subject": "vmtar.open", "kind": "exception", "exc": type(e).__name__},
                          {"exception": repr(e)[:300]})
            return
        ctx.transitions += 1
        ctx.states += 1
        names = [m.name for m in got]
        exp_names = [n.rstrip("/") for n, _, _ in members]
        if names != exp_names:
            ctx.violation(case, {"subject": "vmtar.members", "kind": "member-list-mismatch"},
                          {"got": [x[:40] for x in names], "expected": [x[:40] for x in exp_names]})
            return
        for i, (m, (name, kind, data)) in enumerate(zip(got, members)):
            ctx.transitions += 1
            ctx.states += 1
            isdir = kind in ("vdir", "dir")
            if m.isdir() != isdir or m.isreg() != (not isdir):
                ctx.violation(case, {"subject": "vmtar.members", "kind": "type-mismatch", "member_kind": kind}, {"index": i})
                return
            if isdir:
                continue
            try:
                f = t.extractfile(m)
                body = f.read() if f is not None else None
            except Exception as e:
                ctx.violation(case, {"subject": "vmtar.extract", "kind": "exception", "exc": type(e).__name__,
                                     "member_kind": kind}, {"exception": repr(e)[:300], "index": i})
                return
            if body != data:
                ctx.violation(case, {"subject": "vmtar.extract", "kind": "content-mismatch", "member_kind": kind},
                              {"index": i, "len_got": None if body is None else len(body), "len_expected": len(data),
                               "got": (body or b"")[:16].hex(), "expected": data[:16].hex(),
                               "recorded_offset": offs.get(i)})
                return
            if m.size != len(data):
                ctx.violation(case, {"subject": "vmtar.members", "kind": "size-mismatch"}, {"index": i})
                return
        if not has_visor:
            # differential: a plain tar must be listed / extracted exactly as by the standard reader
            s = tarfile.open(fileobj=io.BytesIO(img))
            ref = [(m.name, m.type, m.size, (s.extractfile(m).read() if m.isreg() else None)) for m in s.getmembers()]
            mine = [(m.name, m.type, m.size, (t.extractfile(m).read() if m.isreg() else None)) for m in got]
            ctx.transitions += 1
            ctx.states += 1
            if ref != mine:
                ctx.violation(case, {"subject": "vmtar.differential", "kind": "differs-from-tarfile"}, {})
