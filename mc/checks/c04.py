"""C04 -- VHD read correctness (fixed + dynamic).   Shape A (input-space product)."""
from __future__ import annotations

import itertools

from mc import bootstrap
from mc.builders import vhd as B
from mc.diskcheck import recheck_after_failure, compare_reads, compare_sector_reads, sliced, unit_sources, window_models
from mc.models import DATA, HOLE, boundaries, request_pairs

PROPERTY = "C04"
LEVEL = "model_checking"
TECHNIQUE = "explicit-state bounded-exhaustive exploration of the real reader against a reference disk model"
RULE = ("dynamic: block size x virtual-size form x max_table_entries x table/header order x footer length {512,511} x "
        "every {unallocated,data} assignment of a W-block window x every injective placement into W+1 slots x every "
        "request (a,b) a<=b in B(S) via seek/read and every boundary (sector,count) via disk.read_sectors; fixed: sizes x "
        "footer length x every request. non-trivial = request touching >= 2 blocks differing in state or not adjacent")
ASSUMPTIONS = [
    "VHD layout per the Microsoft VHD specification 1.0 as transcribed in mc/builders/vhd.py (validated on both fixtures)",
    "block sizes are powers of two >= 4 KiB (below 8 sectors the specification and existing writers disagree on the "
    "bitmap size, so the answer is not defined by the statement)",
    "sector bitmaps of allocated blocks are all ones (as writers produce for dynamic disks); readers may ignore them",
    "sector-interface requests stay inside the virtual disk",
]
ALPHABET = "block {H=0xFFFFFFFF, D(slot)}; spb {8,16,4096,8192,16384}; size cut; max_entries; layout; footer 512/511"
BOUND = {"quick": "W=4 (2/4 MiB blocks: W=3), buffers {512, 8192}", "thorough": "W=5 (large blocks W=4), 4 buffers"}
EXPECT_OUTCOMES = ["data@L1", "zero-below-base", "data@L1+zero-below-base", "raw"]

LAYOUTS = ["std", "hdr_after_bat", "bat_after_data"]


def _geoms(tier):
    out = []
    if tier == "quick":
        combos = [(8, 0, 0, "std", 512), (8, 3, 3, "hdr_after_bat", 511), (8, 1, 0, "bat_after_data", 512),
                  (16, 5, 1, "std", 511), (16, 0, 2, "bat_after_data", 512)]
        for spb, cut, extra, layout, fl in combos:
            out.append(dict(spb=spb, W=4, cut=cut, extra=extra, layout=layout, flen=fl))
        out.append(dict(spb=8, W=3, cut=0, extra=0, layout="std", flen=512))
        out.append(dict(spb=8, W=5, cut=2, extra=0, layout="hdr_after_bat", flen=512))
        out.append(dict(spb=8, W=3, cut=1, extra=0, layout="std", flen=512, at=1022))
        out.append(dict(spb=8, W=3, cut=0, extra=2, layout="bat_after_data", flen=511, at=4094))
        out.append(dict(spb=8, W=3, cut=3, extra=0, layout="std", flen=512, at=16383))
        out.append(dict(spb=16, W=3, cut=0, extra=1, layout="hdr_after_bat", flen=512, at=65535))
        out.append(dict(spb=8, W=3, cut=2, extra=0, layout="std", flen=512, at=262143))
        out.append(dict(spb=4096, W=3, cut=9, extra=0, layout="std", flen=512, big=True))
        # BAT entries around 2^31 and near 2^32 (a dynamic disk file may grow to 2040 GiB)
        out.append(dict(spb=4096, W=3, cut=0, extra=1, layout="std", flen=512, big=True, base=(1 << 31) - 2 * 4097 - 5))
        out.append(dict(spb=8, W=3, cut=1, extra=0, layout="std", flen=511, big=True, base=(1 << 32) - 200))
        out.append(dict(spb=8192, W=3, cut=0, extra=2, layout="hdr_after_bat", flen=511, big=True))
    else:
        for spb in (8, 16):
            for cut, extra, layout, fl in itertools.product((0, 3), (0, 3), LAYOUTS, (512, 511)):
                out.append(dict(spb=spb, W=4, cut=cut, extra=extra, layout=layout, flen=fl))
        out.append(dict(spb=8, W=5, cut=1, extra=1, layout="std", flen=512))
        out.append(dict(spb=32, W=5, cut=17, extra=0, layout="bat_after_data", flen=511))
        for spb, layout, fl in ((4096, "std", 512), (8192, "hdr_after_bat", 511), (16384, "bat_after_data", 512)):
            out.append(dict(spb=spb, W=4, cut=9, extra=1, layout=layout, flen=fl, big=True))
    return out


BUFS = {"quick": [512, 8192], "thorough": [512, 4096, 8192, 65536]}
SLICES = {"quick": 3, "thorough": 6}


def shards(tier):
    out = []
    for buf in BUFS[tier]:
        for g in _geoms(tier):
            k = SLICES[tier] * (3 if g["W"] >= 5 else 1)
            for i in range(k):
                out.append({"buf": buf, "kind": "dyn", "geom": g, "slice": [i, k]})
        out.append({"buf": buf, "kind": "fixed"})
    return out


def _requests(g, size, buf):
    bs = g["spb"] * 512
    at = g.get("at", 0)
    pts = boundaries(size, bs, buf, max(0, (at - 1) * bs), size) if at else boundaries(size, bs, buf)
    if g.get("big"):
        reqs = request_pairs(pts, 2 * buf + 1024)
        reqs += [(0, size), (0, 2 * bs), (bs // 2, 2 * bs), (bs - 512, bs + 1024), (bs, size), (1, size - 2), (512, bs - 1024),
                 (bs + 4096, bs - 4096)]
    else:
        reqs = request_pairs(pts)
    spts = sorted({p // 512 for p in pts if p <= size} | {(p + 511) // 512 for p in pts if p + 511 <= size})
    sreqs = [(a, b - a) for a, b in request_pairs(spts, (2 * buf + 1024) // 512 if g.get("big") else None)]
    sreqs = [(a, a + c - a) for a, c in sreqs]
    return reqs, sreqs


def run_shard(shard, ctx):
    if shard["kind"] == "dyn":
        g = shard["geom"]
        i, k = shard["slice"]
        W = g["W"]
        for states, slots in sliced(window_models([HOLE, DATA], W, W + 1), i, k):
            run_case({"kind": "dyn", "geom": g, "states": states, "slots": slots}, ctx)
    else:
        for nsec in (1, 2, 15, 16, 17, 31, 33, 129):
            for flen in (512, 511):
                run_case({"kind": "fixed", "nsec": nsec, "flen": flen}, ctx)
        # requests of more than 64 KiB / 128 sectors one after the other (each result is looked at again after the next call)
        for flen in (512, 511):
            run_case({"kind": "fixed", "nsec": 700, "flen": flen, "sector_requests": [[0, 200], [100, 200], [0, 129], [150, 300], [0, 700], [1, 699],
                                                                                     [500, 200]],
                      "requests": [[0, 200000], [5, 200000], [100000, 258400]]}, ctx)
        # the guest data itself begins with VHD structures (a nested image): footer copy of a dynamic / fixed disk, cxsparse
        for nested in ("dynamic-image", "fixed-footer", "cxsparse"):
            for flen in (512, 511):
                run_case({"kind": "fixed", "nsec": 64, "flen": flen, "nested": nested}, ctx)
        # 4200 blocks looked up one after the other, twice (more distinct table entries than any plausible entry cache holds),
        # then the first ones again
        n = 4200
        states = [DATA if i % 7 == 0 else HOLE for i in range(n)]
        nd = sum(1 for x in states if x == DATA)
        slots, k = [], 0
        for x in states:
            slots.append((k * 37) % nd if x == DATA else None)
            k += x == DATA
        sweep = [[i * 8 + (i % 8), 1] for i in range(n)]
        run_case({"kind": "dyn", "geom": dict(spb=8, W=n, cut=0, extra=0, layout="std", flen=512, big=True), "states": states,
                  "slots": slots, "sector_requests": sweep + sweep + sweep[:200] + [[0, 64], [7 * 8 - 1, 10]], "requests": [[0, 70000]]}, ctx)


        # single requests of 17 .. 40 MiB (far above any plausible transfer cap) on a dynamic disk of 40 MiB + 3 sectors whose
        # blocks are stored out of order, and on a fixed disk of 17 MiB
        n = 21
        states = [DATA if i % 5 != 3 else HOLE for i in range(n)]
        nd = sum(1 for x in states if x == DATA)
        slots, k = [], 0
        for x in states:
            slots.append((k * 7) % nd if x == DATA else None)
            k += x == DATA
        MiB = 1 << 20
        run_case({"kind": "dyn", "geom": dict(spb=4096, W=n, cut=4093, extra=0, layout="std", flen=512, big=True), "states": states,
                  "slots": slots, "sector_requests": [[0, 64], [4095, 2]],
                  "requests": [[0, 40 * MiB + 1536], [MiB + 5, 17 * MiB], [3 * MiB, 33 * MiB + 7], [8192, 16 * MiB + 8192], [0, 24 * MiB]]}, ctx)
        run_case({"kind": "fixed", "nsec": 17 * 2048 + 3, "flen": 512, "sector_requests": [[0, 8]],
                  "requests": [[0, 17 * MiB + 1536], [4096, 16 * MiB + 4096 + 1], [MiB - 1, 16 * MiB + 2]]}, ctx)


def run_case(case, ctx):
    from dissect.hypervisor.disk.vhd import VHD

    buf = bootstrap.bufsize()
    ctx.executions += 1
    ctx.model(case if case["kind"] == "fixed" else [case["geom"], case["states"], case["slots"]])
    ctx.sample(case)
    if case["kind"] == "fixed":
        nsec = case["nsec"]
        size = nsec * 512
        prefix = b""
        if case.get("nested") == "dynamic-image":
            prefix = B.build_dynamic([DATA, HOLE], [0, None], 8, 2 * 4096, 2).tobytes()[:8 * 512]
        elif case.get("nested") == "fixed-footer":
            prefix = B.footer(12345 * 512, 2, B.FIXED_OFF)
        elif case.get("nested") == "cxsparse":
            prefix = B.build_dynamic([DATA], [0], 8, 4096, 1).tobytes()[512:512 + 1024]
        img = B.build_fixed(nsec, case["flen"], prefix=prefix)
        disk = B.model_fixed(nsec, prefix=prefix)
        states = slots = srcs = None
        unit = 512
        if "requests" in case:  # (explicit lists are substituted below; the boundary product of a large disk is not needed)
            reqs, sreqs = [], []
        else:
            reqs = request_pairs(boundaries(size, 4096, buf))
            sreqs = [(a, c) for a, c in request_pairs(sorted({p // 512 for p in boundaries(size, 4096, buf) if p <= size}))]
        big = False
        subject = f"vhd.fixed.f{case['flen']}"
    else:
        g = case["geom"]
        at = g.get("at", 0)
        states = [HOLE] * at + list(case["states"])
        slots = [None] * at + list(case["slots"])
        spb = g["spb"]
        size = (len(states) * spb - g["cut"]) * 512
        img = B.build_dynamic(states, slots, spb, size, len(states) + g["extra"], g["layout"], g["flen"], base_sector=g.get("base"))
        disk = B.model_dynamic(states, spb, size)
        unit = spb * 512
        big = bool(g.get("big"))
        reqs, sreqs = _requests(g, size, buf)
        srcs = unit_sources(disk, len(states))
        subject = f"vhd.dynamic.f{g['flen']}"
    if "requests" in case or "sector_requests" in case:
        reqs = [tuple(r) for r in case.get("requests", [])]
        sreqs = [tuple(r) for r in case.get("sector_requests", [])]
    with ctx.watch(case):
        fh = img.sparse(log=False) if big else img.bytesio()
        try:
            v = VHD(fh)
        except Exception as e:
            ctx.violation(case, {"subject": subject + ".open", "kind": "exception", "exc": type(e).__name__},
                          {"exception": repr(e)[:300]})
            return
        if v.size != size:
            ctx.violation(case, {"subject": subject + ".size", "kind": "mismatch"}, {"got": v.size, "expected": size})
            return
        if not big:
            disk.materialize()
        if srcs is None:
            ctx.outcome("raw", len(reqs))
            ctx.nontrivial += 1
        compare_reads(ctx, case, v, disk, reqs, subject + ".read", states, slots, unit, srcs)
        compare_sector_reads(ctx, case, v.disk.read_sectors, disk, sreqs, subject + ".read_sectors", 512, states,
                             slots, unit)
        if not ctx.violations and not big:
            recheck_after_failure(ctx, case, v.disk.read_sectors, v, disk, sreqs, reqs, subject)
