"""C05 -- VDI: every byte range reads as the guest-visible content.   Shape A (input-space product)."""
from __future__ import annotations

from mc import bootstrap
from mc.builders import vdi as B
from mc.diskcheck import compare_reads, sliced, unit_sources, window_models
from mc.models import DATA, HOLE, ZERO, boundaries, request_pairs

PROPERTY = "C05"
LEVEL = "model_checking"
TECHNIQUE = "explicit-state bounded-exhaustive exploration of the real reader against a reference disk model"
RULE = ("full product: block size x disk-size form x every assignment of {unallocated,zero,data} to a W-block window "
        "x every injective placement of the data blocks into W+1 physical slots x header layout x every request "
        "(a,b) with a<=b in the boundary set B(S) issued as seek(a);read(b-a), per stream buffer size. "
        "non-trivial = request touching >= 2 blocks that differ in state or are not stored adjacently in ascending order")
ASSUMPTIONS = [
    "VDI layout as transcribed from VirtualBox VDICore.h in mc/builders/vdi.py (header v1.1, int32 block map)",
    "block sizes are whole multiples of the 512-byte sector, powers of two or not (VirtualBox writes 1 MiB)",
    "without a parent, unallocated (-1) and zero (-2) blocks both read as zeros",
    "units beyond the explored window size are covered only by translation invariance (DESIGN section 1)",
]
ALPHABET = "block state {H=-1, Z=-2, D(slot)}; slots 0..W; block size; DiskSize multiple or not of block; offsets"
BOUND = {"quick": "W=4 blocks (1 MiB blocks: W=3), buffers {512, 8192}",
         "thorough": "W=5 blocks (1 MiB blocks: W=4), buffers {512, 4096, 8192, 65536}"}
EXPECT_OUTCOMES = ["data@L1", "zero@L1", "zero-below-base", "data@L1+zero@L1", "data@L1+zero-below-base"]

GEOMS = {
    "quick": [
        # block_size, W, size_delta (bytes cut from the end), blocks_offset, data_offset
        dict(bs=4096, W=4, cut=0, boff=512, doff=None),
        dict(bs=4096, W=4, cut=1536, boff=1024, doff=8192),
        dict(bs=16384, W=4, cut=512, boff=512, doff=None),
        dict(bs=512, W=4, cut=0, boff=512, doff=None),
        dict(bs=1 << 20, W=3, cut=4096 + 512, boff=512, doff=2 << 20, big=True),
        # image type field: 1 dynamic, 2 fixed, 3 undo, 4 differencing -- the block map is authoritative for all of them
        dict(bs=4096, W=3, cut=512, boff=512, doff=None, itype=2),
        dict(bs=4096, W=3, cut=0, boff=1024, doff=8192, itype=4),
        dict(bs=512, W=3, cut=0, boff=512, doff=None, itype=3),
        # blocks larger than 1 MiB (VirtualBox allows any power of two); whole-disk and multi-MiB requests over holes
        dict(bs=2 << 20, W=3, cut=4096 + 512, boff=512, doff=4 << 20, big=True),
        # physical block numbers whose byte position crosses 4 GiB (data offset 2 MiB + block 4094 MiB = 4 GiB) and 2^31 sectors
        dict(bs=1 << 20, W=3, cut=512, boff=512, doff=2 << 20, big=True, slot_off=4093),
        dict(bs=1 << 20, W=3, cut=512, boff=512, doff=2 << 20, big=True, slot_off=(1 << 20) - 3),
        # windows deep inside the block map (index thresholds such as 1024 / 4096 are typical chunk and cache sizes)
        dict(bs=4096, W=3, cut=512, boff=512, doff=None, at=1022),
        dict(bs=512, W=3, cut=0, boff=1024, doff=None, at=4094),
        dict(bs=4096, W=3, cut=0, boff=512, doff=None, at=16383),
        dict(bs=1024, W=3, cut=512, boff=512, doff=None, at=65535),
        # block sizes that are whole sectors but no power of two, below / above / far above the stream buffer, so that
        # buffer windows and block boundaries never line up
        dict(bs=1536, W=4, cut=0, boff=512, doff=None),
        dict(bs=10240, W=4, cut=512, boff=512, doff=None),
        dict(bs=12288, W=3, cut=0, boff=1024, doff=16384),
        dict(bs=3 * 65536 + 512, W=3, cut=1024, boff=512, doff=None),
    ],
    "thorough": [
        dict(bs=4096, W=4, cut=512, boff=512, doff=None, at=1021),
        dict(bs=4096, W=4, cut=0, boff=512, doff=None, at=4093),
        dict(bs=1024, W=4, cut=0, boff=512, doff=None, at=65533),
        dict(bs=4096, W=5, cut=0, boff=512, doff=None),
        dict(bs=4096, W=5, cut=1536, boff=1024, doff=8192),
        dict(bs=8192, W=5, cut=512, boff=512, doff=None),
        dict(bs=16384, W=5, cut=512, boff=512, doff=None),
        dict(bs=1024, W=5, cut=0, boff=4096, doff=None),
        dict(bs=512, W=5, cut=0, boff=512, doff=None),
        dict(bs=65536, W=4, cut=512 * 5, boff=512, doff=None),
        dict(bs=1 << 20, W=4, cut=4096 + 512, boff=512, doff=2 << 20, big=True),
    ],
}
BUFS = {"quick": [512, 8192], "thorough": [512, 4096, 8192, 65536]}
SLICES = {"quick": 4, "thorough": 16}


def shards(tier):
    out = []
    for buf in BUFS[tier]:
        for gi, g in enumerate(GEOMS[tier]):
            k = SLICES[tier] if not g.get("big") else SLICES[tier] * 2
            for i in range(k):
                out.append({"buf": buf, "geom": g, "slice": [i, k]})
    return out


def _requests(g, size, buf):
    bs = g["bs"]
    at = g.get("at", 0)
    pts = boundaries(size, bs, buf, max(0, (at - 1) * bs), size) if at else boundaries(size, bs, buf)
    if g.get("big"):
        # cost follows bytes returned: all short requests (<= 1 block + 2 sectors) plus a few whole/multi-block ones
        reqs = request_pairs(pts, 2 * buf + 1024)
        reqs += [(0, size), (0, 2 * bs), (bs // 2, 2 * bs), (bs - 512, bs + 1024), (bs, size), (1, size - 2),
                 (size - bs - 512, bs + 512), (bs + 512, 2 * bs)]
        return reqs
    return request_pairs(pts)


def run_shard(shard, ctx):
    g = shard["geom"]
    i, k = shard["slice"]
    W = g["W"]
    for states, slots in sliced(window_models([HOLE, ZERO, DATA], W, W + 1), i, k):
        run_case({"geom": g, "states": states, "slots": slots}, ctx)


def run_case(case, ctx):
    from dissect.hypervisor.disk.vdi import VDI

    g = case["geom"]
    at = g.get("at", 0)
    states = [HOLE] * at + list(case["states"])
    slots = [None] * at + list(case["slots"])
    bs = g["bs"]
    size = len(states) * bs - g["cut"]
    buf = bootstrap.bufsize()
    so = g.get("slot_off", 0)
    img = B.build(states, [None if p is None else p + so for p in slots], bs, size, g["boff"], g["doff"],
                  image_type=g.get("itype", 1), **({"tail_slack": False} if so else {}))
    disk = B.model(states, bs, size)
    ctx.model([g, states, slots])
    ctx.executions += 1
    ctx.sample(case)
    reqs = [tuple(r) for r in case["requests"]] if "requests" in case else _requests(g, size, buf)
    with ctx.watch(case):
        fh = img.sparse(log=False) if g.get("big") else img.bytesio()
        try:
            v = VDI(fh)
        except Exception as e:
            ctx.violation(case, {"subject": "vdi.open", "kind": "exception", "exc": type(e).__name__},
                          {"exception": repr(e)[:300]})
            return
        if v.size != size:
            ctx.violation(case, {"subject": "vdi.size", "kind": "mismatch"}, {"got": v.size, "expected": size})
            return
        if not g.get("big"):
            disk.materialize()
        compare_reads(ctx, case, v, disk, reqs, "vdi.read", states, slots, bs, unit_sources(disk, len(states)))
