"""C14 -- exposed metadata and parent references equal what the file stores.   Shape A per structure."""
from __future__ import annotations

import io
import itertools
import os
import struct
import uuid
from pathlib import Path

from mc.diskcheck import sliced
from mc.models import DATA, HOLE
from mc.scratch import scratch_dir

PROPERTY = "C14"
LEVEL = "model_checking"
TECHNIQUE = "exhaustive enumeration of stored values / lengths / counts / encodings per metadata structure, compared attribute by attribute"
RULE = ("per structure a full product of stored values: QCOW2 header fields, extension lists (0-3 extensions of each known "
        "type and an unknown one, lengths {0,1,7,8,9}, with/without END, ending exactly at the backing name), backing names "
        "of length {1,7,8,255,1023} ASCII / multi-byte, snapshot tables with 0-3 entries x id/name lengths {0,1,7,8,9} x "
        "extra sizes {0,16,24,32}; VHDX header sequence pairs {0,1,2,2^63,2^64-1}^2, metadata items, parent locators "
        "with 1-4 entries incl. surrogate pairs in any data order; VMDK descriptors (key/value spellings, ddb, 0-4 extent "
        "lines of every kind and file name, values and names containing each of 12 characters special to str.splitlines / "
        "str.strip, locator values beginning with U+FEFF / U+FFFE, embedded descriptors of every size); VHD / VDI / HDS headers; Parallels "
        "descriptors (storages, images, shots, TopGUID). non-trivial = value that is not the builder default")
ASSUMPTIONS = [
    "where the library documents only a normalised view (QCOW2 backing_format / image_backing_file are upper-cased) the "
    "exposed value must equal the stored string up to case; auto_backing_file must equal it exactly",
    "when both VHDX headers carry the same sequence number either may be exposed",
    "VMDK descriptor values do not begin or end with spaces or quotes inside their quoting",
]
ALPHABET = "stored value x length x count x encoding x sequence pair"
BOUND = {"quick": "products as in the rule", "thorough": "adds 4-entry locators in every order and 3-snapshot tables in full product"}
EXPECT_OUTCOMES = ["qcow2-manysnap", "qcow2-ext", "qcow2-bigext", "qcow2-backing", "qcow2-snap", "qcow2-header", "vhdx-seq", "vhdx-meta", "vhdx-locator",
                   "vmdk-desc", "vmdk-embedded", "vhd", "vdi", "hds", "prl"]


def shards(tier):
    out = []
    for n in ((255, 256, 257, 65535, 65536, 65537) if tier == "quick" else (255, 256, 257, 1000, 65535, 65536, 65537, 70000)):
        out.append({"kind": "qcow2-manysnap", "tier": tier, "only_n": n})
    for kind in ("qcow2-ext", "qcow2-bigext", "qcow2-backing", "qcow2-header", "vhdx-seq", "vhdx-meta", "vmdk-desc", "vmdk-embedded", "vhd",
                 "vdi", "hds", "prl"):
        out.append({"kind": kind, "tier": tier})
    for i in range(8):
        out.append({"kind": "qcow2-snap", "slice": [i, 8], "tier": tier})
    for i in range(4):
        out.append({"kind": "vhdx-locator", "slice": [i, 4], "tier": tier})
    return out


def run_shard(shard, ctx):
    gen = globals()["_gen_" + shard["kind"].replace("-", "_")]
    cases = gen(shard["tier"])
    if "only_n" in shard:
        cases = [c for c in cases if c["n"] == shard["only_n"]]
    if "slice" in shard:
        cases = sliced(cases, *shard["slice"])
    for c in cases:
        run_case(dict(c, kind=shard["kind"]), ctx)


def run_case(case, ctx):
    ctx.executions += 1
    ctx.model(case)
    ctx.sample(case)
    ctx.outcome(case["kind"])
    fn = globals()["_case_" + case["kind"].replace("-", "_")]
    with ctx.watch(case):
        try:
            diffs = fn(case, ctx)
        except Exception as e:
            ctx.violation(case, {"subject": case["kind"], "kind": "exception", "exc": type(e).__name__},
                          {"exception": repr(e)[:400]})
            return
    for name, got, exp in diffs or []:
        ctx.violation(case, {"subject": case["kind"], "kind": "mismatch", "attribute": name},
                      {"got": repr(got)[:300], "stored": repr(exp)[:300]})
        return


def _cmp(ctx, diffs, name, got, exp, ci=False):
    ctx.transitions += 1
    ctx.states += 1
    if ci and isinstance(got, str) and isinstance(exp, str):
        if got.upper() != exp.upper():
            diffs.append((name, got, exp))
    elif got != exp:
        diffs.append((name, got, exp))


# ---- QCOW2 -------------------------------------------------------------------------------------------------------------
EXT_KINDS = {"fmt": 0xE2792ACA, "feat": 0x6803F857, "data": 0x44415441, "unk": 0x12345678}


def _gen_qcow2_ext(tier):
    lens = [0, 1, 7, 8, 9]
    kinds = list(EXT_KINDS)
    for n in range(0, 4):
        for ks in itertools.permutations(kinds, n):
            for ls in (itertools.product(lens, repeat=n) if n <= 2 else [tuple(lens[(i + j) % 5] for j in range(n)) for i in range(5)]):
                for end in (True, False):
                    for backing in (None, "b"):
                        if not end and backing is None and n:
                            continue  # without END and without a backing name the area runs to the end of the cluster
                        yield {"exts": [[k, l] for k, l in zip(ks, ls)], "end": end, "backing": backing}


def _gen_qcow2_bigext(tier):
    for cb in (17, 18, 21):
        for ln in (65527, 65528, 65529, 65535, 65536, 65537, 100001):
            if ln + 300 < (1 << cb):
                for kind in ("unk", "feat"):
                    yield {"cb": cb, "len": ln, "big": kind}


def _case_qcow2_bigext(case, ctx):
    """One very large header extension followed by further extensions and the backing file name."""
    from dissect.hypervisor.disk.qcow2 import QCow2

    from mc.builders import qcow2 as B

    big = bytes((i * 13 + 5) & 0xFF for i in range(case["len"]))
    exts = [(EXT_KINDS[case["big"]], big), (EXT_KINDS["fmt"], b"qcow2"), (EXT_KINDS["data"], b"data-file.raw")]
    img, _ = B.build(["N"], [0], case["cb"], 3, extensions=exts, backing_name="base-after-big-ext.img")
    q = QCow2(img.sparse(log=False), backing_file=io.BytesIO(b""))
    ctx.nontrivial += 1
    d = []
    _cmp(ctx, d, "backing_format", q.backing_format, "qcow2", ci=True)
    _cmp(ctx, d, "image_data_file", q.image_data_file, "data-file.raw")
    _cmp(ctx, d, "auto_backing_file", q.auto_backing_file, "base-after-big-ext.img")
    if case["big"] == "feat":
        _cmp(ctx, d, "feature_table", q.feature_table, big)
    else:
        _cmp(ctx, d, "unknown_extensions", [(e.magic, e.len, data) for e, data in q.unknown_extensions],
             [(EXT_KINDS["unk"], len(big), big)])
    return d


def _ext_payload(kind, ln):
    if kind == "feat":
        return bytes((i * 7 + 1) & 0xFF for i in range(ln))
    if kind == "data":
        b = "dätä-fïle-name".encode()[:ln]
        while True:  # cut at a character boundary, keep the byte length with ASCII filler
            try:
                b.decode()
                break
            except UnicodeDecodeError:
                b = b[:-1]
        return b.ljust(ln, b"_")
    return ("qcow2raw-x"[:ln] if kind == "fmt" else "u" * ln).encode().ljust(ln, b"x")


def _case_qcow2_ext(case, ctx):
    from dissect.hypervisor.disk.qcow2 import QCow2

    from mc.builders import qcow2 as B

    exts = [(EXT_KINDS[k], _ext_payload(k, ln)) for k, ln in case["exts"]]
    has_data = any(k == "data" for k, _ in case["exts"])
    img, dimg = B.build(["N"], [0], 12, 3, extensions=exts, with_end_ext=case["end"], backing_name=case["backing"])
    # a data-file name extension alone does not make the image use an external data file (incompatible bit 2 is clear)
    kw = {"backing_file": img.bytesio()} if case["backing"] else {}
    q = QCow2(img.bytesio(), **kw)
    if case["exts"]:
        ctx.nontrivial += 1
    d = []
    stored = {k: _ext_payload(k, ln) for k, ln in case["exts"]}
    _cmp(ctx, d, "backing_format", q.backing_format, stored["fmt"].decode() if "fmt" in stored else None, ci=True)
    _cmp(ctx, d, "feature_table", q.feature_table, stored.get("feat"))
    _cmp(ctx, d, "image_data_file", q.image_data_file, stored["data"].decode() if "data" in stored else None)
    unk = [(e.magic, e.len, data) for e, data in q.unknown_extensions]
    _cmp(ctx, d, "unknown_extensions", unk, [(EXT_KINDS["unk"], len(stored["unk"]), stored["unk"])] if "unk" in stored else [])
    _cmp(ctx, d, "auto_backing_file", q.auto_backing_file, case["backing"])
    return d


def _gen_qcow2_backing(tier):
    for ln in (1, 7, 8, 255, 1023):
        for charset in ("ascii", "utf8"):
            for fmt in (None, "qcow2", "raw"):
                for ver in (2, 3):
                    yield {"len": ln, "charset": charset, "fmt": fmt, "ver": ver}


def _case_qcow2_backing(case, ctx):
    from dissect.hypervisor.disk.qcow2 import QCow2

    from mc.builders import qcow2 as B

    ln = case["len"]
    if case["charset"] == "ascii":
        name = ("/a/Base_" + "x" * 2000)[:ln]
    else:
        s = "bäse/日本語-" + "é" * 2000
        b = s.encode()[:ln]
        while True:
            try:
                name = b.decode()
                break
            except UnicodeDecodeError:
                b = b[:-1]
    img, _ = B.build(["N"], [0], 12, case["ver"], backing_name=name, backing_format=case["fmt"])
    q = QCow2(img.bytesio(), backing_file=img.bytesio())
    ctx.nontrivial += 1
    d = []
    _cmp(ctx, d, "auto_backing_file", q.auto_backing_file, name)
    _cmp(ctx, d, "image_backing_file", q.image_backing_file, name, ci=True)
    _cmp(ctx, d, "backing_format", q.backing_format, case["fmt"], ci=True)
    _cmp(ctx, d, "header.backing_file_size", q.header.backing_file_size, len(name.encode()))
    return d


def _gen_qcow2_snap(tier):
    lens = [0, 1, 7, 8, 9]
    extras = [0, 16, 24, 32]
    yield {"snaps": []}
    for a in itertools.product(lens, lens, extras):
        yield {"snaps": [list(a)]}
    for a in itertools.product(lens, lens, extras):
        for b in itertools.product(lens, (1, 8), (16, 24)):
            yield {"snaps": [list(a), list(b)]}
    three = itertools.product(itertools.product(lens, (0, 9), extras), itertools.product((1, 7), lens, (0, 24)),
                              itertools.product((9,), (1,), (16, 32)))
    for n, (a, b, c) in enumerate(three):
        if tier == "quick" and n % 7:
            continue
        yield {"snaps": [list(a), list(b), list(c)]}


def _case_qcow2_snap(case, ctx):
    from dissect.hypervisor.disk.qcow2 import QCow2

    from mc.builders import qcow2 as B

    sdefs = []
    for n, (idl, nml, exl) in enumerate(case["snaps"]):
        extra = struct.pack(">QQQ", 0x1111 * (n + 1), 0x2222 * (n + 1), 0x3333 * (n + 1))
        extra = (extra + b"\xEE" * 8)[:exl]
        sdefs.append({"states": ["N"], "slots": [n + 1], "id": ("123456789" * 2)[:idl], "name": ("snäp-nm" * 3).encode()[:nml].decode(errors="ignore").ljust(0),
                      "extra": extra, "layer": n + 2})
        # keep the name's *byte* length exact
        nm = ("snap-name-x" * 2)[:nml]
        sdefs[-1]["name"] = nm
    img, _ = B.build(["N"], [0], 12, 3, snapshots=sdefs)
    q = QCow2(img.bytesio())
    snaps = q.snapshots
    if sdefs:
        ctx.nontrivial += 1
    d = []
    _cmp(ctx, d, "len(snapshots)", len(snaps), len(sdefs))
    for n, (s, sd) in enumerate(zip(snaps, sdefs)):
        _cmp(ctx, d, f"snapshots[{n}].id_str", s.id_str, sd["id"])
        _cmp(ctx, d, f"snapshots[{n}].name", s.name, sd["name"])
        _cmp(ctx, d, f"snapshots[{n}].header.extra_data_size", s.header.extra_data_size, len(sd["extra"]))
        _cmp(ctx, d, f"snapshots[{n}].header.date_sec", s.header.date_sec, 1700000000 + n)
        ex = sd["extra"].ljust(24, b"\0")
        a, b, c = struct.unpack(">QQQ", ex[:24])
        _cmp(ctx, d, f"snapshots[{n}].extra.vm_state_size_large", s.extra.vm_state_size_large, a)
        _cmp(ctx, d, f"snapshots[{n}].extra.disk_size", s.extra.disk_size, b)
        _cmp(ctx, d, f"snapshots[{n}].extra.icount", s.extra.icount, c)
        _cmp(ctx, d, f"snapshots[{n}].unknown_extra", s.unknown_extra, sd["extra"][24:] or None)
        _cmp(ctx, d, f"snapshots[{n}].header.l1_size", s.header.l1_size, 1)
    # opening and reading the snapshot views is an observation: what the image object exposes stays what the file stores
    def exposed():
        h = q.header
        return (q.size, h.size, h.l1_size, h.l1_table_offset, h.nb_snapshots, h.cluster_bits, h.version, q.cluster_size,
                [(x.id_str, x.name, x.header.l1_size, x.header.l1_table_offset) for x in q.snapshots])

    before = exposed()
    for n, sn in enumerate(snaps):
        v = sn.open()
        v.seek(0)
        v.read(700)
        _cmp(ctx, d, f"image attributes after snapshots[{n}].open()", exposed(), before)
        q.seek(0)
        q.read(100)
        _cmp(ctx, d, f"image attributes after reading the image again ({n})", exposed(), before)
    return d


def _case_qcow2_manysnap(case, ctx):
    """A snapshot table with n entries (all naming the L1 table of one real snapshot): every stored entry is exposed, in order."""
    from dissect.hypervisor.disk.qcow2 import QCow2

    from mc.builders import qcow2 as B

    n = case["n"]
    img, _ = B.build(["N"], [0], 12, 3, snapshots=[{"states": ["N"], "slots": [1], "id": "1", "name": "s", "layer": 2}])
    raw = bytearray(img.tobytes())
    snap_off, = struct.unpack_from(">Q", raw, 64)
    l1_off, l1_size = struct.unpack_from(">QI", raw, snap_off)
    tab = bytearray()
    for i in range(n):
        sid = str(i + 1).encode()
        nm = b"snap-%d" % (i + 1)
        ent = struct.pack(">QIHHIIQII", l1_off, l1_size, len(sid), len(nm), 1700000000 + (i & 0xFFFF), 0, i, 0, 16) + struct.pack(">QQ", 0, 4096) + sid + nm
        ent += b"\0" * ((-len(ent)) % 8)
        tab += ent
    new_off = (len(raw) + 4095) // 4096 * 4096
    raw += b"\0" * (new_off - len(raw)) + tab
    struct.pack_into(">I", raw, 60, n)
    struct.pack_into(">Q", raw, 64, new_off)
    q = QCow2(io.BytesIO(bytes(raw)))
    snaps = q.snapshots
    ctx.nontrivial += 1
    d = []
    _cmp(ctx, d, "len(snapshots)", len(snaps), n)
    for i in sorted({0, 1, n // 2, 255, 256, 65534, 65535, 65536, n - 2, n - 1}):
        if 0 <= i < min(n, len(snaps)):
            _cmp(ctx, d, f"snapshots[{i}].id_str", snaps[i].id_str, str(i + 1))
            _cmp(ctx, d, f"snapshots[{i}].name", snaps[i].name, "snap-%d" % (i + 1))
    return d


def _gen_qcow2_manysnap(tier):
    for n in (255, 256, 257, 65535, 65536, 65537) if tier == "quick" else (255, 256, 257, 1000, 65535, 65536, 65537, 70000):
        yield {"n": n}


def _gen_qcow2_header(tier):
    for cb in (9, 12, 16, 21):
        for ver in (2, 3):
            for cut in (0, 1, 511):
                for hl in (104, 112):
                    yield {"cb": cb, "ver": ver, "cut": cut, "hl": hl}


def _case_qcow2_header(case, ctx):
    from dissect.hypervisor.disk.qcow2 import QCow2

    from mc.builders import qcow2 as B

    cb = case["cb"]
    size = 3 * (1 << cb) - case["cut"]
    img, _ = B.build(["N", "U", "N"], [1, None, 0], cb, case["ver"], size, header_length=case["hl"])
    q = QCow2(img.sparse(log=False))
    ctx.nontrivial += 1
    d = []
    _cmp(ctx, d, "size", q.size, size)
    _cmp(ctx, d, "cluster_size", q.cluster_size, 1 << cb)
    _cmp(ctx, d, "header.version", q.header.version, case["ver"])
    _cmp(ctx, d, "header.size", q.header.size, size)
    _cmp(ctx, d, "header.l1_size", q.header.l1_size, 1)
    _cmp(ctx, d, "header.nb_snapshots", q.header.nb_snapshots, 0)
    _cmp(ctx, d, "has_backing_file", q.has_backing_file, False)
    _cmp(ctx, d, "has_data_file", q.has_data_file, False)
    _cmp(ctx, d, "has_subclusters", q.has_subclusters, False)
    return d


# ---- VHDX --------------------------------------------------------------------------------------------------------------
SEQS = [0, 1, 2, 1 << 63, (1 << 64) - 1]


def _gen_vhdx_seq(tier):
    for a, b in itertools.product(SEQS, SEQS):
        yield {"seqs": [a, b]}


def _case_vhdx_seq(case, ctx):
    from dissect.hypervisor.disk.vhdx import VHDX

    from mc.builders import vhdx as B

    a, b = case["seqs"]
    img = B.build([DATA], [0], seqs=(a, b))
    v = VHDX(img.sparse(log=False))
    d = []
    if a != b:
        ctx.nontrivial += 1
        _cmp(ctx, d, "header.sequence_number", v.header.sequence_number, max(a, b))
    else:
        _cmp(ctx, d, "header.sequence_number", v.header.sequence_number, a)
    _cmp(ctx, d, "headers", sorted(h.sequence_number for h in v.headers), sorted([a, b]))
    return d


def _gen_vhdx_meta(tier):
    MB = 1 << 20
    for bs in (MB, 2 * MB, 32 * MB, 256 * MB):
        for sec in (512, 4096):
            for blocks, cut in ((1, 0), (3, sec), (5, bs // 2)):
                for idb in (bytes(range(16)), b"\xff" * 16, b"\x00" * 15 + b"\x01"):
                    yield {"bs": bs, "sec": sec, "blocks": blocks, "cut": cut, "id": idb.hex()}
    # a metadata region of 2 and 3 MiB whose items are stored behind its first MiB / in its last 64 KiB
    for mlen, at in ((2, MB + 4096), (2, 2 * MB - 65536), (3, 2 * MB + 512 * 3)):
        for sec in (512, 4096):
            yield {"bs": MB, "sec": sec, "blocks": 3, "cut": sec, "id": bytes(range(16)).hex(), "meta_len_mb": mlen, "items_at": at}


def _case_vhdx_meta(case, ctx):
    from dissect.hypervisor.disk.vhdx import VHDX

    from mc.builders import vhdx as B

    bs, sec = case["bs"], case["sec"]
    size = case["blocks"] * bs - case["cut"]
    idb = bytes.fromhex(case["id"])
    kw = {}
    if case.get("meta_len_mb"):
        kw = dict(meta_len_mb=case["meta_len_mb"], items_at=case["items_at"], bat_mb=2 + case["meta_len_mb"])
    img = B.build([0] * case["blocks"], [None] * case["blocks"], bs, sec, size, disk_id=idb, **kw)
    v = VHDX(img.sparse(log=False))
    ctx.nontrivial += 1
    d = []
    _cmp(ctx, d, "size", v.size, size)
    _cmp(ctx, d, "block_size", v.block_size, bs)
    _cmp(ctx, d, "sector_size", v.sector_size, sec)
    _cmp(ctx, d, "id", v.id, uuid.UUID(bytes_le=idb))
    _cmp(ctx, d, "has_parent", bool(v.has_parent), False)
    return d


LOC_KEYS = ["relative_path", "parent_linkage", "absolute_win32_path", "volume_path"]


# the stored strings are UTF-16-LE without a byte order mark: a leading U+FEFF / U+FFFE is an ordinary character of the value
LOC_VALS = ["{83ed3b12-f5c1-4e3c-9d0e-2f0e3b6c1a00}", "C:\\Üsers\\日本\\p.vhdx", "\\\\?\\Volume{1}\\\U0001F4BE\\p.vhdx", "",
            "\ufeffimages\\base.vhdx", "\ufffe\u2028x\x00y", "\U0001F4BE"]


def _gen_vhdx_locator(tier):
    vals = LOC_VALS
    for n in range(1, 5):
        for keys in itertools.combinations(LOC_KEYS[1:], n - 1):
            ks = ["relative_path"] + list(keys)
            orders = list(itertools.permutations(range(n)))
            if tier == "quick" and n == 4:
                orders = orders[::5]
            for order in orders:
                for rot in range(len(vals)):
                    yield {"keys": ks, "order": list(order), "rot": rot}
            # strings stored once and shared between entries (equal offsets with different lengths)
            for rot in range(len(vals)):
                yield {"keys": ks, "order": "shared", "rot": rot}
            # the locator listed and stored in front of / between the other items, which follow it directly; string pool in
            # entry order and reversed
            for at in (0, 1, 3):
                for order in (list(range(n)), list(range(n))[::-1]):
                    yield {"keys": ks, "order": order, "rot": at % len(vals), "locator_at": at}


def _case_vhdx_locator(case, ctx):
    from dissect.hypervisor.disk.vhdx import VHDX

    from mc.builders import vhdx as B

    vals = LOC_VALS
    entries = []
    for i, k in enumerate(case["keys"]):
        if k == "relative_path":
            entries.append((k, ".\\base.vhdx"))
        else:
            entries.append((k, vals[(i + case["rot"]) % len(vals)]))
    ctx.nontrivial += 1
    with scratch_dir() as dd:
        B.build([DATA], [0], layer=1).write_to(os.path.join(dd, "base.vhdx"))
        if case.get("locator_at") is not None:
            img = B.build([0], [None], layer=2, parent=entries, locator_at=case["locator_at"], locator_order=case["order"])
        else:
            img = B.build([0], [None], layer=2, parent=entries)
            # re-order the key/value data area
            item = B.locator_item(entries, order=case["order"])
            plain = B.locator_item(entries)
            raw = None
            for n, (off, kind, pl, ln) in enumerate(img.ext):
                if kind == 0 and plain in pl:
                    raw = pl.replace(plain, item)
                    img.ext[n] = (off, kind, raw, len(raw))
            assert raw is not None
        img.write_to(os.path.join(dd, "child.avhdx"))
        v = VHDX(Path(dd) / "child.avhdx")
        try:
            d = []
            _cmp(ctx, d, "parent_locator.entries", dict(v.parent_locator.entries), dict(entries))
            _cmp(ctx, d, "parent_locator.type", v.parent_locator.type, uuid.UUID(bytes_le=B.VHDX_LOCATOR_TYPE))
            _cmp(ctx, d, "has_parent", bool(v.has_parent), True)
            _cmp(ctx, d, "parent.id", v.parent.id, uuid.UUID(bytes_le=b"\x11" * 16))
            _cmp(ctx, d, "size", v.size, 1 << 20)
            _cmp(ctx, d, "sector_size", v.sector_size, 512)
            _cmp(ctx, d, "id", v.id, uuid.UUID(bytes_le=b"\x11" * 16))
            return d
        finally:
            for x in (v, v.parent):
                try:
                    x.fh.close()
                except Exception:
                    pass


# ---- VMDK descriptors -------------------------------------------------------------------------------------------------
ODD = ["\x0b", "\x0c", "\x1c", "\x1d", "\x1e", "\x85", "\u2028", "\u2029", "\xa0", "\u3000", "\t", "\ufeff"]
VMDK_NAMES = (["d.vmdk", "d with space.vmdk", 'd"q.vmdk', "ünï-cödé.vmdk", "\U0001F4BE.vmdk", "size=small & id#4.vmdk",
               # names with directories (device paths of raw mappings, datastore paths, Windows paths): exposed as stored
               "/vmfs/devices/disks/naa.6000c29f", "sub dir/d-flat.vmdk", "C:\\vms\\d-s001.vmdk", "..\\base\\d.vmdk"]
              + ["my old disk" + ch + "copy-f002.vmdk" for ch in ODD])


def _gen_vmdk_desc(tier):
    values = ["plain", "with space", "a=b", "ünï", "x\"y", "ffffffff", "C:\\dir\\f.vmdk", "/p/q r.vmdk"]
    values += ["base" + ch + "disk.vmdk" for ch in ODD]
    spell = ["{k}={v}", '{k}="{v}"', '{k} = "{v}"', "{k} = {v}"]
    kinds = ["SPARSE", "FLAT", "VMFS", "VMFSSPARSE", "SESPARSE", "ZERO", "VMFSRDM", "VMFSRAW"]
    names = VMDK_NAMES
    for v in values:
        for sp in spell:
            if sp.endswith("{v}") and (" " in v or '"' in v or any(ch in v for ch in ODD)):
                continue  # unquoted values with spaces / quotes are not well-formed
            yield {"mode": "kv", "value": v, "spell": sp}
    for n in range(0, 5):
        for ks in itertools.product(kinds, repeat=n) if n <= 2 else [tuple(kinds[(i + j) % 8] for j in range(n)) for i in range(8)]:
            for ni in range(len(names)):
                yield {"mode": "extents", "kinds": list(ks), "name": ni}


def _case_vmdk_desc(case, ctx):
    from dissect.hypervisor.disk.vmdk import DiskDescriptor

    names = VMDK_NAMES
    d = []
    ctx.nontrivial += 1
    if case["mode"] == "kv":
        v, sp = case["value"], case["spell"]
        lines = ["# Disk DescriptorFile", "version=1", sp.format(k="CID", v="fffffffe"), sp.format(k="parentFileNameHint", v=v),
                 sp.format(k="createType", v="monolithicSparse"), "", "# Extent description", 'RW 16 SPARSE "d.vmdk"', "",
                 "# The Disk Data Base", "#DDB", "", sp.format(k="ddb.adapterType", v="lsilogic"), sp.format(k="ddb.custom", v=v),
                 sp.format(k="parentCID", v="ffffffff"), ""]
        for text in ("\n".join(lines), "\r\n".join(lines), "render"):
            if text == "render":
                # rendering the descriptor (str / repr / format) is an observation: it must not change what is exposed
                desc = DiskDescriptor.parse("\n".join(lines))
                before = (dict(desc.attr), dict(desc.ddb), [str(e) for e in desc.extents])
                r1, r2 = str(desc), f"{desc}"
                repr(desc)
                _cmp(ctx, d, "str() repeatable", r1, r2)
                _cmp(ctx, d, "attr/ddb/extents after str()", (dict(desc.attr), dict(desc.ddb), [str(e) for e in desc.extents]), before)
                _cmp(ctx, d, "attr[version] after str()", desc.attr.get("version"), "1")
                again = DiskDescriptor.parse(r1)
                _cmp(ctx, d, "parse(str(d)).attr", dict(again.attr), before[0])
                continue
            desc = DiskDescriptor.parse(text)
            _cmp(ctx, d, "attr[parentFileNameHint]", desc.attr.get("parentFileNameHint"), v)
            _cmp(ctx, d, "attr[CID]", desc.attr.get("CID"), "fffffffe")
            _cmp(ctx, d, "attr[parentCID]", desc.attr.get("parentCID"), "ffffffff")
            _cmp(ctx, d, "attr[createType]", desc.attr.get("createType"), "monolithicSparse")
            _cmp(ctx, d, "ddb[ddb.custom]", desc.ddb.get("ddb.custom"), v)
            _cmp(ctx, d, "ddb[ddb.adapterType]", desc.ddb.get("ddb.adapterType"), "lsilogic")
            _cmp(ctx, d, "len(extents)", len(desc.extents), 1)
        return d
    exts = []
    lines = ["# Disk DescriptorFile", "version=1", "CID=fffffffe", "parentCID=ffffffff", 'createType="custom"', ""]
    for i, k in enumerate(case["kinds"]):
        acc = ("RW", "RDONLY", "NOACCESS")[i % 3]
        sec = (16, 4104, 2 ** 33 + 1, 0)[i % 4]
        fn = None if k == "ZERO" else f"{i}-" + names[(case["name"] + i) % len(names)]
        start = 0 if k == "FLAT" else (63 if k in ("VMFSRDM", "VMFSRAW") else None)
        ln = f"{acc} {sec} {k}" + (f' "{fn}"' if fn else "") + (f" {start}" if start is not None else "")
        lines.append(ln)
        exts.append((acc, sec, k, fn, start, ln))
    lines += ["", 'ddb.geometry.cylinders = "16383"', ""]
    desc = DiskDescriptor.parse("\n".join(lines))
    _cmp(ctx, d, "len(extents)", len(desc.extents), len(exts))
    for i, (e, (acc, sec, k, fn, start, ln)) in enumerate(zip(desc.extents, exts)):
        _cmp(ctx, d, f"extents[{i}].access_mode", e.access_mode, acc)
        _cmp(ctx, d, f"extents[{i}].sectors", e.sectors, sec)
        _cmp(ctx, d, f"extents[{i}].type", e.type, k)
        _cmp(ctx, d, f"extents[{i}].filename", e.filename, fn)
        _cmp(ctx, d, f"extents[{i}].start_sector", e.start_sector or None, start or None)
        _cmp(ctx, d, f"extents[{i}].raw", e.raw, ln)
    _cmp(ctx, d, "sectors", desc.sectors, sum(x[1] for x in exts))
    _cmp(ctx, d, "ddb[ddb.geometry.cylinders]", desc.ddb.get("ddb.geometry.cylinders"), "16383")
    return d


def _gen_vmdk_embedded(tier):
    for pad in (0, 1, 100, 511, 512, 513, 20 * 512 - 200):
        for fill in ("nul", "exact", "exact-noeol", "one-short-noeol"):
            yield {"pad": pad, "fill": fill}


def _case_vmdk_embedded(case, ctx):
    from dissect.hypervisor.disk.vmdk import VMDK

    from mc.builders import vmdk as B

    base = B.descriptor_text("monolithicSparse", [("RW", 24, "SPARSE", "emb edded.vmdk", None)], cid="0badcafe",
                             extra=[("longKey", '"' + "v" * case["pad"] + '"')])
    if case["fill"] == "exact":
        # the descriptor fills its sector budget exactly (no NUL terminator inside the area)
        n = (len(base.encode()) + 511) // 512 * 512
        base = base + "#" * (n - len(base.encode()) - 1) + "\n"
    tail_expected = None
    if case["fill"] in ("exact-noeol", "one-short-noeol"):
        # the last line is an unquoted value without a line terminator; the text ends exactly at (or one byte before) the end
        # of the descriptor area
        tail = "ddb.tail = 21"
        short = 1 if case["fill"] == "one-short-noeol" else 0
        n = (len(base.encode()) + len(tail) + 2 + 511) // 512 * 512
        base = base + "#" * (n - short - len(base.encode()) - len(tail) - 1) + "\n" + tail
        assert len(base.encode()) == n - short
        tail_expected = "21"
    img = B.build_hosted([DATA, HOLE, DATA], [1, None, 0], 8, 512, 24, descriptor=base)
    v = VMDK(img.bytesio())
    ctx.nontrivial += 1
    d = []
    desc = v.disks[0].descriptor
    _cmp(ctx, d, "descriptor present", desc is not None, True)
    if desc is not None:
        _cmp(ctx, d, "attr[CID]", desc.attr.get("CID"), "0badcafe")
        _cmp(ctx, d, "attr[longKey]", desc.attr.get("longKey"), "v" * case["pad"])
        _cmp(ctx, d, "extents[0].filename", desc.extents[0].filename if desc.extents else None, "emb edded.vmdk")
        _cmp(ctx, d, "ddb[ddb.adapterType]", desc.ddb.get("ddb.adapterType"), "lsilogic")
        if tail_expected is not None:
            _cmp(ctx, d, "ddb[ddb.tail]", desc.ddb.get("ddb.tail"), tail_expected)
        _cmp(ctx, d, "raw", (desc.raw or "").rstrip("\0"), base)
    _cmp(ctx, d, "size", v.size, 24 * 512)
    return d


# ---- VHD / VDI / HDS headers ---------------------------------------------------------------------------------------------
def _gen_vhd(tier):
    for spb in (8, 4096, 8192):
        for blocks, cut in ((1, 0), (3, 1), (5, 7)):
            for extra in (0, 3):
                for flen in (512, 511):
                    yield {"spb": spb, "blocks": blocks, "cut": cut, "extra": extra, "flen": flen}
    for nsec in (1, 17, 4097):
        for flen in (512, 511):
            yield {"fixed": nsec, "flen": flen}


def _case_vhd(case, ctx):
    from dissect.hypervisor.disk.vhd import VHD

    from mc.builders import vhd as B

    d = []
    ctx.nontrivial += 1
    if "fixed" in case:
        v = VHD(B.build_fixed(case["fixed"], case["flen"]).sparse(log=False))
        _cmp(ctx, d, "size", v.size, case["fixed"] * 512)
        _cmp(ctx, d, "footer.current_size", v.disk.footer.current_size, case["fixed"] * 512)
        _cmp(ctx, d, "footer.original_size", v.disk.footer.original_size,
             struct.unpack(">Q", B.footer(case["fixed"] * 512, 2, B.FIXED_OFF)[40:48])[0])
        _cmp(ctx, d, "footer.disk_type", v.disk.footer.disk_type, 2)
        _cmp(ctx, d, "footer.cookie", v.disk.footer.cookie, b"conectix")
        _cmp(ctx, d, "footer.unique_id", v.disk.footer.unique_id, b"\x5a" * 16)
        return d
    spb, n = case["spb"], case["blocks"]
    size = (n * spb - case["cut"]) * 512
    img = B.build_dynamic([DATA] + [HOLE] * (n - 1), [0] + [None] * (n - 1), spb, size, n + case["extra"], "std", case["flen"])
    v = VHD(img.sparse(log=False))
    _cmp(ctx, d, "size", v.size, size)
    _cmp(ctx, d, "footer.current_size", v.disk.footer.current_size, size)
    stored = struct.unpack(">QQ", B.footer(size, 3, 512)[40:56])  # (original size, current size) as written by the builder
    _cmp(ctx, d, "footer.original_size", v.disk.footer.original_size, stored[0])
    _cmp(ctx, d, "footer.features", v.disk.footer.features, struct.unpack(">I", B.footer(size, 3, 512)[8:12])[0])
    _cmp(ctx, d, "footer.disk_type", v.disk.footer.disk_type, 3)
    _cmp(ctx, d, "header.block_size", v.disk.header.block_size, spb * 512)
    _cmp(ctx, d, "header.max_table_entries", v.disk.header.max_table_entries, n + case["extra"])
    _cmp(ctx, d, "header.cookie", v.disk.header.cookie, b"cxsparse")
    return d


def _gen_vdi(tier):
    for bs in (4096, 65536, 1 << 20):
        for n, cut in ((1, 0), (3, 512), (6, 1536)):
            for boff, doff in ((512, None), (1024, 8192 if bs <= 8192 else 1 << 20)):
                yield {"bs": bs, "n": n, "cut": cut, "boff": boff, "doff": doff}


def _case_vdi(case, ctx):
    from dissect.hypervisor.disk.vdi import VDI

    from mc.builders import vdi as B

    bs, n = case["bs"], case["n"]
    size = n * bs - case["cut"]
    img = B.build([DATA] + [HOLE] * (n - 1), [0] + [None] * (n - 1), bs, size, case["boff"], case["doff"])
    v = VDI(img.sparse(log=False))
    ctx.nontrivial += 1
    d = []
    _cmp(ctx, d, "size", v.size, size)
    _cmp(ctx, d, "block_size", v.block_size, bs)
    _cmp(ctx, d, "sector_size", v.sector_size, 512)
    _cmp(ctx, d, "header.BlocksInHDD", v.header.BlocksInHDD, n)
    _cmp(ctx, d, "header.BlocksAllocated", v.header.BlocksAllocated, 1)
    _cmp(ctx, d, "header.DiskSize", v.header.DiskSize, size)
    _cmp(ctx, d, "header.UUIDVDI", v.header.UUIDVDI, b"\x11" * 16)
    _cmp(ctx, d, "data_offset", v.data_offset, case["doff"] or (case["boff"] + 4 * n + 511) // 512 * 512)
    return d


def _gen_hds(tier):
    for ver in (1, 2):
        for spc in (1, 8, 2048):
            for n, cut in ((1, 0), (3, 1), (6, 5)):
                if cut >= spc * n:
                    continue
                yield {"ver": ver, "spc": spc, "n": n, "cut": cut}
    yield {"ver": 2, "spc": 2048, "n": 3, "cut": 0, "big": (1 << 32) + 5}


def _case_hds(case, ctx):
    from dissect.hypervisor.disk.hdd import HDS

    from mc.builders import hdd as B

    spc, n = case["spc"], case["n"]
    nsec = case.get("big") or (n * spc - case["cut"])
    img = B.build_hds([DATA] + [HOLE] * (n - 1), [1] + [None] * (n - 1), spc, case["ver"], nsec)
    s = HDS(img.sparse(log=False))
    ctx.nontrivial += 1
    d = []
    _cmp(ctx, d, "size", s.size, nsec * 512)
    _cmp(ctx, d, "cluster_size", s.cluster_size, spc * 512)
    _cmp(ctx, d, "header.m_Sectors", s.header.m_Sectors, spc)
    _cmp(ctx, d, "header.m_Size", s.header.m_Size, n)
    stored_inuse, = struct.unpack_from("<I", img.sparse(log=False).peek_at(44, 4))
    _cmp(ctx, d, "in_use", s.in_use, stored_inuse == 0x746F6E59)
    return d


# ---- Parallels descriptor ------------------------------------------------------------------------------------------------
def _gen_prl(tier):
    for nst in (1, 2, 3):
        for nshots in (1, 2, 3):
            for top in ("absent", "default", "other"):
                for order in ("fwd", "rev"):
                    yield {"nst": nst, "nshots": nshots, "top": top, "order": order}


def _case_prl(case, ctx):
    from dissect.hypervisor.disk.hdd import HDD

    from mc.builders import hdd as B

    nst, nsh = case["nst"], case["nshots"]
    guids = [f"{{{k + 1:08x}-aaaa-4bbb-8ccc-{k + 1:012x}}}" for k in range(nsh)]
    if case["top"] != "other":
        guids[-1] = B.DEFAULT_TOP
    storages = []
    pos = 0
    for s in range(nst):
        ln = 100 + 17 * s
        # file names: composed and decomposed accents, singleton code points (ANGSTROM SIGN, OHM SIGN), conjoining jamo
        odd = ["sub dir/ünï %d.hds", "nfd-e\u0301-%d.hds", "\u212b\u2126-%d.hds", "\u1112\u1161\u11ab-%d.hds"][(s + nsh) % 4] % s
        imgs = [(g, "Compressed" if (k + s) % 2 else "Plain", f"d.hdd.{s}.{g}.hds" if k % 2 else odd)
                for k, g in enumerate(guids)]
        storages.append((pos, pos + ln, imgs))
        pos += ln
    shots = [(g, guids[k - 1] if k else B.NULL_GUID) for k, g in enumerate(guids)]
    if case["order"] == "rev":
        storages_x, shots_x = storages[::-1], shots[::-1]
    else:
        storages_x, shots_x = storages, shots
    top_el = {"absent": None, "default": B.DEFAULT_TOP, "other": guids[-1]}[case["top"]]
    ctx.nontrivial += 1
    d = []
    with scratch_dir() as dd:
        hd = os.path.join(dd, "x.hdd")
        os.mkdir(hd)
        with open(os.path.join(hd, "DiskDescriptor.xml"), "w") as f:
            f.write(B.descriptor_xml(pos, storages_x, shots_x, top_guid=top_el))
        desc = HDD(Path(hd)).descriptor
        st = desc.storage_data.storages
        _cmp(ctx, d, "len(storages)", len(st), nst)
        for i, (got, exp) in enumerate(zip(st, storages_x)):
            _cmp(ctx, d, f"storages[{i}].start", got.start, exp[0])
            _cmp(ctx, d, f"storages[{i}].end", got.end, exp[1])
            _cmp(ctx, d, f"storages[{i}].images", [(str(im.guid), im.type, im.file) for im in got.images],
                 [(g.strip("{}"), t, fn) for g, t, fn in exp[2]])
        _cmp(ctx, d, "shots", [(str(s.guid), str(s.parent)) for s in desc.snapshots.shots],
             [(g.strip("{}"), p.strip("{}")) for g, p in shots_x])
        exp_top = None if top_el is None else uuid.UUID(top_el)
        _cmp(ctx, d, "snapshots.top_guid", desc.snapshots.top_guid, exp_top)
        chain = desc.get_snapshot_chain(uuid.UUID(guids[-1]))
        _cmp(ctx, d, "get_snapshot_chain(top)", [str(g) for g in chain], [g.strip("{}") for g in guids[::-1]])
        # opening streams is an observation: what the descriptor exposes afterwards is what the file stores, in file order
        def exposed(dsc):
            return ([(x.start, x.end, [(str(im.guid), im.type, im.file) for im in x.images]) for x in dsc.storage_data.storages],
                    [(str(x.guid), str(x.parent)) for x in dsc.snapshots.shots])

        h = HDD(Path(hd))
        before = exposed(h.descriptor)
        for s_, (a, b, ims) in enumerate(storages):
            for g, t, fn in ims:
                pth = os.path.join(hd, fn)
                os.makedirs(os.path.dirname(pth), exist_ok=True)
                if t == "Plain":
                    with open(pth, "wb") as f:
                        f.write(b"\x00" * ((b - a) * 512))
                else:
                    B.build_hds([HOLE] * ((b - a + 7) // 8), [None] * ((b - a + 7) // 8), 8, 2, b - a).write_to(pth)
        for attempt in (None, guids[0]):
            try:
                stream = h.open(attempt)
                stream.read(512)
                for _, x in stream.streams:
                    while x is not None:
                        try:
                            getattr(x, "fh", x).close()
                        except Exception:
                            pass
                        x = getattr(x, "parent", None)
            except Exception as e:
                _cmp(ctx, d, f"open({attempt}) of a well-formed bundle", repr(e)[:120], None)
            _cmp(ctx, d, f"exposed descriptor after open({attempt})", exposed(h.descriptor), before)
    return d
