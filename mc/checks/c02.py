"""C02 -- VMDK extent read correctness (hosted sparse, stream-optimized, COWD, SE-sparse, flat).   Shape A."""
from __future__ import annotations

from mc import bootstrap
from mc.builders import vmdk as B
from mc.diskcheck import recheck_after_failure, compare_reads, compare_sector_reads, sliced, window_models
from mc.models import DATA, HOLE, ZERO, boundaries, request_pairs

PROPERTY = "C02"
LEVEL = "model_checking"
TECHNIQUE = "explicit-state bounded-exhaustive exploration of the real reader against a reference disk model"
RULE = ("extent kind {hosted KDMV with header GD, stream-optimized (compressed, embedded LBA, footer GD, markers), "
        "compressed with header GD, COWD, SE-sparse, flat} x grain size x capacity form x window position (grain 0, "
        "straddling a grain-table boundary, behind an absent grain table) x every assignment of {hole, zero, data "
        "(+compressible data, +SE-sparse fall-through)} to a W-grain window x every injective placement into W+1 "
        "physical slots x record stride / table order / cluster base x every boundary request via seek/read and "
        "VMDK.read_sectors. non-trivial = request touching >= 2 grains differing in state or not adjacent ascending")
ASSUMPTIONS = [
    "layouts per VMware Virtual Disk Format 1.1 and QEMU block/vmdk.c (SE-sparse) as transcribed in mc/builders/vmdk.py; "
    "the SE-sparse transcription decodes the repository fixture",
    "hosted extents use 512 grain-table entries, COWD 4096; grain sizes are powers of two",
    "zeroed-grain GTEs (entry 1) are used with the zeroed-grain flag set; without a parent holes read as zeros",
    "sector-interface requests stay inside the capacity",
]
ALPHABET = "grain {H, Z, D(slot), C(slot, compressible), F(SE-sparse fall-through)}; kind; grain size; capacity cut; window"
BOUND = {"quick": "W=4 (compressed/SE-sparse W=3), buffers {512, 8192}", "thorough": "W=5 (W=4), 4 buffers + 1536"}
EXPECT_OUTCOMES = ["data@L1", "zero@L1", "zero-below-base", "data@L1+zero@L1", "data@L1+zero-below-base", "raw"]

H3 = [HOLE, ZERO, DATA]
HC = [HOLE, ZERO, DATA, B.CDATA]
SE = [HOLE, ZERO, B.FALL, B.STALE, DATA]
CW = [HOLE, DATA]


def _geoms(tier):
    q = [
        dict(kind="hosted", grain=8, W=4, cut=0, at=0, total=None, alpha="H3"),
        dict(kind="hosted", grain=8, W=4, cut=4, at=510, total=515, alpha="H3", desc=True),
        dict(kind="hosted", grain=16, W=3, cut=1, at=1023, total=1027, alpha="H3", gt_order="desc"),
        dict(kind="hosted", grain=128, W=3, cut=64, at=0, total=None, alpha="H3"),
        dict(kind="hosted", grain=8, W=3, cut=0, at=0, total=None, alpha="HC", comp=True, footer=True, stride=8,
             only=[HOLE, ZERO, B.CDATA]),
        dict(kind="hosted", grain=8, W=3, cut=1, at=511, total=514, alpha="HC", comp=True, footer=True, stride=10),
        dict(kind="hosted", grain=16, W=3, cut=0, at=0, total=None, alpha="HC", comp=True, footer=False, stride=18,
             desc=True),
        dict(kind="hosted", grain=16, W=3, cut=8, at=0, total=None, alpha="HC", comp=True, footer=True, stride=8,
             only=[HOLE, B.CDATA]),
        dict(kind="hosted", grain=8, W=3, cut=0, at=129 * 512 - 2, total=129 * 512 + 1, alpha="H3", comp=True, footer=True,
             stride=10, only=[HOLE, ZERO, DATA]),
        # beyond 128 grain tables (the size of the grain-table cache), header-located grain directory, tables in reverse order
        dict(kind="hosted", grain=8, W=3, cut=2, at=130 * 512 - 1, total=130 * 512 + 3, alpha="H3", gt_order="desc"),
        # five grain tables, all present, the first and the last where they usually are and the three in between in reverse order;
        # the window straddles tables 1 / 2 and tables 2 / 3
        dict(kind="hosted", grain=8, W=3, cut=1, at=1023, total=5 * 512 - 7, alpha="H3", gt_order="mid", elide=False),
        dict(kind="hosted", grain=8, W=3, cut=0, at=3 * 512 - 2, total=5 * 512 - 7, alpha="H3", gt_order="mid", elide=False),
        dict(kind="sesparse", grain=8, W=3, cut=0, at=2 * 4096 - 1, total=5 * 4096 - 7, alpha="SE", gts=64, cbase=0, gt_order="mid", elide=False),
        # grain table entries around 2^31 and near 2^32 (extent files of 1 .. 2 TiB)
        dict(kind="hosted", grain=8, W=3, cut=1, at=0, total=None, alpha="H3", dbase=(1 << 31) - 16, big=True),
        dict(kind="cowd", grain=8, W=3, cut=0, at=0, total=None, alpha="CW", dbase=(1 << 32) - 64, big=True),
        dict(kind="cowd", grain=8, W=4, cut=3, at=0, total=None, alpha="CW"),
        dict(kind="cowd", grain=1, W=4, cut=0, at=4094, total=4099, alpha="CW"),
        dict(kind="sesparse", grain=8, W=3, cut=0, at=0, total=None, alpha="SE", gts=64, cbase=0),
        dict(kind="sesparse", grain=8, W=3, cut=5, at=4095, total=4099, alpha="SE", gts=64, cbase=4094, gt_order="desc"),
        dict(kind="sesparse", grain=8, W=3, cut=0, at=0, total=None, alpha="SE", gts=64, cbase=(1 << 33) + 4093),
    ]
    if tier == "quick":
        return q
    t = []
    for g in q:
        g = dict(g)
        g["W"] += 1
        if g["total"]:
            g["total"] += 1  # the window grows by one unit: so does the disk behind it
        t.append(g)
    t += [
        dict(kind="hosted", grain=16, W=4, cut=15, at=0, total=None, alpha="H3"),
        dict(kind="hosted", grain=8, W=3, cut=0, at=200 * 512 - 2, total=200 * 512 + 1, alpha="H3", comp=True, footer=True,
             stride=10, only=[HOLE, ZERO, DATA]),
        dict(kind="sesparse", grain=8, W=4, cut=0, at=1023, total=1027, alpha="SE", gts=16, cbase=7),
        dict(kind="sesparse", grain=8, W=4, cut=0, at=511, total=516, alpha="SE", gts=8, cbase=0, gt_order="desc"),
        dict(kind="cowd", grain=16, W=4, cut=0, at=0, total=None, alpha="CW"),
    ]
    return t


BUFS = {"quick": [512, 8192], "thorough": [512, 1536, 4096, 8192, 65536]}
SLICES = {"quick": 3, "thorough": 12}
ALPHAS = {"H3": H3, "HC": HC, "SE": SE, "CW": CW}


def shards(tier):
    out = []
    for buf in BUFS[tier]:
        for g in _geoms(tier):
            k = SLICES[tier] * (3 if g["W"] >= 4 else 1)
            for i in range(k):
                out.append({"buf": buf, "geom": g, "slice": [i, k]})
        out.append({"buf": buf, "geom": {"kind": "flat"}, "slice": [0, 1]})
    # compressed grains whose deflate stream ends within a few bytes of a sector boundary (marker header 12 or 4 bytes)
    out.append({"buf": 8192, "geom": {"kind": "tuned"}, "slice": [0, 1]})
    # one request over a very long run of unallocated / zero grains (longer than any plausible scratch buffer)
    out.append({"buf": 8192, "geom": {"kind": "longrun"}, "slice": [0, 1]})
    return out


def _alpha(g):
    return g.get("only") or ALPHAS[g["alpha"]]


def run_shard(shard, ctx):
    g = shard["geom"]
    if g["kind"] == "longrun":
        for kind in ("hosted", "cowd", "sesparse"):
            for fill in (HOLE, ZERO):
                if kind == "cowd" and fill == ZERO:
                    continue
                run_case({"geom": g, "ext": kind, "fill": fill}, ctx)
            # and over 26 MiB of allocated grains stored in guest order (one physically contiguous run)
            run_case({"geom": g, "ext": kind, "fill": "dense"}, ctx)
        return
    if g["kind"] == "tuned":
        for lba in (True, False):
            for footer in (True, False):
                for L in range(492, 520):
                    run_case({"geom": g, "len": L, "lba": lba, "footer": footer}, ctx)
                # grains of 64 / 128 KiB holding incompressible data: the deflate stream is longer than 65535 bytes
                for grain in (128, 256):
                    run_case({"geom": g, "len": 0, "lba": lba, "footer": footer, "biggrain": grain}, ctx)
        return
    if g["kind"] == "flat":
        for nsec in (1, 15, 16, 17, 33, 130):
            run_case({"geom": g, "nsec": nsec}, ctx)
        return
    i, k = shard["slice"]
    W = g["W"]
    for states, slots in sliced(window_models(_alpha(g), W, W + 1, placed=B.PLACED), i, k):
        run_case({"geom": g, "states": states, "slots": slots}, ctx)


def _build(g, states, slots, capacity, total):
    if g["kind"] == "hosted":
        desc = None
        if g.get("desc"):
            desc = B.descriptor_text("monolithicSparse", [("RW", capacity, "SPARSE", "verif.vmdk", None)])
        return B.build_hosted(states, slots, g["grain"], 512, capacity, g["at"], total, footer=g.get("footer", False),
                              compressed=g.get("comp", False), descriptor=desc, stride=g.get("stride"),
                              gt_order=g.get("gt_order", "asc"), data_base=g.get("dbase"), elide_empty_gt=g.get("elide", True))
    if g["kind"] == "cowd":
        return B.build_cowd(states, slots, g["grain"], capacity, g["at"], total, data_base=g.get("dbase"))
    return B.build_sesparse(states, slots, g["grain"], g["gts"], capacity, g["at"], total, gt_order=g.get("gt_order", "asc"),
                            cluster_base=g["cbase"], elide_empty_gt=g.get("elide", True))


def _requests(g, size, buf, total):
    gs = g["grain"] * 512
    at, W = g["at"], g["W"]
    lo = max(0, (at - 1) * gs)
    hi = min(size, (at + W + 1) * gs)
    pts = boundaries(size, gs, buf, lo, hi)
    if total > 64:
        reqs = request_pairs(pts, max(2 * buf, 3 * gs) + 1024)
        if size <= (8 << 20):
            reqs += [(0, size), (1, size - 2)]
    else:
        reqs = request_pairs(pts)
    spts = sorted({p // 512 for p in pts if p <= size} | {(p + 511) // 512 for p in pts if p + 511 <= size})
    sreqs = request_pairs(spts, (max(2 * buf, 3 * gs) + 1024) // 512 if total > 64 else None)
    return reqs, sreqs


def run_case(case, ctx):
    from dissect.hypervisor.disk.vmdk import VMDK

    g = case["geom"]
    buf = bootstrap.bufsize()
    ctx.executions += 1
    ctx.sample(case)
    if g["kind"] == "longrun":
        grain = 128
        n = 420  # 420 x 64 KiB = 26 MiB
        states = [DATA] + [case["fill"]] * (n - 3) + [DATA, DATA]
        slots = [1] + [None] * (n - 3) + [0, 2]
        if case["fill"] == "dense":
            states, slots = [DATA] * n, list(range(n))
        capacity = n * grain - 5
        size = capacity * 512
        if case["ext"] == "hosted":
            img = B.build_hosted(states, slots, grain, 512, capacity)
        elif case["ext"] == "cowd":
            img = B.build_cowd(states, slots, grain, capacity)
        else:
            img = B.build_sesparse(states, slots, grain, 64, capacity)
        disk = B.model(states, grain, capacity)
        ctx.model(case)
        ctx.nontrivial += 1
        ctx.outcome("zero-below-base" if case["fill"] == HOLE else "data@L1" if case["fill"] == "dense" else "zero@L1")
        reqs = [(0, size), (65536 - 512, size - 65536), (70000, 20 << 20), (size - (9 << 20), 9 << 20)]
        sreqs = [(0, capacity), (100, capacity - 200)]
        states = slots = srcs = full_states = full_slots = None
        unit = grain * 512
        subject = "vmdk." + case["ext"] + ".longrun"
        fh = img.sparse(log=False)
    elif g["kind"] == "tuned":
        L = case["len"]
        grain = case.get("biggrain", 8)
        explicit = {}
        if case.get("biggrain"):
            import hashlib

            for gi in (0, 2, 3):
                explicit[gi] = b"".join(hashlib.sha256(b"big/%d/%d" % (gi, i)).digest() for i in range(grain * 16))
        for gi, seed in ((0, 1), (2, 2), (3, 3)):
            if case.get("biggrain"):
                break
            b = B.tuned_grain(grain, L + (gi % 2), seed) or B.tuned_grain(grain, L, seed)
            if b is not None:
                explicit[gi] = b
        states, slots = [DATA, B.CDATA, DATA, DATA, HOLE], [2, 0, 1, 3, None]
        if len(explicit) < 3:
            return
        capacity = 5 * grain - 3
        size = capacity * 512
        img = B.build_hosted(states, slots, grain, 512, capacity, footer=case["footer"], compressed=True,
                             stride=grain + 2 if case.get("biggrain") else 4, explicit=explicit, embedded_lba=case["lba"])
        disk = B.model(states, grain, capacity, explicit=explicit)
        ctx.model(case)
        ctx.nontrivial += 1
        ctx.outcome("data@L1")
        gb = grain * 512
        pts = [0, 1, gb - 1, gb, 2 * gb, 2 * gb + 1, 3 * gb - 1, 3 * gb, 4 * gb, size - 1, size]
        reqs = request_pairs(pts)
        sreqs = [(0, grain), (grain - 1, 2), (grain, grain), (2 * grain, 2 * grain), (0, capacity)]
        states = slots = srcs = full_states = full_slots = None
        unit = 4096
        subject = "vmdk.hosted.compressed" + (".lba" if case["lba"] else ".nolba") + (".footer" if case["footer"] else "")
        fh = img.bytesio()
    elif g["kind"] == "flat":
        nsec = case["nsec"]
        size = nsec * 512
        img = B.build_flat(nsec)
        disk = B.model_flat(nsec)
        ctx.model(case)
        pts = boundaries(size, 4096, buf)
        reqs = request_pairs(pts)
        sreqs = request_pairs(sorted({p // 512 for p in pts if p <= size}))
        states = slots = srcs = None
        full_states = full_slots = None
        unit = 512
        subject = "vmdk.flat"
        fh = img.bytesio()
    else:
        states, slots = case["states"], case["slots"]
        at = g["at"]
        total = g["total"] or len(states)
        capacity = total * g["grain"] - g["cut"]
        size = capacity * 512
        img = _build(g, states, slots, capacity, total)
        disk = B.model(states, g["grain"], capacity, at, total)
        ctx.model([g, states, slots])
        reqs, sreqs = _requests(g, size, buf, total)
        unit = g["grain"] * 512
        full_states = [HOLE] * at + list(states) + [HOLE] * (total - at - len(states))
        full_slots = [None] * at + list(slots) + [None] * (total - at - len(states))
        srcs = [disk.source(u * unit) for u in range(total)] if total <= 64 else None
        subject = "vmdk." + g["kind"] + (".compressed" if g.get("comp") else "") + (".footer" if g.get("footer") else "")
        fh = img.bytesio() if img.size <= (4 << 20) else img.sparse(log=False)
        if size <= (4 << 20):
            disk.materialize()
    if "requests" in case or "sector_requests" in case:
        reqs = [tuple(r) for r in case.get("requests", [])]
        sreqs = [tuple(r) for r in case.get("sector_requests", [])]
    with ctx.watch(case):
        try:
            v = VMDK(fh)
        except Exception as e:
            ctx.violation(case, {"subject": subject + ".open", "kind": "exception", "exc": type(e).__name__},
                          {"exception": repr(e)[:300]})
            return
        if v.size != size:
            ctx.violation(case, {"subject": subject + ".size", "kind": "mismatch"}, {"got": v.size, "expected": size})
            return
        if srcs is None:
            if g["kind"] in ("tuned", "longrun"):
                pass
            elif states is None:
                ctx.outcome("raw", len(reqs))
                ctx.nontrivial += 1
            else:
                for i in range(len(states)):
                    ctx.outcome(disk.source((g["at"] + i) * unit))
        compare_reads(ctx, case, v, disk, reqs, subject + ".read", full_states, full_slots, unit, srcs)
        compare_sector_reads(ctx, case, v.read_sectors, disk, sreqs, subject + ".read_sectors", 512, full_states,
                             full_slots, unit)
        if not ctx.violations and g["kind"] not in ("longrun",) and disk.size < (64 << 20):
            recheck_after_failure(ctx, case, v.read_sectors, v, disk, sreqs, reqs, subject)
            ext = getattr(v, "disks", [None])[0]
            if not ctx.violations and len(getattr(v, "disks", [])) == 1 and getattr(ext, "sector_offset", 1) == 0:
                # the same through the extent object's own read_sectors (it does not clamp requests to its capacity)
                recheck_after_failure(ctx, dict(case, through_extent=True), ext.read_sectors, v, disk, sreqs, reqs, subject + ".extent")
