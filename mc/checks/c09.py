"""C09 -- read-only operation.   Monitor-based exhaustive census: every entry point x input kind x error path runs under an
OS-level audit monitor, trapping file objects and a content/mtime digest of a read-only evidence directory."""
from __future__ import annotations

import ast
import io
import os
import sys
from pathlib import Path

from mc import monitors, vfile
from mc.models import DATA, HOLE, ZERO
from mc.scratch import make_readonly, scratch_dir, tree_digest

PROPERTY = "C09"
LEVEL = "model_checking"
TECHNIQUE = "exhaustive census of entry points x input kinds x error paths under an OS audit monitor and write-trapping file objects"
RULE = ("workload = every public entry point (QCow2, snapshot views, VMDK handle / handle list / descriptor path / str path / "
        "parent chain, VHDX handle / Path / str / differencing chain, VHD, VDI (+parent), HDS, HDD(dir) / HDD(file in dir) / "
        "snapshot open(guid), HyperVFile, Envelope + KeyStore, vmtar plain / gzip, VMX parse / unlock / disks, OVF, VBox, PVS, the "
        "envelope-decrypt tool) x input kind {valid, wrong magic, truncated at 3 points, missing parent / descriptor / extent}. "
        "Violation = an open with a write/append/create/truncate flag, any remove/rename/replace/truncate/mkdir/chmod/utime/link/"
        "shutil/subprocess event, any socket/urllib event, a mutating method called on a supplied handle, or a changed digest of "
        "the (chmod a-w) evidence directory. The only permitted write is the --output path of envelope-decrypt, opened once. "
        "An AST census of path-opening call sites must be covered by the sites the monitor attributes opens to. non-trivial = "
        "execution in which the library opened at least one path itself or failed on an error path")
ASSUMPTIONS = [
    "file-system and process effects are observed through CPython audit events in the worker process plus the evidence "
    "directory digest; effects of code that is never executed by the census workload are outside what an execution-based "
    "method can vouch for (the AST census reports such call sites as uncovered instead of passing silently)",
    "the single permitted write is the --output file of the envelope-decrypt tool",
]
ALPHABET = "entry point x input kind x error path"
BOUND = {"quick": "the full census (about 120 executions)",
         "thorough": "the census plus every quick-tier execution of C07, C10, C12, C14-C20 repeated under the monitor"}
EXPECT_OUTCOMES = ["clean", "valid-inputs-processed:handles", "valid-inputs-processed:paths", "valid-inputs-processed:cli"]


# thorough tier: the explorations of the path-driven checks run once more with the audit monitor armed and write-trapping
# handles in place -- every library-attributed event of every one of their executions is judged ("monitor over all explorations")
FOREIGN = ["c07", "c10", "c12", "c14", "c19", "c16", "c18", "c20", "c17", "c15"]


def shards(tier):
    out = [{"group": g} for g in ("handles", "paths", "errors", "cli", "census", "environment")]
    if tier != "quick":
        import importlib

        for name in FOREIGN:
            mod = importlib.import_module("mc.checks." + name)
            sh = mod.shards("quick")
            for i, x in enumerate(sh):
                if x.get("buf") not in (None, 8192):
                    continue
                out.append({"group": "foreign", "module": name, "index": i, "buf": x.get("buf")})
    return out


# ---- workload ---------------------------------------------------------------------------------------------------------------
def _bio(raw, name=None):
    return vfile.TrapBytesIO(raw, "census", name)


def _read_some(s, reader=None):
    s.seek(0)
    s.read(700)
    s.seek(max(0, s.size - 100))
    s.read(4096)
    s.read()
    if reader:
        reader(0, 1)


def _images():
    from mc.builders import hdd as BH
    from mc.builders import qcow2 as BQ
    from mc.builders import vdi as BV
    from mc.builders import vhd as BVHD
    from mc.builders import vhdx as BX
    from mc.builders import vmdk as BM

    st, sl = [DATA, HOLE, ZERO, DATA], [1, None, None, 0]
    snap = {"states": ["N", "U"], "slots": [2, None], "layer": 2}
    return {
        "qcow2": BQ.build(["N", "C", "Z"], [1, None, None], 9, 3, snapshots=[snap])[0].tobytes(),
        "qcow2-backing": BQ.build(["N", "U"], [0, None], 12, 3, backing_name="b.img")[0].tobytes(),
        "vmdk-hosted": BM.build_hosted(st, sl, 8, 512, 31).tobytes(),
        "vmdk-stream": BM.build_hosted([DATA, HOLE, ZERO, BM.CDATA], sl, 8, 512, 32, footer=True, compressed=True, stride=10).tobytes(),
        "vmdk-cowd": BM.build_cowd([DATA, HOLE, DATA], [1, None, 0], 8, 23).tobytes(),
        "vmdk-sesparse": BM.build_sesparse([DATA, ZERO, BM.FALL, DATA], sl, 8, 64, 32).tobytes(),
        "vmdk-flat": BM.build_flat(33).tobytes(),
        "vhd-dynamic": BVHD.build_dynamic([DATA, HOLE, DATA], [1, None, 0], 8, (3 * 8 - 1) * 512, 4).tobytes(),
        "vhd-fixed": BVHD.build_fixed(17, 511).tobytes(),
        "vdi": BV.build(st, sl, 4096, 4 * 4096 - 512).tobytes(),
        "hds": BH.build_hds([DATA, HOLE, DATA], [2, None, 1], 8, 2, 23).tobytes(),
        "vhdx": BX.build([DATA, 0, 2], [0, None, None]),
    }


def _open_kind_fh(kind, fh):
    """Like _open_kind for one caller-made file object (single-handle formats)."""
    if kind.startswith("qcow2"):
        from dissect.hypervisor.disk import qcow2 as Q

        kw = {"backing_file": _bio(b"\x07" * 8192)} if kind == "qcow2-backing" else {}
        _read_some(Q.QCow2(fh, **kw))
    elif kind.startswith("vmdk"):
        from dissect.hypervisor.disk.vmdk import VMDK

        v = VMDK(fh)
        _read_some(v, v.read_sectors)
    elif kind.startswith("vhd-"):
        from dissect.hypervisor.disk.vhd import VHD

        _read_some(VHD(fh))
    elif kind == "vdi":
        from dissect.hypervisor.disk.vdi import VDI

        _read_some(VDI(fh))
    elif kind == "hds":
        from dissect.hypervisor.disk.hdd import HDS

        _read_some(HDS(fh))
    else:
        raise ValueError(kind)


def _open_kind(kind, raw_or_img):
    """Open one handle-based image and read from it."""
    if kind.startswith("qcow2"):
        from dissect.hypervisor.disk import qcow2 as Q

        kw = {"backing_file": _bio(b"\x07" * 8192)} if kind == "qcow2-backing" else {}
        q = Q.QCow2(_bio(raw_or_img), **kw)
        _read_some(q)
        for s in q.snapshots:
            _read_some(s.open())
    elif kind.startswith("vmdk"):
        from dissect.hypervisor.disk.vmdk import VMDK

        v = VMDK(_bio(raw_or_img))
        _read_some(v, v.read_sectors)
    elif kind.startswith("vhd-"):
        from dissect.hypervisor.disk.vhd import VHD

        v = VHD(_bio(raw_or_img))
        _read_some(v, v.disk.read_sectors)
    elif kind == "vdi":
        from dissect.hypervisor.disk.vdi import VDI

        base = VDI(_bio(raw_or_img))
        _read_some(VDI(_bio(raw_or_img), parent=base))
    elif kind == "hds":
        from dissect.hypervisor.disk.hdd import HDS

        _read_some(HDS(_bio(raw_or_img), parent=HDS(_bio(raw_or_img))))
    elif kind == "vhdx":
        from dissect.hypervisor.disk.vhdx import VHDX

        v = VHDX(raw_or_img.sparse(log=False) if hasattr(raw_or_img, "sparse") else _bio(raw_or_img))
        v.seek(0)
        v.read(700)
        v.read_sectors(2047, 2)


def _work_handles():
    import gzip

    from mc.builders import envelope as BE
    from mc.builders import hyperv as BHV
    from mc.builders import vmtar as BT
    from mc.builders import vmxenc as BVX

    imgs = _images()
    for kind, raw in imgs.items():
        yield f"handle:{kind}:valid", (lambda kind=kind, raw=raw: _open_kind(kind, raw)), False
    # list of handles
    def multi():
        from dissect.hypervisor.disk.vmdk import VMDK

        v = VMDK([_bio(imgs["vmdk-hosted"]), _bio(imgs["vmdk-flat"]), _bio(imgs["vmdk-cowd"])])
        _read_some(v, v.read_sectors)

    yield "handle:vmdk-list:valid", multi, False
    tree = {"configuration": (BHV.T_NODE, {"a": (BHV.T_INT, 1), "big": (BHV.T_ARR, b"\x07" * 0x900)})}
    hv = BHV.build(tree, ntables=2)

    def hyperv():
        from dissect.hypervisor.descriptor.hyperv import HyperVFile

        h = HyperVFile(_bio(hv))
        h.as_dict()
        h["configuration"]["big"].get_file_object().open().read()

    yield "handle:hyperv:valid", hyperv, False

    # a file that was not closed cleanly: the replay log announces outstanding entries (target offset, size, where the data
    # lies in the log); reading the configuration is not the moment to apply them to the evidence
    import struct as _struct

    for n_ent in (1, 3):
        raw = bytearray(hv)
        _struct.pack_into("<I", raw, 0x8008, n_ent)
        for i in range(n_ent):
            data_at = 0x400 + 0x40 * i
            _struct.pack_into("<QIIIII", raw, 0x8000 + 0x22 + 28 * i, 0x10040 + 0x20 * i, 8, data_at, 0, 0, 0)
            raw[0x8000 + data_at:0x8000 + data_at + 8] = b"REPLAYED"
        unclean = bytes(raw)

        def hyperv_unclean(unclean=unclean):
            from dissect.hypervisor.descriptor.hyperv import HyperVFile

            fh = _bio(unclean)
            try:
                HyperVFile(fh).as_dict()
            except Exception:
                pass
            if fh.getvalue() != unclean:
                vfile.MUTATIONS.append(("hyperv", "content-changed", "replay log applied to the caller's handle"))

        yield f"handle:hyperv:unclean-replay-log-{n_ent}", hyperv_unclean, True
    key, iv = BE.det("k", 32), BE.det("iv", 12)
    env, _ = BE.build(BE.det("p", 5000), key, iv, padding=3)

    def envelope():
        from dissect.hypervisor.util.envelope import Envelope, KeyStore

        Envelope(_bio(env)).decrypt(key)
        KeyStore.from_text(BE.keystore_text(BE.det("i", 16), BE.det("a", 16), BE.det("b", 16))).key

    yield "handle:envelope:valid", envelope, False
    big_env, _ = BE.build(BE.det("p", (5 << 20) + 77), key, iv, padding=3)

    def envelope_big():
        from dissect.hypervisor.util.envelope import Envelope

        fh = _bio(big_env)
        Envelope(fh).decrypt(key)
        if fh.getvalue() != big_env:
            raise AssertionError("the supplied handle's content changed during decrypt")

    yield "handle:envelope:larger-than-a-decrypt-chunk", envelope_big, False
    members = [("d/", "vdir", b""), ("d/a", "visor", b"A" * 513), ("d/u", "ustar", b"U" * 700)]
    tar, _ = BT.build(members, 512)

    def vmtar_(data):
        from dissect.hypervisor.util import vmtar

        t = vmtar.open(fileobj=_bio(data))
        for m in t.getmembers():
            if m.isreg():
                t.extractfile(m).read()

    yield "handle:vmtar:plain", (lambda: vmtar_(tar)), False
    yield "handle:vmtar:gzip", (lambda: vmtar_(gzip.compress(tar))), False
    # compressed archives that inflate to more than 32 / 64 MiB (sizes at which buffering layers start to spill to disk)
    import bz2
    import lzma

    bigtar, _ = BT.build([("d/", "vdir", b""), ("d/big", "visor", b"\0" * ((70 << 20) + 5)), ("d/u", "ustar", b"U" * 700)], 512)
    for cname, comp in (("gzip", lambda b: gzip.compress(b, 1)), ("xz", lambda b: lzma.compress(b, preset=0)), ("bz2", lambda b: bz2.compress(b, 1))):
        packed = comp(bigtar)
        yield f"handle:vmtar:{cname}-inflating-70MiB", (lambda packed=packed: vmtar_(packed)), False
    del bigtar
    dk = BVX.det_bytes("dk", 32)
    pair, _ = BVX.pair_text("pw", "PBKDF2-HMAC-SHA-1", "AES-256", 1, BVX.det_bytes("s", 16), "HMAC-SHA-1", "AES-256", dk, BVX.det_bytes("iv", 16))
    vt = BVX.vmx_text([pair], BVX.seal(dk, b'scsi0:0.fileName = "a.vmdk"', "HMAC-SHA-1", BVX.det_bytes("i2", 16)))

    def vmx():
        from dissect.hypervisor.descriptor.vmx import VMX

        v = VMX.parse(vt)
        v.unlock_with_phrase("pw")
        v.disks()
        try:
            VMX.parse(vt).unlock_with_phrase("nope")
        except ValueError:
            pass

    yield "handle:vmx:valid", vmx, False
    from mc.checks import c19

    for entry in ("ovf", "vbox", "pvs"):
        doc, _ = c19._document(entry, "plain", 1, "text", "/nonexistent/canary")
        yield f"handle:{entry}:valid", (lambda entry=entry, doc=doc: c19._parse(entry, doc, None)), False
        bad, _ = c19._document(entry, "external-file", 1, "text", "/nonexistent/canary")

        def hostile(entry=entry, bad=bad):
            try:
                c19._parse(entry, bad, None)
            except Exception:
                pass

        yield f"handle:{entry}:hostile", hostile, True


def _work_errors():
    imgs = _images()
    for kind, raw in imgs.items():
        if kind == "vhdx":
            continue
        for how, data in (("bad-magic", b"\xde\xad\xbe\xef" * 4 + raw[16:]), ("trunc-64", raw[:64]), ("trunc-half", raw[:len(raw) // 2]),
                          ("trunc-tail", raw[:-700]), ("empty", b"")):
            def f(kind=kind, data=data):
                try:
                    _open_kind(kind, data)
                except Exception:
                    pass

            yield f"error:{kind}:{how}", f, True


_HELD = {}


def _populate(d):
    """Path-based inputs: written once into the evidence directory, which is then made read-only."""
    from mc.builders import hdd as BH
    from mc.builders import vhdx as BX
    from mc.builders import vmdk as BM

    vm = os.path.join(d, "vm")
    os.makedirs(vm)
    # VHDX chain
    BX.build([DATA, DATA], [0, 1], layer=1, disk_id=b"\x01" * 16).write_to(os.path.join(vm, "base.vhdx"))
    spb = 2048
    bm = {0: [1 if 8 <= s < 20 else 0 for s in range(spb)]}
    BX.build([BX.PARTIAL, 0], [0, None], layer=2, parent=[("relative_path", ".\\base.vhdx"), ("absolute_win32_path", "C:\\x\\base.vhdx")],
             bitmaps=bm, disk_id=b"\x02" * 16).write_to(os.path.join(vm, "diff.avhdx"))
    BX.build([0, DATA], [None, 0], layer=3, parent=[("relative_path", ".\\gone.vhdx"), ("absolute_win32_path", "C:\\x\\gone.vhdx")],
             disk_id=b"\x03" * 16).write_to(os.path.join(vm, "orphan.avhdx"))
    # VMDK descriptor chain + missing extent
    st, sl = [DATA, HOLE, ZERO], [0, None, None]
    BM.build_hosted(st, sl, 8, 512, 24, layer=1).write_to(os.path.join(vm, "base-s001.vmdk"))
    BM.build_flat(16, 2, slack_sectors=3).write_to(os.path.join(vm, "base-flat.vmdk"))
    with open(os.path.join(vm, "base.vmdk"), "w") as f:
        f.write(BM.descriptor_text("custom", [("RW", 24, "SPARSE", "base-s001.vmdk", None), ("RW", 16, "FLAT", "base-flat.vmdk", 0)],
                                   cid="00000001"))
    BM.build_sesparse([HOLE, DATA, HOLE, HOLE, HOLE], [None, 0, None, None, None], 8, 64, 40, layer=3).write_to(os.path.join(vm, "top-sesparse.vmdk"))
    with open(os.path.join(vm, "top.vmdk"), "w") as f:
        f.write(BM.descriptor_text("seSparse", [("RW", 40, "SESPARSE", "top-sesparse.vmdk", None)], cid="00000002",
                                   parent_cid="00000001", parent_hint="base.vmdk"))
    with open(os.path.join(vm, "missing-extent.vmdk"), "w") as f:
        f.write(BM.descriptor_text("custom", [("RW", 24, "SPARSE", "nothere-s001.vmdk", None)]))
    # descriptors the caller holds open itself (delete-on-close temporary files in the evidence directory): whatever the
    # library does with a handle it was given, the file must still be there afterwards
    import tempfile

    for tag, text in (("missing-extent", BM.descriptor_text("custom", [("RW", 24, "SPARSE", "nothere-s001.vmdk", None)])),
                      ("missing-parent", BM.descriptor_text("custom", [("RW", 24, "SPARSE", "base-s001.vmdk", None)], cid="3",
                                                            parent_cid="9", parent_hint="nothere.vmdk")),
                      ("valid", BM.descriptor_text("custom", [("RW", 24, "SPARSE", "base-s001.vmdk", None)]))):
        t = tempfile.NamedTemporaryFile(mode="w+b", dir=vm, prefix=f"held-{tag}-", suffix=".vmdk")
        t.write(text.encode())
        t.flush()
        t.seek(0)
        _HELD[tag] = t
    with open(os.path.join(vm, "missing-parent.vmdk"), "w") as f:
        f.write(BM.descriptor_text("custom", [("RW", 24, "SPARSE", "base-s001.vmdk", None)], cid="3", parent_cid="9",
                                   parent_hint="nothere.vmdk"))
    # Parallels
    hd = os.path.join(vm, "disk.hdd")
    os.makedirs(hd)
    g0 = "{00000001-0000-4000-8000-000000000000}"
    BH.build_hds([DATA, HOLE, DATA], [1, None, 2], 8, 2, 24, layer=1).write_to(os.path.join(hd, f"d.0.{g0}.hds"))
    BH.build_hds([HOLE, DATA, HOLE], [None, 1, None], 8, 2, 24, layer=2).write_to(os.path.join(hd, f"d.0.{BH.DEFAULT_TOP}.hds"))
    with open(os.path.join(hd, "DiskDescriptor.xml"), "w") as f:
        f.write(BH.descriptor_xml(24, [(0, 24, [(g0, "Compressed", f"d.0.{g0}.hds"), (BH.DEFAULT_TOP, "Compressed", f"d.0.{BH.DEFAULT_TOP}.hds")])],
                                  [(g0, BH.NULL_GUID), (BH.DEFAULT_TOP, g0)]))
    open(os.path.join(hd, "disk.hdd"), "wb").close()
    # Plain storages of 1 GiB + 4 KiB and 4 GiB + 4 KiB (sparse files) next to a small compressed one
    hp = os.path.join(vm, "bigplain.hdd")
    os.makedirs(hp)
    sizes = [(1 << 21) + 8, (1 << 23) + 8]
    stor, pos = [], 0
    for n, sec in enumerate(sizes):
        with open(os.path.join(hp, f"p{n}.hds"), "wb") as f:
            f.write(b"plain-storage-%d" % n)
            f.truncate(sec * 512)
        stor.append((pos, pos + sec, [(BH.DEFAULT_TOP, "Plain", f"p{n}.hds")]))
        pos += sec
    BH.build_hds([DATA, HOLE, DATA], [1, None, 2], 8, 2, 24, layer=1).write_to(os.path.join(hp, "c.hds"))
    stor.append((pos, pos + 24, [(BH.DEFAULT_TOP, "Compressed", "c.hds")]))
    with open(os.path.join(hp, "DiskDescriptor.xml"), "w") as f:
        f.write(BH.descriptor_xml(pos + 24, stor, [(BH.DEFAULT_TOP, BH.NULL_GUID)]))
    # copies of the handle-based images as files (opened by the census itself in r+b / a+b)
    import gzip as _gzip

    from mc.builders import vmtar as BT

    tar, _ = BT.build([("d/", "vdir", b""), ("d/a", "visor", b"A" * 513), ("d/u", "ustar", b"U" * 700)], 512)
    blobs = {k: v for k, v in _images().items() if k != "vhdx"}
    blobs["vmtar"] = tar
    blobs["vmtar-gz"] = _gzip.compress(tar, mtime=0)
    for kind, raw in blobs.items():
        with open(os.path.join(vm, "modes-" + kind + ".bin"), "wb") as f:
            f.write(raw)
    bad = os.path.join(vm, "nodesc.hdd")
    os.makedirs(bad)
    bad2 = os.path.join(vm, "badtype.hdd")
    os.makedirs(bad2)
    with open(os.path.join(bad2, "DiskDescriptor.xml"), "w") as f:
        f.write(BH.descriptor_xml(24, [(0, 24, [(BH.DEFAULT_TOP, "Weird", "x.hds")])], [(BH.DEFAULT_TOP, BH.NULL_GUID)]))
    open(os.path.join(bad2, "x.hds"), "wb").close()
    # bundles whose descriptor names an image in another spelling than the file has (written on a case-insensitive volume), or
    # names no existing file at all; and one left by an interrupted update (empty descriptor next to its .Backup)
    for nm, listed, present in (("othercase.hdd", "Harddisk.hds", "harddisk.hds"), ("noimage.hdd", "gone.hds", "other.hds")):
        dd = os.path.join(vm, nm)
        os.makedirs(dd)
        with open(os.path.join(dd, "DiskDescriptor.xml"), "w") as f:
            f.write(BH.descriptor_xml(24, [(0, 24, [(BH.DEFAULT_TOP, "Compressed", listed)])], [(BH.DEFAULT_TOP, BH.NULL_GUID)]))
        BH.build_hds([DATA, HOLE, DATA], [1, None, 2], 8, 2, 24, layer=1).write_to(os.path.join(dd, present))
    dd = os.path.join(vm, "interrupted.hdd")
    os.makedirs(dd)
    open(os.path.join(dd, "DiskDescriptor.xml"), "w").close()
    with open(os.path.join(dd, "DiskDescriptor.xml.Backup"), "w") as f:
        f.write(BH.descriptor_xml(24, [(0, 24, [(BH.DEFAULT_TOP, "Compressed", "c.hds")])], [(BH.DEFAULT_TOP, BH.NULL_GUID)]))
    BH.build_hds([DATA, HOLE, DATA], [1, None, 2], 8, 2, 24, layer=1).write_to(os.path.join(dd, "c.hds"))
    return vm, g0


def _work_paths(vm, g0):
    def closing(objs):
        for o in objs:
            try:
                o.close()
            except Exception:
                pass

    def vhdx(arg):
        from dissect.hypervisor.disk.vhdx import VHDX

        v = VHDX(arg)
        try:
            v.seek(0)
            v.read(20 * 512)
            v.read_sectors(5, 20)
        finally:
            x = v
            while x is not None:
                closing([x.fh])
                x = x.parent

    yield "path:vhdx:Path", (lambda: vhdx(Path(vm) / "base.vhdx")), False
    yield "path:vhdx:str", (lambda: vhdx(os.path.join(vm, "base.vhdx"))), False
    yield "path:vhdx:chain", (lambda: vhdx(Path(vm) / "diff.avhdx")), False

    def vhdx_named_handle():
        with open(os.path.join(vm, "diff.avhdx"), "rb") as fh:
            vhdx(fh)

    yield "path:vhdx:named-handle", vhdx_named_handle, False

    def expect_fail(fn):
        def g():
            try:
                fn()
            except Exception:
                return
        return g

    yield "path:vhdx:missing-parent", expect_fail(lambda: vhdx(Path(vm) / "orphan.avhdx")), True

    for mode in ("r+b", "a+b"):
        def vhdx_rw_handle(mode=mode):
            # the caller's own handle is writable (its business); what the library opens itself -- the parent -- is not
            with open(os.path.join(vm, "diff.avhdx"), mode) as fh:
                fh.seek(0)
                vhdx(fh)

        yield f"path:vhdx:chain-through-{mode}-handle", vhdx_rw_handle, False

    def vmdk(arg):
        from dissect.hypervisor.disk.vmdk import VMDK

        v = VMDK(arg)
        try:
            _read_some(v, v.read_sectors)
        finally:
            x = v
            while x is not None:
                closing([d.fh for d in x.disks])
                x = x.parent

    yield "path:vmdk:descriptor-Path", (lambda: vmdk(Path(vm) / "base.vmdk")), False
    yield "path:vmdk:descriptor-str", (lambda: vmdk(os.path.join(vm, "base.vmdk"))), False
    yield "path:vmdk:parent-chain", (lambda: vmdk(Path(vm) / "top.vmdk")), False
    yield "path:vmdk:extent-Path", (lambda: vmdk(Path(vm) / "base-s001.vmdk")), False
    yield "path:vmdk:missing-extent", expect_fail(lambda: vmdk(Path(vm) / "missing-extent.vmdk")), True
    yield "path:vmdk:missing-parent", expect_fail(lambda: vmdk(Path(vm) / "missing-parent.vmdk")), True
    for tag in ("missing-extent", "missing-parent", "valid"):
        def held(tag=tag):
            fh = _HELD[tag]
            fh.seek(0)
            vmdk(fh)

        yield f"path:vmdk:held-descriptor-handle:{tag}", (held if tag == "valid" else expect_fail(held)), tag != "valid"

    def hdd(arg, guid=None):
        from dissect.hypervisor.disk.hdd import HDD

        s = HDD(arg).open(guid)
        try:
            _read_some(s)
        finally:
            for _, x in s.streams:
                while x is not None:
                    closing([getattr(x, "fh", x)])
                    x = getattr(x, "parent", None)

    yield "path:hdd:dir", (lambda: hdd(Path(vm) / "disk.hdd")), False
    yield "path:hdd:file-in-dir", (lambda: hdd(Path(vm) / "disk.hdd" / "disk.hdd")), False
    yield "path:hdd:guid", (lambda: hdd(Path(vm) / "disk.hdd", g0)), False

    # handles the caller opened in a mode that would allow writing (r+b, a+b) or that merely report such a mode (a spooled
    # temporary file says "w+b"): the library is handed a readable object and leaves it as it is
    import gzip
    import tempfile

    imgs = _images()
    from mc.builders import vmtar as BT

    tar, _ = BT.build([("d/", "vdir", b""), ("d/a", "visor", b"A" * 513), ("d/u", "ustar", b"U" * 700)], 512)
    blobs = dict(imgs)
    blobs.pop("vhdx", None)
    blobs["vmtar"] = tar
    blobs["vmtar-gz"] = gzip.compress(tar, mtime=0)
    for kind, raw in sorted(blobs.items()):
        for mode in ("r+b", "a+b", "spooled"):
            def f(kind=kind, raw=raw, mode=mode):
                if mode == "spooled":
                    fh = tempfile.SpooledTemporaryFile(max_size=1 << 26)
                    fh.write(raw)
                    fh.seek(0)
                else:
                    fh = open(os.path.join(vm, "modes-" + kind + ".bin"), mode)
                    fh.seek(0)
                try:
                    try:
                        if kind.startswith("vmtar"):
                            from dissect.hypervisor.util import vmtar

                            t = vmtar.open(fileobj=fh)
                            for m in t.getmembers():
                                if m.isreg():
                                    t.extractfile(m).read()
                            t.close()
                        else:
                            _open_kind_fh(kind, fh)
                    finally:
                        # whatever the library made of the input: the caller's object holds what it held before
                        fh.seek(0)
                        now = fh.read()
                        if now != raw:
                            vfile.MUTATIONS.append((f"{kind}:{mode}", "content-changed", f"{len(now)} bytes, expected {len(raw)}"))
                finally:
                    fh.close()

            yield f"path:handle-mode:{kind}:{mode}", f, False

    def hdd_big():
        from dissect.hypervisor.disk.hdd import HDD

        s = HDD(Path(vm) / "bigplain.hdd").open()
        try:
            for off in (0, (1 << 30) - 100, (1 << 30) + 4096 - 50, (5 << 30) + 8192 - 10):
                s.seek(off)
                s.read(700)
        finally:
            for _, x in s.streams:
                closing([getattr(x, "fh", x)])

    yield "path:hdd:plain-storages-1GiB-4GiB", hdd_big, False
    yield "path:hdd:missing-descriptor", expect_fail(lambda: hdd(Path(vm) / "nodesc.hdd")), True
    yield "path:hdd:unsupported-type", expect_fail(lambda: hdd(Path(vm) / "badtype.hdd")), True
    # either answer is allowed (refusal, or the disk): nothing is created, changed or removed in the bundle
    for nm in ("othercase.hdd", "noimage.hdd", "interrupted.hdd"):
        def any_answer(nm=nm):
            try:
                hdd(Path(vm) / nm)
            except Exception:
                pass

        yield f"path:hdd:{nm}", any_answer, True
    yield "path:hdd:unknown-guid", expect_fail(lambda: hdd(Path(vm) / "disk.hdd", "{99999999-0000-4000-8000-000000000000}")), True


def run_shard(shard, ctx):
    run_case({k: v for k, v in shard.items() if k != "buf"}, ctx)


def _judge(ctx, case, name, events, allow_output=None, opened_sites=None):
    """Classify the audit events of one execution; report violations."""
    out_opens = 0
    for ev in events:
        if ev[2] is None:
            ctx.extra["events-not-from-library-frames"] += 1
            continue  # raised by the harness / interpreter itself: no frame of dissect/hypervisor on the stack
        cls = monitors.classify(ev)
        path = ev[1][0] if ev[1] else None
        if ev[0] == "open" and isinstance(path, str) and ev[2] and opened_sites is not None:
            opened_sites.add(ev[2].split(":")[0])
        if cls == "write-open":
            if allow_output is not None and path == allow_output:
                out_opens += 1
                continue
            ctx.violation(dict(case, only=name), {"subject": "read-only", "kind": "write-open", "site": ev[2]},
                          {"execution": name, "event": repr(ev)[:300]})
            return False
        if cls in ("mutation", "network"):
            ctx.violation(dict(case, only=name), {"subject": "read-only", "kind": cls, "event": ev[0], "site": ev[2]},
                          {"execution": name, "event": repr(ev)[:300]})
            return False
    if allow_output is not None and out_opens != 1:
        ctx.violation(dict(case, only=name), {"subject": "read-only", "kind": "output-opened-%d-times" % out_opens}, {"execution": name})
        return False
    if vfile.MUTATIONS:
        m = list(vfile.MUTATIONS)
        del vfile.MUTATIONS[:]
        ctx.violation(dict(case, only=name), {"subject": "read-only", "kind": "handle-mutated", "method": m[0][1]},
                      {"execution": name, "calls": m[:3]})
        return False
    return True


def run_case(case, ctx):
    group = case["group"]
    only = case.get("only")
    ctx.executions += 1
    ctx.model(case)
    ctx.sample(case)
    if group == "census":
        return _census(case, ctx)
    if group == "foreign":
        return _foreign(case, ctx)
    if group == "environment":
        return _environment(case, ctx)
    with scratch_dir() as d:
        vm = g0 = None
        if group in ("paths", "cli"):
            vm, g0 = _populate(d)
            if group == "cli":
                _populate_cli(vm)
            make_readonly(d)
            before = tree_digest(d)
        work = {"handles": _work_handles, "errors": _work_errors, "paths": lambda: _work_paths(vm, g0),
                "cli": lambda: _work_cli(vm, d)}[group]()
        sites = set()
        failed_valid = []
        for item in work:
            name, fn, is_error = item[0], item[1], item[2]
            allow = item[3] if len(item) > 3 else None
            if only is not None and only != name:
                continue
            ctx.transitions += 1
            ctx.states += 1
            del vfile.MUTATIONS[:]
            with ctx.watch(dict(case, only=name), 120):
                with monitors.armed() as events:
                    try:
                        fn()
                    except Exception as e:
                        if not is_error:
                            # a well-formed input the tree under test cannot process: not a matter of this property (it is
                            # reported by the check of the property that covers the format); what was observed up to the
                            # failure is still judged, and the failure is counted in the evidence
                            ctx.extra["census-executions-that-raised-on-valid-input"] += 1
                            failed_valid.append(name)
                evs = list(events)
            if any(e[0] == "open" and e[2] for e in evs) or is_error:
                ctx.nontrivial += 1
            if not _judge(ctx, case, name, evs, allow, sites):
                return
            if group in ("paths", "cli") and tree_digest(d) != before:
                ctx.violation(dict(case, only=name), {"subject": "read-only", "kind": "evidence-directory-changed"}, {"execution": name})
                return
            ctx.outcome("clean")
        for s in sorted(sites):
            ctx.extra["opened-at:" + s] += 1
        if not failed_valid and only is None:
            ctx.outcome("valid-inputs-processed:" + group)  # vacuity guard: a census whose inputs are refused vouches for nothing
        for t in list(_HELD.values()):
            try:
                t.close()
            except Exception:
                pass
        _HELD.clear()


ENV_VALUES = ["1", "DEBUG", "INFO", "debug", "true", "NOTSET", "/nonexistent/verif/x"]


def _env_names():
    """Environment variables the tree under test consults (string literals next to environ / getenv in its sources)."""
    import re

    from mc import bootstrap

    names = set()
    root = os.path.join(bootstrap.repo_root(), "dissect", "hypervisor")
    pat = re.compile(r"""(?:environ(?:\.get)?\s*[\[(]|getenv\s*\()\s*[rbu]?["']([A-Za-z_][A-Za-z0-9_]*)["']""")
    for dp, _dn, fns in os.walk(root):
        for fn in fns:
            if fn.endswith(".py"):
                try:
                    names.update(pat.findall(open(os.path.join(dp, fn), encoding="utf-8", errors="replace").read()))
                except OSError:
                    pass
    return sorted(names)


def _environment(case, ctx):
    """The environment is an input too: every variable the tree consults x a small value alphabet (and the empty environment
    as control), each in a fresh interpreter (the variable is set before the library is imported) that runs the `paths`
    workloads from an empty working directory.  Nothing may be opened for writing, the evidence stays as it was and the working
    directory stays empty."""
    import json
    import subprocess

    from mc import bootstrap

    combos = [(None, None)] + [(n, v) for n in _env_names() for v in ENV_VALUES]
    ctx.extra["environment-variables-consulted"] += len(_env_names())
    for name, value in combos:
        if case.get("only") is not None and case["only"] != f"{name}={value}":
            continue
        ctx.transitions += 1
        ctx.states += 1
        with scratch_dir() as cwd:
            env = dict(os.environ)
            env["VERIF_REPO"] = bootstrap.repo_root()
            if name is not None:
                env[name] = value
                ctx.nontrivial += 1
            code = ("import sys, json; sys.path.insert(0, %r); from mc import engine, bootstrap; "
                    "engine._winit(bootstrap.repo_root(), 8192, engine.AS_LIMIT); from mc.checks import c09; "
                    "c = engine.Ctx('C09', None, 0, collect_all=True); c09.run_case({'group': 'paths'}, c); "
                    "print('ENVCHILD ' + json.dumps([[v['witness'], str(v['detail'])[:300]] for v in c.violations]))"
                    % os.path.dirname(os.path.dirname(os.path.dirname(os.path.abspath(__file__)))))
            with ctx.watch(dict(case, only=f"{name}={value}"), 600):
                p = subprocess.run([sys.executable, "-c", code], cwd=cwd, env=env, capture_output=True, text=True, timeout=500)
            line = [ln for ln in p.stdout.splitlines() if ln.startswith("ENVCHILD ")]
            left = sorted(os.listdir(cwd))
            if left:
                ctx.violation(dict(case, only=f"{name}={value}"), {"subject": "read-only", "kind": "file-nobody-named", "variable": name},
                              {"value": value, "files": left[:5]})
                return
            if not line:
                if name is None:
                    raise AssertionError("harness: environment child produced no verdict: " + (p.stderr or p.stdout)[-400:])
                # the tree refuses this value for the variable (e.g. an unknown log level) before doing anything: counted
                ctx.extra["environment-value-refused"] += 1
                continue
            found = json.loads(line[0][len("ENVCHILD "):])
            if found:
                w = dict(found[0][0])
                w["variable"] = name
                ctx.violation(dict(case, only=f"{name}={value}"), w, {"value": value, "child": found[0][1]})
                return
            ctx.outcome("clean")


def _foreign(case, ctx):
    """One quick-tier shard of another check, executed under the audit monitor; that check's own verdicts are not of interest
    here (they are its business), only what the library did to files, handles, processes and the network meanwhile."""
    import importlib

    from mc import engine

    mod = importlib.import_module("mc.checks." + case["module"])
    shard = mod.shards("quick")[case["index"]]
    sub = engine.Ctx(mod.PROPERTY, None, 0, collect_all=True)
    del vfile.MUTATIONS[:]
    with monitors.armed() as events:
        try:
            mod.run_shard(shard, sub)
        except engine.StopShard:
            pass
        evs = list(events)
    ctx.transitions += sub.transitions
    ctx.states += sub.states
    ctx.extra["foreign-executions:" + case["module"]] += sub.executions
    lib = [e for e in evs if e[2] is not None]
    ctx.extra["foreign-library-events:" + case["module"]] += len(lib)
    if any(e[0] == "open" for e in lib):
        ctx.nontrivial += 1
    allow = None
    # the decrypt tool's --output files (C16's command-line cases) are the one permitted write
    outs = sorted({e[1][0] for e in lib if monitors.classify(e) == "write-open" and e[2].startswith("tools/envelope.py")
                   and isinstance(e[1][0], str) and os.path.basename(e[1][0]) == "out.bin"})
    for e in lib:
        cls = monitors.classify(e)
        if cls == "write-open" and e[1] and e[1][0] in outs:
            continue
        if cls in ("write-open", "mutation", "network"):
            ctx.violation(case, {"subject": "read-only", "kind": cls, "event": e[0], "site": e[2], "during": case["module"]},
                          {"event": repr(e)[:300], "shard": repr(shard)[:200]})
            return
    if vfile.MUTATIONS:
        m = list(vfile.MUTATIONS)
        del vfile.MUTATIONS[:]
        ctx.violation(case, {"subject": "read-only", "kind": "handle-mutated", "method": m[0][1], "during": case["module"]},
                      {"calls": m[:3], "shard": repr(shard)[:200]})
        return
    ctx.outcome("clean")


def _populate_cli(vm):
    from mc.builders import envelope as BE

    d1, d2, kid = BE.det("d1", 16), BE.det("d2", 16), BE.det("kid", 16)
    key = BE.derive_key(d1, d2)
    img, _ = BE.build(BE.det("payload", 5000), key, BE.det("iv", 12), padding=7)
    with open(os.path.join(vm, "local.tgz.ve"), "wb") as f:
        f.write(img)
    with open(os.path.join(vm, "encryption.info"), "w") as f:
        f.write(BE.keystore_text(kid, d1, d2))
    with open(os.path.join(vm, "corrupt.ve"), "wb") as f:
        f.write(img[:9000] + b"\x00" + img[9001:])


def _work_cli(vm, d):
    from dissect.hypervisor.tools import envelope as tool

    outdir = os.path.join(os.path.dirname(d), os.path.basename(d) + "-out")

    def run(envelope, keystore, out):
        def f():
            argv = sys.argv
            sys.argv = ["envelope-decrypt", envelope, "-ks", keystore, "-o", out]
            try:
                tool.main()
            except SystemExit:
                pass
            finally:
                sys.argv = argv
        return f

    import shutil

    os.makedirs(outdir, exist_ok=True)
    try:
        out = os.path.join(outdir, "out.bin")
        yield "cli:valid", run(os.path.join(vm, "local.tgz.ve"), os.path.join(vm, "encryption.info"), out), False, out
        listing = sorted(os.listdir(outdir))
        if listing != ["out.bin"]:
            yield "cli:extra-files:" + ",".join(listing), (lambda: (_ for _ in ()).throw(AssertionError("extra files beside --output: %r" % listing))), False
        out2 = os.path.join(outdir, "out2.bin")

        def failing():
            try:
                run(os.path.join(vm, "corrupt.ve"), os.path.join(vm, "encryption.info"), out2)()
            except Exception:
                pass

        yield "cli:corrupt-envelope", failing, True, out2
        def relative_output():
            # run from a case directory that is not the evidence directory, with a relative --output: the file belongs there
            cwd = os.getcwd()
            os.chdir(outdir)
            try:
                run(os.path.join(vm, "local.tgz.ve"), os.path.join(vm, "encryption.info"), "local.tgz")()
            finally:
                os.chdir(cwd)

        yield "cli:relative-output-from-another-directory", relative_output, False, "local.tgz"
        lst = sorted(os.listdir(outdir))
        if "local.tgz" not in lst or not set(lst) <= {"local.tgz", "out.bin", "out2.bin", "cases", "current", "sealed"}:
            yield "cli:relative-output-misplaced:" + ",".join(lst), (lambda: (_ for _ in ()).throw(AssertionError("relative --output not written to the working directory: %r" % lst))), False
        # an --output path that goes through a symbolic link to a directory and then '..': the operating system resolves it,
        # the tool writes to the path it was given
        os.makedirs(os.path.join(outdir, "cases", "case42"), exist_ok=True)
        if not os.path.lexists(os.path.join(outdir, "current")):
            os.symlink(os.path.join("cases", "case42"), os.path.join(outdir, "current"))
        sym_out = os.path.join(outdir, "current", "..", "out-sym.bin")
        yield "cli:output-through-symlink-and-dotdot", run(os.path.join(vm, "local.tgz.ve"), os.path.join(vm, "encryption.info"), sym_out), False, sym_out
        if not os.path.exists(os.path.join(outdir, "cases", "out-sym.bin")) or os.path.exists(os.path.join(outdir, "out-sym.bin")):
            yield "cli:output-misplaced", (lambda: (_ for _ in ()).throw(AssertionError("--output through a symlink was written elsewhere"))), False
        # an --output that already exists as a read-only file (a sealed earlier result): the tool writes to the path it was given
        # or fails; it never invents another name beside it
        sealed_dir = os.path.join(outdir, "sealed")
        os.makedirs(sealed_dir, exist_ok=True)
        sealed = os.path.join(sealed_dir, "local.tgz")
        if not os.path.exists(sealed):
            with open(sealed, "wb") as f:
                f.write(b"earlier result")
            os.chmod(sealed, 0o444)

        def sealed_output():
            try:
                run(os.path.join(vm, "local.tgz.ve"), os.path.join(vm, "encryption.info"), sealed)()
            except PermissionError:
                pass

        yield "cli:existing-read-only-output", sealed_output, False, sealed
        lst = sorted(os.listdir(sealed_dir))
        if lst != ["local.tgz"]:
            yield "cli:file-nobody-named:" + ",".join(lst), (lambda: (_ for _ in ()).throw(AssertionError("files beside the named --output: %r" % lst))), False
        yield "cli:missing-input", run(os.path.join(vm, "nothere.ve"), os.path.join(vm, "encryption.info"), os.path.join(outdir, "o3")), True

        def no_output_argument():
            # without -o the tool has nowhere to write: whatever it does, it must not create or open anything for writing
            argv = sys.argv
            sys.argv = ["envelope-decrypt", os.path.join(vm, "local.tgz.ve"), "-ks", os.path.join(vm, "encryption.info")]
            import contextlib

            try:
                with contextlib.redirect_stderr(io.StringIO()):
                    tool.main()
            except SystemExit:
                pass
            except Exception:
                pass
            finally:
                sys.argv = argv

        yield "cli:no-output-argument", no_output_argument, True
    finally:
        shutil.rmtree(outdir, ignore_errors=True)


# ---- AST census of path-opening / mutating call sites ------------------------------------------------------------------------------
OPENERS = {"open", "read_text", "read_bytes"}
MUTATORS = {"write_text", "write_bytes", "unlink", "rmdir", "mkdir", "rename", "replace", "touch", "chmod", "symlink_to", "remove",
            "removedirs", "rmtree", "copy", "copyfile", "move", "truncate", "makedirs", "system", "popen", "Popen", "run",
            # metadata of a file is evidence too: times, owner, mode, flags, extended attributes, further names
            "utime", "chown", "lchown", "lchmod", "fchmod", "fchown", "chflags", "lchflags", "setxattr", "removexattr", "link",
            "symlink", "hardlink_to", "link_to", "mkfifo", "mknod", "ftruncate", "copymode", "copystat", "copy2", "copytree"}
# call sites (file -> functions) the census workload is known to reach; an opener outside this map is reported as uncovered
EXPECTED_REACHED = {
    "disk/vhdx.py": {"__init__"},
    "disk/vmdk.py": {"__init__"},
    "disk/hdd.py": {"_open_image", "__init__"},
    "tools/envelope.py": {"main"},
}


def _census(case, ctx):
    from mc.bootstrap import repo_root

    root = os.path.join(repo_root(), "dissect", "hypervisor")
    openers, mutators, modes = [], [], []
    for dirpath, _, files in os.walk(root):
        for fn in files:
            if not fn.endswith(".py"):
                continue
            p = os.path.join(dirpath, fn)
            rel = os.path.relpath(p, root)
            tree = ast.parse(open(p).read(), p)
            for func in [n for n in ast.walk(tree) if isinstance(n, (ast.FunctionDef, ast.AsyncFunctionDef))] + [tree]:
                fname = getattr(func, "name", "<module>")
                for node in ast.walk(func):
                    if not isinstance(node, ast.Call):
                        continue
                    f = node.func
                    name = f.attr if isinstance(f, ast.Attribute) else f.id if isinstance(f, ast.Name) else None
                    if name is None:
                        continue
                    if isinstance(f, ast.Attribute) and isinstance(f.value, ast.Name) and f.value.id in ("tarfile", "gzip", "zlib"):
                        continue  # tarfile.open(fileobj=...) etc. operate on supplied handles
                    if name in OPENERS and fname != "<module>":
                        # .open() on RangeStream / file objects is not a path open: require a path-like receiver or builtin open
                        recv = ast.unparse(f.value) if isinstance(f, ast.Attribute) else ""
                        if isinstance(f, ast.Name) or any(k in recv.lower() for k in ("path", "root", "with_name", "candidate", "args.")):
                            openers.append((rel, fname, node.lineno, ast.unparse(node)[:80]))
                            for a in [c for x in list(node.args) + [k.value for k in node.keywords] for c in ast.walk(x)]:
                                if isinstance(a, ast.Constant) and isinstance(a.value, str) and a.value and set(a.value) <= set("rwbxat+U") \
                                        and any(c in a.value for c in "wax+"):
                                    modes.append((rel, fname, node.lineno, a.value))
                    if name in MUTATORS and fname != "<module>":
                        recv = ast.unparse(f.value) if isinstance(f, ast.Attribute) else ""
                        if recv.split(".")[0] in ("os", "shutil", "subprocess") or (
                                "path" in recv.lower() and name not in ("replace", "run", "copy", "move", "system", "remove")):
                            mutators.append((rel, fname, node.lineno, ast.unparse(node)[:80]))
    ctx.transitions += len(openers) + len(mutators) + 1
    ctx.states += len(openers) + len(mutators) + 1
    ctx.nontrivial += len(openers)
    ctx.extra["census.path_open_sites"] += len(set((r, f) for r, f, _, _ in openers))
    for rel, fname, line, mode in modes:
        if rel != "tools/envelope.py":
            ctx.violation(case, {"subject": "read-only", "kind": "write-mode-literal", "site": f"{rel}:{fname}"},
                          {"line": line, "mode": mode})
            return
    for rel, fname, line, src in mutators:
        ctx.violation(case, {"subject": "read-only", "kind": "mutating-call-site", "site": f"{rel}:{fname}"}, {"line": line, "call": src})
        return
    uncovered = sorted({(rel, fname) for rel, fname, _, _ in openers if fname not in EXPECTED_REACHED.get(rel, set())})
    if uncovered:
        # not a violation of the property: the census workload does not reach these sites, so the check cannot vouch for them
        raise AssertionError(f"incomplete census: path-opening call sites not covered by the workload: {uncovered}")
    ctx.outcome("clean")
