"""C08 -- a disk stream is an immutable byte array under any access history.   Shape B (history tree).

Every sequence of operations up to depth d over the alphabet is executed on a fresh object (no merging on hidden state:
buffers and caches are exactly what must be unobservable) and every step is compared with the history-free StreamModel.
Cache-full / evicting states are reached by sweep prefixes (ascending, descending, strided over 130+ tables / 4100+ BAT
entries, then revisiting the first) followed by the exhaustive suffix tree on the same live object.
"""
from __future__ import annotations

import itertools
import os
from pathlib import Path

from mc import bootstrap, pattern
from mc.diskcheck import describe_mismatch, sliced
from mc.models import DATA, HOLE, ZERO, ConcatDisk, GuestDisk, RawDisk, StreamModel
from mc.scratch import scratch_dir

PROPERTY = "C08"
LEVEL = "model_checking"
TECHNIQUE = "exhaustive history-tree exploration (all operation sequences up to a depth) of real stream objects against a history-free model"
RULE = ("for every stream class (QCow2, QCow2 snapshot view, VMDK sparse / flat / multi-extent, VHDX, VHD fixed + dynamic, "
        "VDI, HDS, Parallels StorageStream) over a small image whose size is not a buffer multiple: every sequence of "
        "operations of depth <= d over the alphabet {seek SET/CUR/END, read, readinto, peek, readoffset, tell, read_sectors} "
        "on one instance, every sequence of depth <= d-1 over the alphabet addressed to two instances over different images "
        "(of the same class, and of two different classes of one format family), "
        "the suffix trees after cache sweeps, and depth <= 2 over every kind of binary file object a caller may supply {file, "
        "unbuffered file, gzip / bz2 / lzma reader, BufferedReader with a 16-byte buffer}; each step compared with the model. non-trivial = sequence with >= 2 "
        "data-returning operations (a later result could depend on an earlier one)")
ASSUMPTIONS = [
    "io semantics of dissect.util AlignedStream: seek clamps CUR/END at 0, negative SET raises ValueError, reads past the end "
    "return the available bytes, peek does not move the position",
    "sector-addressed reads stay inside the disk and do not move the stream position",
    "the caller owns the file objects it supplied and may seek / read them between two calls on the stream ('disturb' "
    "operation): a stream must position the handle itself before every read",
    "thread-safety is not part of the property; AlignedStream itself is a dependency exercised, not verified, here",
]
ALPHABET = "~35 operations per instance (10 seek targets, CUR/END deltas, 6 read lengths, readinto, peek, readoffset, tell, read_sectors)"
BOUND = {"quick": "depth 3 single instance, depth 2 two instances, depth 1-2 after sweeps; buffers {512, 8192}",
         "thorough": "depth 4 single instance (reduced alphabet) / 3, depth 3 two instances, depth 2 after sweeps; 4 buffers"}
EXPECT_OUTCOMES = ["ok"]

CLASSES = ["qcow2", "qcow2-snapshot", "qcow2-backing", "vmdk-sparse", "vmdk-flat", "vmdk-multi", "vhdx", "vhdx-diff",
           "vhd-fixed", "vhd-dynamic", "vdi", "vdi-child", "hds", "hds-child", "hdd-storage"]
SWEEPS = ["qcow2", "vmdk-sparse", "vhd-dynamic", "vhdx"]
FAMILIES = [["qcow2", "qcow2-snapshot", "qcow2-backing"], ["vmdk-sparse", "vmdk-flat", "vmdk-multi"], ["vhd-fixed", "vhd-dynamic"],
            ["vdi", "vdi-child"], ["hds", "hds-child", "hdd-storage"], ["vhdx", "vhdx-diff"]]
# classes whose images are handed over as file objects (the others are opened by path by the library itself)
HANDLE_CLASSES = ["qcow2", "qcow2-snapshot", "qcow2-backing", "vmdk-sparse", "vmdk-stream", "vmdk-cowd", "vmdk-sesparse", "vdi-odd", "vmdk-flat", "vhd-fixed", "vhd-dynamic", "vdi",
                  "vdi-child", "hds", "hds-child"]


def shards(tier):
    out = []
    q = tier == "quick"
    bufs = [512, 8192] if q else [512, 4096, 8192, 65536]
    for buf in bufs:
        for cls in CLASSES:
            d1 = 3
            k = 12
            for i in range(k):
                out.append({"buf": buf, "kind": "single", "cls": cls, "depth": d1, "slice": [i, k]})
            k2 = 4 if q else 16
            for i in range(k2):
                out.append({"buf": buf, "kind": "pair", "cls": cls, "depth": 2 if q else 3, "slice": [i, k2],
                            "lean": not q})
            if not q:
                for i in range(32):
                    out.append({"buf": buf, "kind": "single", "cls": cls, "depth": 4, "slice": [i, 32], "lean": True})
    # two live objects of different classes of one family (they share module-level code and, within a family, helper classes)
    for buf in bufs[:2]:
        for fam in FAMILIES:
            for a, b in itertools.combinations(fam, 2):
                out.append({"buf": buf, "kind": "xpair", "cls": a, "cls2": b, "depth": 2 if q else 3})
    for buf in ([8192] if q else [512, 8192]):
        for cls in CLASSES + ["vmdk-stream", "vmdk-cowd", "vmdk-sesparse", "vdi-odd"]:
            if cls in HANDLE_CLASSES:
                for hk in HANDLE_KINDS:
                    out.append({"buf": buf, "kind": "handles", "cls": cls, "handle": hk, "depth": 2})
    # every class once more with all loggers of the library at DEBUG: depth-2 histories
    for cls in CLASSES:
        out.append({"buf": 8192, "kind": "debuglog", "cls": cls})
    for buf in ([8192] if q else [512, 8192]):
        for cls in SWEEPS:
            for order in ("asc", "desc", "stride"):
                out.append({"buf": buf, "kind": "sweep", "cls": cls, "order": order, "depth": 1 if q else 2})
    return out


# ---- images ------------------------------------------------------------------------------------------------------------
_cache = {}


def _image(cls, variant, buf):
    """-> dict(make=callable returning (stream, sector_reader|None, closer), disk=model, unit, sector_iface)"""
    key = (cls, variant, buf)
    if key in _cache:
        return _cache[key]
    r = _build_image(cls, variant, buf)
    _cache[key] = r
    return r


def _states5(variant, alpha):
    base = {0: [2, 1, 0, 2, 1], 1: [1, 2, 2, 0, 2]}[variant]  # indices into alpha; 2 = data-like
    return [alpha[i] for i in base]


def _build_image(cls, variant, buf):
    lay = 1 + variant * 4
    if cls in ("qcow2", "qcow2-snapshot", "qcow2-backing"):
        from dissect.hypervisor.disk.qcow2 import QCow2

        from mc.builders import qcow2 as B

        st = ["N", "C", "C", "Z", "C"] if variant == 0 else ["C", "N", "C", "U", "Z"]
        slots = [2, None, None, None, None] if variant == 0 else [None, 1, None, None, None]
        size = 5 * 4096 - 1000
        if cls == "qcow2-backing":
            from mc.models import GuestDisk

            base_st = ["N", "N", "U", "N", "N"]
            top_st = ["U", "C", "U", "Z", "U"] if variant == 0 else ["C", "U", "U", "U", "N"]
            top_sl = [None] * 5 if variant == 0 else [None, None, None, None, 1]
            braw = B.build(base_st, [3, 0, None, 1, 2], 12, 3, size - 4096 - 300, layer=lay + 1)[0].tobytes()
            traw = B.build(top_st, top_sl, 12, 2 if variant else 3, size, layer=lay, backing_name="b.qcow2", comp_pack=True)[0].tobytes()
            bdisk = B.model(base_st, 12, size - 4096 - 300, layer=lay + 1)
            disk = B.model(top_st, 12, size, layer=lay, parent=bdisk)

            def make():
                return QCow2(_bio(traw), backing_file=QCow2(_bio(braw))), None, _noop
            return dict(make=make, disk=disk, unit=4096, sectors=False)
        if cls == "qcow2":
            # compressed clusters are byte-packed: clusters 1, 2 and 4 start in the same 512-byte host sector
            raw = B.build(st, slots, 12, 3, size, layer=lay, comp_pack=True)[0].tobytes()
            disk = B.model(st, 12, size, layer=lay)

            def make():
                return QCow2(_bio(raw)), None, _noop
        else:
            act = ["U", "N", "Z", "N", "U"]
            snap = {"states": st, "slots": [s + 5 if s is not None else None for s in slots], "layer": lay}
            raw = B.build(act, [None, 0, None, 1, None], 12, 3, size, layer=lay + 1, snapshots=[snap])[0].tobytes()
            disk = B.model(st, 12, size, layer=lay)

            def make():
                q = QCow2(_bio(raw))
                return q.snapshots[0].open(), None, _noop
        return dict(make=make, disk=disk, unit=4096, sectors=False)
    if cls == "vmdk-sparse":
        from dissect.hypervisor.disk.vmdk import VMDK

        from mc.builders import vmdk as B

        st = _states5(variant, [HOLE, ZERO, DATA])
        slots = _perm_slots(st, variant)
        cap = 5 * 8 - 3
        raw = B.build_hosted(st, slots, 8, 512, cap, layer=lay).tobytes()
        disk = B.model(st, 8, cap, layer=lay)

        def make():
            v = VMDK(_bio(raw))
            return v, v.read_sectors, _noop
        return dict(make=make, disk=disk, unit=4096, sectors=True)
    if cls in ("vmdk-stream", "vmdk-cowd", "vmdk-sesparse"):
        # (handle shards only) the other sparse extent kinds: stream-optimised (grain directory located through the footer at
        # the end of the byte stream), COWD, SE-sparse
        from dissect.hypervisor.disk.vmdk import VMDK

        from mc.builders import vmdk as B

        st = _states5(variant, [HOLE, HOLE, DATA] if cls == "vmdk-cowd" else [HOLE, ZERO, DATA])
        slots = _perm_slots(st, variant)
        cap = 5 * 8 - 3
        if cls == "vmdk-stream":
            st = [B.CDATA if x == DATA else x for x in st]
            raw = B.build_hosted(st, slots, 8, 512, cap, layer=lay, footer=True, compressed=True, stride=10).tobytes()
        elif cls == "vmdk-cowd":
            raw = B.build_cowd(st, slots, 8, cap, layer=lay).tobytes()
        else:
            raw = B.build_sesparse(st, slots, 8, 64, cap, layer=lay).tobytes()
        disk = B.model(st, 8, cap, layer=lay)

        def make():
            v = VMDK(_bio(raw))
            return v, v.read_sectors, _noop
        return dict(make=make, disk=disk, unit=4096, sectors=True)
    if cls == "vmdk-flat":
        from dissect.hypervisor.disk.vmdk import VMDK

        nsec = 37 + variant * 2
        raw = pattern.sectors(lay, 0, nsec)
        disk = RawDisk(raw)

        def make():
            v = VMDK(_bio(raw))
            return v, v.read_sectors, _noop
        return dict(make=make, disk=disk, unit=4096, sectors=True)
    if cls == "vmdk-multi":
        from dissect.hypervisor.disk.vmdk import VMDK

        from mc.builders import vmdk as B

        st = _states5(variant, [HOLE, ZERO, DATA])[:3]
        raw1 = B.build_hosted(st, _perm_slots(st, variant), 8, 512, 3 * 8, layer=lay).tobytes()
        raw2 = pattern.sectors(lay + 1, 0, 13)
        st3 = [DATA, HOLE]
        raw3 = B.build_cowd(st3, [0, None], 8, 2 * 8 - 5, layer=lay + 2).tobytes()
        disk = ConcatDisk([B.model(st, 8, 3 * 8, layer=lay), RawDisk(raw2), B.model(st3, 8, 2 * 8 - 5, layer=lay + 2)])

        def make():
            v = VMDK([_bio(raw1), _bio(raw2), _bio(raw3)])
            return v, v.read_sectors, _noop
        return dict(make=make, disk=disk, unit=4096, sectors=True)
    if cls == "vhdx":
        from dissect.hypervisor.disk.vhdx import VHDX

        from mc.builders import vhdx as B

        st = [DATA, 2, DATA] if variant == 0 else [0, DATA, DATA]
        slots = [1, None, 0] if variant == 0 else [None, 1, 0]
        size = 2 * (1 << 20) + 20 * 1024 - 512
        img = B.build(st, slots, 1 << 20, 512, size, layer=lay)
        disk = B.model(st, 1 << 20, 512, size, layer=lay)

        def make():
            v = VHDX(img.sparse(log=False))
            return v, v.read_sectors, _noop
        return dict(make=make, disk=disk, unit=1 << 20, sectors=True, big=True)
    if cls in ("vhd-fixed", "vhd-dynamic"):
        from dissect.hypervisor.disk.vhd import VHD

        from mc.builders import vhd as B

        if cls == "vhd-fixed":
            nsec = 37 + variant
            raw = B.build_fixed(nsec, 511 if variant else 512, lay).tobytes()
            disk = B.model_fixed(nsec, lay)
        else:
            st = _states5(variant, [HOLE, HOLE, DATA])
            raw = B.build_dynamic(st, _perm_slots(st, variant), 8, (5 * 8 - 3) * 512, 5, "std", 512, lay).tobytes()
            disk = B.model_dynamic(st, 8, (5 * 8 - 3) * 512, lay)

        def make():
            v = VHD(_bio(raw))
            return v, v.disk.read_sectors, _noop
        return dict(make=make, disk=disk, unit=4096, sectors=True)
    if cls == "vdi-child":
        from dissect.hypervisor.disk.vdi import VDI

        from mc.builders import vdi as B

        bst = [DATA, DATA, ZERO, DATA, HOLE]
        tst = _states5(variant, [HOLE, ZERO, DATA])
        braw = B.build(bst, [3, 0, None, 1, None], 4096, 5 * 4096 - 1536, layer=lay + 1).tobytes()
        traw = B.build(tst, _perm_slots(tst, variant), 4096, 5 * 4096 - 1536, layer=lay, image_type=4).tobytes()
        disk = B.model(tst, 4096, 5 * 4096 - 1536, layer=lay, parent=B.model(bst, 4096, 5 * 4096 - 1536, layer=lay + 1))

        def make():
            return VDI(_bio(traw), parent=VDI(_bio(braw))), None, _noop
        return dict(make=make, disk=disk, unit=4096, sectors=False)
    if cls == "hds-child":
        from dissect.hypervisor.disk.hdd import HDS

        from mc.builders import hdd as B

        bst = [DATA, HOLE, DATA, DATA, DATA]
        tst = [HOLE, DATA, HOLE, HOLE, DATA] if variant == 0 else [DATA, HOLE, DATA, HOLE, HOLE]
        # 2 KiB clusters: one aligned buffer read covers allocated and absent clusters of the child in every order
        braw = B.build_hds(bst, [s + 2 if s is not None else None for s in _perm_slots(bst, 0)], 4, 2, 5 * 4 - 1, layer=lay + 1).tobytes()
        traw = B.build_hds(tst, [s + 2 if s is not None else None for s in _perm_slots(tst, variant)], 4, 1, 5 * 4 - 1, layer=lay).tobytes()
        disk = B.model_hds(tst, 4, 5 * 4 - 1, lay, parent=B.model_hds(bst, 4, 5 * 4 - 1, lay + 1))

        def make():
            return HDS(_bio(traw), parent=HDS(_bio(braw))), None, _noop
        return dict(make=make, disk=disk, unit=2048, sectors=False)
    if cls == "vhdx-diff":
        from dissect.hypervisor.disk.vhdx import VHDX

        from mc.builders import vhdx as B

        root = _scratch_root()
        dd = os.path.join(root, f"vhdx-{variant}-{buf}")
        os.makedirs(dd, exist_ok=True)
        spb = 2048
        size = (1 << 20) + 20 * 1024 - 512
        B.build([DATA, DATA], [1, 0], 1 << 20, 512, size, layer=lay + 1, disk_id=b"\x01" * 16).write_to(os.path.join(dd, "base.vhdx"))
        bm = {0: [1 if (s % 11 in (1, 2, 3, 7) and s < 64) or (spb - 9 <= s < spb - 2) else 0 for s in range(spb)],
              1: [1 if s % 5 == variant else 0 for s in range(spb)]}
        B.build([B.PARTIAL, B.PARTIAL], [0, 1], 1 << 20, 512, size, layer=lay,
                parent=[("relative_path", ".\\base.vhdx"), ("absolute_win32_path", "C:\\x\\base.vhdx")], bitmaps=bm,
                disk_id=b"\x02" * 16).write_to(os.path.join(dd, "top.avhdx"))
        bdisk = B.model([DATA, DATA], 1 << 20, 512, size, layer=lay + 1)
        disk = B.model([B.PARTIAL, B.PARTIAL], 1 << 20, 512, size, layer=lay, parent=bdisk, bitmaps=bm)

        def make():
            v = VHDX(Path(dd) / "top.avhdx")

            def closer():
                for x in (v, v.parent):
                    try:
                        x.fh.close()
                    except Exception:
                        pass
            return v, v.read_sectors, closer
        return dict(make=make, disk=disk, unit=1 << 20, sectors=True, big=True)
    if cls == "vdi":
        from dissect.hypervisor.disk.vdi import VDI

        from mc.builders import vdi as B

        st = _states5(variant, [HOLE, ZERO, DATA])
        raw = B.build(st, _perm_slots(st, variant), 4096, 5 * 4096 - 1536, layer=lay).tobytes()
        disk = B.model(st, 4096, 5 * 4096 - 1536, layer=lay)

        def make():
            return VDI(_bio(raw)), None, _noop
        return dict(make=make, disk=disk, unit=4096, sectors=False)
    if cls == "vdi-odd":
        # (handle shards only) 15 blocks of 1536 bytes: block and buffer borders never coincide, the file is longer than any
        # read-ahead window a wrapper may keep
        from dissect.hypervisor.disk.vdi import VDI

        from mc.builders import vdi as B

        st = _states5(variant, [HOLE, ZERO, DATA]) * 3
        st = [DATA if (i % 4) else x for i, x in enumerate(st)]
        raw = B.build(st, _perm_slots(st, variant), 1536, 15 * 1536 - 512, layer=lay).tobytes()
        disk = B.model(st, 1536, 15 * 1536 - 512, layer=lay)

        def make():
            return VDI(_bio(raw)), None, _noop
        return dict(make=make, disk=disk, unit=1536, sectors=False)
    if cls == "hds":
        from dissect.hypervisor.disk.hdd import HDS

        from mc.builders import hdd as B

        st = _states5(variant, [HOLE, HOLE, DATA])
        slots = [s + 1 if s is not None else None for s in _perm_slots(st, variant)]
        raw = B.build_hds(st, slots, 8, 2 - variant, 5 * 8 - 3, layer=lay).tobytes()
        disk = B.model_hds(st, 8, 5 * 8 - 3, lay)

        def make():
            return HDS(_bio(raw)), None, _noop
        return dict(make=make, disk=disk, unit=4096, sectors=False)
    if cls == "hdd-storage":
        from dissect.hypervisor.disk.hdd import HDD

        from mc.builders import hdd as B

        root = _scratch_root()
        hd = os.path.join(root, f"v{variant}-{buf}.hdd")
        os.makedirs(hd, exist_ok=True)
        g = B.DEFAULT_TOP
        st = _states5(variant, [HOLE, HOLE, DATA])[:3]
        slots = [s + 1 if s is not None else None for s in _perm_slots(st, variant)]
        B.build_hds(st, slots, 8, 2, 3 * 8 - 1, layer=lay).write_to(os.path.join(hd, f"d.0.{g}.hds"))
        raw2 = pattern.sectors(lay + 1, 0, 14)
        with open(os.path.join(hd, f"d.1.{g}.hds"), "wb") as f:
            f.write(raw2)
        n0 = 3 * 8 - 1
        with open(os.path.join(hd, "DiskDescriptor.xml"), "w") as f:
            f.write(B.descriptor_xml(n0 + 14, [(n0, n0 + 14, [(g, "Plain", f"d.1.{g}.hds")]),
                                               (0, n0, [(g, "Compressed", f"d.0.{g}.hds")])], [(g, B.NULL_GUID)]))
        disk = ConcatDisk([B.model_hds(st, 8, n0, lay), RawDisk(raw2)])

        def make():
            s = HDD(Path(hd)).open()

            def closer():
                for _, x in s.streams:
                    try:
                        getattr(x, "fh", x).close()
                    except Exception:
                        pass
            return s, None, closer
        return dict(make=make, disk=disk, unit=4096, sectors=False)
    raise ValueError(cls)


_root = None


def _scratch_root():
    global _root
    if _root is None:
        import atexit
        import shutil
        import tempfile

        _root = tempfile.mkdtemp(prefix="verif-c08-", dir="/dev/shm" if os.path.isdir("/dev/shm") else None)
        atexit.register(shutil.rmtree, _root, True)
    return _root


def _noop():
    pass


HANDLE_KINDS = ["file", "unbuffered", "gzip", "bz2", "lzma", "buffered-16", "mmap"]
_handle = {"kind": None, "dir": None, "opened": [], "n": 0}


def _bio(raw):
    """The file object handed to the library: a write-trapping BytesIO, or (handle shards) one of the other kinds of binary
    file object a caller may legitimately supply -- for some of them fileno() names a different byte stream than read()."""
    from mc.vfile import TrapBytesIO

    kind = _handle["kind"]
    if kind is None:
        fh = TrapBytesIO(raw)
        _CUR["bio"] = fh
        return fh
    import bz2
    import gzip
    import io
    import lzma

    _handle["n"] += 1
    path = os.path.join(_handle["dir"], "img%d.bin" % _handle["n"])
    if kind in ("file", "unbuffered"):
        with open(path, "wb") as f:
            f.write(raw)
        fh = open(path, "rb") if kind == "file" else open(path, "rb", buffering=0)
    elif kind == "gzip":
        with gzip.open(path, "wb", compresslevel=1) as f:
            f.write(raw)
        fh = gzip.open(path, "rb")
    elif kind == "bz2":
        with bz2.open(path, "wb", compresslevel=1) as f:
            f.write(raw)
        fh = bz2.open(path, "rb")
    elif kind == "lzma":
        with lzma.open(path, "wb", preset=0) as f:
            f.write(raw)
        fh = lzma.open(path, "rb")
    elif kind == "buffered-16":
        fh = io.BufferedReader(io.BytesIO(raw), buffer_size=16)
    elif kind == "mmap":
        # a read-only memory map of the image file (its seek() returns None before Python 3.13)
        import mmap

        with open(path, "wb") as f:
            f.write(raw)
        with open(path, "rb") as f:
            fh = mmap.mmap(f.fileno(), 0, access=mmap.ACCESS_READ)
    else:
        raise ValueError(kind)
    _handle["opened"].append(fh)
    _CUR["bio"] = fh
    return fh


def _perm_slots(states, variant):
    idx = [i for i, s in enumerate(states) if s in (DATA,)]
    order = idx[::-1] if variant == 0 else idx[1:] + idx[:1]
    slots = [None] * len(states)
    for n, i in enumerate(order):
        slots[i] = n
    return slots


# ---- alphabet ---------------------------------------------------------------------------------------------------------
def alphabet(S, A, unit, sectors, lean=False):
    u = unit if unit < S else (S // 2) // 512 * 512
    P = sorted({0, 1, A - 1, A, A + 1, u - 1, u, max(0, S - A - 1), S - 1, S, S + 1})
    if not lean and unit < S and S // unit <= 6:
        # the start of every unit of the (5-unit) image and a point inside it: histories that leave the cursor mid-unit and
        # continue at the start of whichever unit is stored next to it
        for k in range(1, S // unit + 1):
            P = sorted(set(P) | {k * unit, min(S, k * unit + 700)})
    if lean:
        P = sorted({0, A - 1, u, S - 1, S + 1})
    ops = [("seek", p, 0) for p in P]
    ops += [("seek", d, 1) for d in ((-1, A) if lean else (-1, 1, -A, A))]
    ops += [("seek", d, 2) for d in ((-1, -(A + 1)) if lean else (0, -1, -(A + 1), 1))]
    ops += [("read", n) for n in ((1, A + 1, -1) if lean else (0, 1, A, A + 1, -1, S + 5))]
    ops += [("readinto", n) for n in ((A + 1,) if lean else (1, A + 1))]
    ops += [("peek", n) for n in ((1,) if lean else (1, A + 1))]
    ops += [("readoffset", p, n) for p, n in (((A - 1, 2),) if lean else ((0, 1), (A - 1, 2), (S - 1, 5), (u - 1, 3)))]
    if lean:
        ops.append(("sibling", "keep"))
    if not lean:
        ops.append(("tell",))
        ops.append(("disturb", 4096 + 123, 1000))
        # an I/O error of the underlying handle on its 1st / 2nd / 3rd next read, hitting a large read from the start: the
        # call may raise; after re-positioning, later operations are unaffected by what the failed call left behind
        for k in (1, 2, 3):
            ops.append(("io-fault", k, S + 5))
        # a second, short-lived object over the same handle / parent object is created, used and dropped (garbage collected):
        # the caller's handles and the parent stay open and usable
        ops.append(("sibling",))
        ops.append(("sibling", "keep"))
    if sectors and not lean:
        ops.append(("fail_sectors", 0, 70000))
        # a request that cannot be served (runs far past the end of the disk): whatever it does -- raise or return short --
        # later operations must not be affected by it
        ops.append(("fail_sectors", max(0, S // 512 - 1), 70000))
    if sectors:
        ns = S // 512
        ops += [("read_sectors", s, c) for s, c in ((0, 1), (max(0, u // 512 - 1), 2), (ns - 1, 1))]
    return ops


def _handles(stream):
    """The file objects the caller supplied (the caller owns them and may move them between calls)."""
    out = []
    objs = [stream] + list(getattr(stream, "disks", []) or []) + [getattr(stream, "disk", None)]
    # parent / backing / data-file objects handed to the constructor are the caller's as well (it may read the base image
    # itself, or share it between two children)
    seen = 0
    x = stream
    while x is not None and seen < 4:
        for attr in ("parent", "backing_file", "data_file"):
            y = getattr(x, attr, None)
            if y is not None and y is not getattr(x, "fh", None) and hasattr(y, "seek") and hasattr(y, "read"):
                out.append(y)
                objs.append(y)
        x = getattr(x, "parent", None) or getattr(x, "backing_file", None)
        if not hasattr(x, "seek"):
            break
        seen += 1
    for obj in objs:
        fh = getattr(obj, "fh", None)
        if fh is not None and hasattr(fh, "seek") and not isinstance(fh, (str, bytes)):
            out.append(fh)
    return out


def _apply_impl(stream, reader, op):
    k = op[0]
    if k == "fail_sectors":
        try:
            reader(op[1], op[2])
        except Exception:
            pass
        return None
    if k == "sibling":
        import gc

        sib = None
        try:
            fh = getattr(stream, "fh", None)
            if _CUR.get("single") and _CUR.get("bio") is not None and fh is not None:
                fh = _CUR["bio"]  # the object the caller handed in (the library may have wrapped it)
            cls_ = type(stream)
            name = cls_.__name__
            if fh is not None and hasattr(fh, "seek"):
                fh.seek(0)  # the caller rewinds the handle before handing it to a second object
            if name == "QCow2":
                kw = {}
                if getattr(stream, "backing_file", None) is not None:
                    kw["backing_file"] = stream.backing_file
                if getattr(stream, "data_file", None) is not None and stream.data_file is not fh:
                    kw["data_file"] = stream.data_file
                sib = cls_(fh, **kw)
            elif name in ("HDS", "VDI"):
                sib = cls_(fh, parent=stream.parent) if getattr(stream, "parent", None) is not None else cls_(fh)
            elif name == "VHD":
                sib = cls_(fh)
            elif name == "VMDK" and len(getattr(stream, "disks", [])) == 1 and hasattr(stream.disks[0], "fh") and stream.parent is None:
                sib = cls_(stream.disks[0].fh)
            elif name == "VHDX" and getattr(stream, "parent", None) is None:
                fh.seek(0)
                sib = cls_(fh)
            if sib is not None:
                sib.seek(0)
                sib.read(1)
        except Exception:
            pass
        if len(op) > 1 and op[1] == "keep" and sib is not None:
            # the second object stays alive and reads a little before every later operation of the first one
            _SIBS[id(stream)] = [sib, 0]
            return None
        del sib
        gc.collect()
        return None
    if k == "io-fault":
        hs = [h for h in _handles(stream) if hasattr(h, "fail_after")]
        for h in hs:
            h.fail_after = op[1]
        try:
            stream.seek(0)
            stream.read(op[2])
        except Exception:
            pass
        finally:
            for h in hs:
                h.fail_after = 0
        stream.seek(0)
        return None
    if k == "disturb":
        # the owner of the underlying handle(s) uses them between two calls (e.g. hashes the evidence file)
        for fh in _handles(stream):
            try:
                fh.seek(op[1])
                fh.read(op[2])
            except Exception:
                pass
        return None
    if k == "seek":
        return stream.seek(op[1], op[2])
    if k == "read":
        return stream.read(op[1])
    if k == "peek":
        return stream.peek(op[1])
    if k == "readinto":
        b = bytearray(op[1])
        n = stream.readinto(b)
        return (n, bytes(b[:n]))
    if k == "readoffset":
        return stream.readoffset(op[1], op[2])
    if k == "tell":
        return stream.tell()
    if k == "read_sectors":
        return reader(op[1], op[2])
    raise ValueError(op)


def _apply_model(m, op):
    if op[0] == "io-fault":
        m.apply(("seek", 0, 0))
        return None
    if op[0] in ("disturb", "fail_sectors", "sibling"):
        return None
    if op[0] == "read_sectors":
        return m.disk.content(op[1] * 512, op[2] * 512)
    return m.apply(op)


DATA_OPS = ("read", "readinto", "peek", "readoffset", "read_sectors")


_SIBS = {}
_CUR = {}


def _step(ctx, case, streams, readers, models, op, idx, subject):
    """Execute one operation on instance `idx`, compare with the model.  Returns True when it agrees."""
    ctx.transitions += 1
    exp = _apply_model(models[idx], op)
    live = _SIBS.get(id(streams[idx]))
    if live is not None and op[0] != "sibling":
        try:
            live[1] += 1
            size_ = max(1, models[idx].disk.size)
            for at_ in (max(0, size_ - 800 * live[1]), (live[1] * 5003) % size_, size_ // 2):
                live[0].seek(at_)
                live[0].read(777)
        except Exception:
            pass
    try:
        got = _apply_impl(streams[idx], readers[idx], op)
    except ValueError as e:
        got = ("raises", "ValueError")
        err = e
    except Exception as e:
        got = ("raises", type(e).__name__)
        err = e
    if got != exp:
        detail = {"op": list(op), "instance": idx}
        if isinstance(got, bytes) and isinstance(exp, bytes):
            detail.update(describe_mismatch(got, exp))
        else:
            detail.update({"got": repr(got)[:200], "expected": repr(exp)[:200]})
            if isinstance(got, tuple) and got and got[0] == "raises":
                detail["exception"] = repr(err)[:300]
        ctx.violation(case, {"subject": subject, "kind": "history-dependent-or-wrong", "op": op[0],
                             "raised": got[1] if isinstance(got, tuple) and got and got[0] == "raises" else None}, detail)
        return False
    tell = streams[idx].tell()
    if tell != models[idx].pos:
        ctx.violation(case, {"subject": subject, "kind": "position", "op": op[0]},
                      {"op": list(op), "tell": tell, "expected": models[idx].pos})
        return False
    return True


def run_shard(shard, ctx):
    kind = shard["kind"]
    buf = bootstrap.bufsize()
    cls = shard["cls"]
    if kind == "single":
        im = _image(cls, 0, buf)
        ops = alphabet(im["disk"].size, buf, im["unit"], im["sectors"], shard.get("lean", False))
        i, k = shard["slice"]
        d = shard["depth"]
        seqs = itertools.product(ops, repeat=d) if shard.get("lean") or d == 1 else itertools.chain(
            *[itertools.product(ops, repeat=x) for x in range(1, d + 1)])
        for seq in sliced(seqs, i, k):
            run_case({"kind": "single", "cls": cls, "ops": [list(o) for o in seq]}, ctx)
    elif kind == "debuglog":
        im = _image(cls, 0, buf)
        ops = alphabet(im["disk"].size, buf, im["unit"], im["sectors"], True)
        for seq in itertools.chain(itertools.product(ops, repeat=1), itertools.product(ops, repeat=2)):
            run_case({"kind": "single", "cls": cls, "ops": [list(o) for o in seq], "debuglog": True}, ctx)
    elif kind == "pair":
        ims = [_image(cls, 0, buf), _image(cls, 1, buf)]
        ops = []
        for idx in (0, 1):
            ops += [(idx,) + o for o in alphabet(ims[idx]["disk"].size, buf, ims[idx]["unit"], ims[idx]["sectors"],
                                                 shard.get("lean", False))]
        i, k = shard["slice"]
        for seq in sliced(itertools.product(ops, repeat=shard["depth"]), i, k):
            if len({o[0] for o in seq}) < 2:
                continue  # single-instance sequences are covered by the single tree
            run_case({"kind": "pair", "cls": cls, "ops": [list(o) for o in seq]}, ctx)
    elif kind == "xpair":
        ims = [_image(cls, 0, buf), _image(shard["cls2"], 1, buf)]
        ops = []
        for idx in (0, 1):
            ops += [(idx,) + o for o in alphabet(ims[idx]["disk"].size, buf, ims[idx]["unit"], ims[idx]["sectors"], True)]
        for seq in itertools.product(ops, repeat=shard["depth"]):
            if len({o[0] for o in seq}) < 2:
                continue
            run_case({"kind": "pair", "cls": cls, "cls2": shard["cls2"], "ops": [list(o) for o in seq]}, ctx)
    elif kind == "handles":
        im = _image(cls, 0, buf)
        ops = alphabet(im["disk"].size, buf, im["unit"], im["sectors"], True)
        ops = [o for o in ops if o[0] != "disturb"]
        for seq in itertools.chain(itertools.product(ops, repeat=1), itertools.product(ops, repeat=2)):
            run_case({"kind": "single", "cls": cls, "ops": [list(o) for o in seq], "handle": shard["handle"]}, ctx)
    elif kind == "sweep":
        run_case({"kind": "sweep", "cls": cls, "order": shard["order"], "depth": shard["depth"]}, ctx)


def _debug_logging(on):
    """Every logger of the library at DEBUG (as DISSECT_LOG_* = DEBUG or a logging configuration would set it): what is logged
    never changes what is returned."""
    import logging

    for name in list(logging.root.manager.loggerDict):
        if not name.startswith("dissect"):
            continue
        lg = logging.getLogger(name)
        if on:
            if not hasattr(lg, "_verif_prev"):
                lg._verif_prev = (lg.level, lg.propagate, list(lg.handlers))
            lg.setLevel(logging.DEBUG)
            lg.propagate = False
            lg.handlers = [logging.NullHandler()]
        elif hasattr(lg, "_verif_prev"):
            lg.level, lg.propagate, lg.handlers = lg._verif_prev[0], lg._verif_prev[1], lg._verif_prev[2]
            lg.setLevel(lg._verif_prev[0])
            del lg._verif_prev


def run_case(case, ctx):
    if case.get("debuglog"):
        _debug_logging(True)
        try:
            return _run_case(dict(case, debuglog=False), ctx)
        finally:
            _debug_logging(False)
    return _run_case(case, ctx)


def _run_case(case, ctx):
    buf = bootstrap.bufsize()
    kind = case["kind"]
    if kind == "sweep":
        return _case_sweep(case, ctx, buf)
    cls = case["cls"]
    ops = [tuple(o) for o in case["ops"]]
    ctx.executions += 1
    ctx.states += len(ops)
    if sum(1 for o in ops if (o[1] if kind == "pair" else o[0]) in DATA_OPS) >= 2:
        ctx.nontrivial += 1
    ctx.sample(case)
    if case.get("handle"):
        with scratch_dir() as d:
            _handle.update(kind=case["handle"], dir=d, opened=[], n=0)
            try:
                return _run_ops(case, ctx, buf, kind, cls, ops)
            finally:
                for fh in _handle["opened"]:
                    try:
                        fh.close()
                    except Exception:
                        pass
                _handle.update(kind=None, dir=None, opened=[])
    return _run_ops(case, ctx, buf, kind, cls, ops)


class _Refused(Exception):
    pass


def _make(ctx, im, cls):
    """Open the (well-formed) image of a class.  A tree that refuses it has a problem that belongs to the format's own read
    property, not to this one: the case is skipped and counted (the vacuity guard of the engine notices when nothing is left)."""
    try:
        return im["make"]()
    except Exception as e:
        hk = _handle["kind"]
        if hk is not None:
            # differential: the very same bytes are accepted through an in-memory handle, so the refusal is about the kind of
            # file object, not about the image
            _handle["kind"] = None
            try:
                im["make"]()
                plain_ok = True
            except Exception:
                plain_ok = False
            finally:
                _handle["kind"] = hk
            if plain_ok:
                ctx.violation({"kind": "single", "cls": cls, "ops": [], "handle": hk},
                              {"subject": cls + ".open", "kind": "refused-through-this-kind-of-handle", "handle": hk,
                               "exc": type(e).__name__}, {"exception": repr(e)[:300]})
        ctx.extra[f"well-formed-image-refused:{cls}:{type(e).__name__}"] += 1
        raise _Refused() from e


def _run_ops(case, ctx, buf, kind, cls, ops):
    try:
        return _run_ops2(case, ctx, buf, kind, cls, ops)
    except _Refused:
        return None


def _run_ops2(case, ctx, buf, kind, cls, ops):
    _SIBS.clear()
    _CUR.clear()
    _CUR["single"] = kind == "single"
    with ctx.watch(case):
        if kind == "single":
            im = _image(cls, 0, buf)
            s, r, closer = _make(ctx, im, cls)
            streams, readers, models = [s], [r], [StreamModel(im["disk"])]
            closers = [closer]
            if not im.get("big"):
                im["disk"].materialize()
        else:
            ims = [_image(cls, 0, buf), _image(case.get("cls2", cls), 1, buf)]
            made = [_make(ctx, im, cls) for im in ims]
            streams = [m[0] for m in made]
            readers = [m[1] for m in made]
            closers = [m[2] for m in made]
            models = [StreamModel(im["disk"]) for im in ims]
            for im in ims:
                if not im.get("big"):
                    im["disk"].materialize()
        try:
            for o in ops:
                idx = 0
                if kind == "pair":
                    idx, o = o[0], o[1:]
                if not _step(ctx, case, streams, readers, models, o, idx, f"{cls}.{kind}" + (".handle-" + case["handle"] if case.get("handle") else "")):
                    return
            ctx.outcome("ok")
        finally:
            for c in closers:
                c()


# ---- cache sweeps --------------------------------------------------------------------------------------------------------
def _sweep_image(cls, buf):
    key = ("sweep", cls)
    if key in _cache:
        return _cache[key]
    if cls == "qcow2":
        from dissect.hypervisor.disk.qcow2 import QCow2

        from mc.builders import qcow2 as B

        ntab, per = 132, 64  # 512-byte clusters: 64 entries per L2 table
        st = ["U"] * (ntab * per)
        slots = [None] * (ntab * per)
        for t in range(ntab):
            st[t * per + (t % 3)] = "N"
            slots[t * per + (t % 3)] = (t * 7) % ntab
        size = ntab * per * 512 - 100
        img = B.build(st, slots, 9, 3, size)[0]
        raw = img.tobytes()
        disk = B.model(st, 9, size)
        tables = [t * per * 512 for t in range(ntab)]

        def make():
            return QCow2(_bio(raw)), None
        r = dict(make=make, disk=disk, tables=tables, unit=512, sectors=False)
    elif cls == "vmdk-sparse":
        from dissect.hypervisor.disk.vmdk import VMDK

        from mc.builders import vmdk as B

        ntab, per = 132, 512
        st = [HOLE] * (ntab * per)
        slots = [None] * (ntab * per)
        for t in range(ntab):
            st[t * per + (t % 5)] = DATA
            slots[t * per + (t % 5)] = (t * 7) % ntab
        cap = ntab * per * 8 - 3
        img = B.build_hosted(st, slots, 8, 512, cap)
        disk = B.model(st, 8, cap)
        tables = [t * per * 4096 for t in range(ntab)]

        def make():
            v = VMDK(img.sparse(log=False))
            return v, v.read_sectors
        r = dict(make=make, disk=disk, tables=tables, unit=4096, sectors=True, big=True)
    elif cls == "vhd-dynamic":
        from dissect.hypervisor.disk.vhd import VHD

        from mc.builders import vhd as B

        n = 4200
        st = [HOLE] * n
        slots = [None] * n
        k = 0
        for b in range(0, n, 50):
            st[b] = DATA
            slots[b] = (k * 5) % 84
            k += 1
        img = B.build_dynamic(st, slots, 8, (n * 8 - 3) * 512, n)
        raw = img.tobytes()
        disk = B.model_dynamic(st, 8, (n * 8 - 3) * 512)
        tables = [b * 4096 for b in range(n)]

        def make():
            v = VHD(_bio(raw))
            return v, v.disk.read_sectors
        r = dict(make=make, disk=disk, tables=tables, unit=4096, sectors=True, big=True)
    elif cls == "vhdx":
        from dissect.hypervisor.disk.vhdx import VHDX

        from mc.builders import vhdx as B

        n = 4200
        st = [0] * n
        slots = [None] * n
        k = 0
        for b in range(0, n, 100):
            st[b] = DATA
            slots[b] = (k * 5) % 42
            k += 1
        size = n * (1 << 20) - 512 * 3
        img = B.build(st, slots, 1 << 20, 512, size)
        disk = B.model(st, 1 << 20, 512, size)
        tables = [b << 20 for b in range(n)]

        def make():
            v = VHDX(img.sparse(log=False))
            return v, v.read_sectors
        r = dict(make=make, disk=disk, tables=tables, unit=1 << 20, sectors=True, big=True)
    else:
        raise ValueError(cls)
    _cache[key] = r
    return r


def _case_sweep(case, ctx, buf):
    cls, order, depth = case["cls"], case["order"], case["depth"]
    im = _sweep_image(cls, buf)
    tabs = im["tables"]
    if order == "desc":
        seq = tabs[::-1]
    elif order == "stride":
        seq = tabs[::3] + tabs[1::3] + tabs[2::3]
    else:
        seq = list(tabs)
    seq = seq + [tabs[0], tabs[-1], tabs[0]]
    S = im["disk"].size
    ctx.executions += 1
    ctx.sample(case)
    stop_at = case.get("stop_at")
    with ctx.watch(case, 300):
        try:
            stream, reader = im["make"]()
        except Exception as e:
            ctx.extra[f"well-formed-image-refused:{cls}:{type(e).__name__}"] += 1  # see _make
            return
        model = StreamModel(im["disk"])
        n = 0
        # sweep prefix: one short read in the region of every table (drives the LRU caches to full / evicting)
        for off in seq:
            for op in (("seek", off, 0), ("read", 700)):
                n += 1
                ctx.states += 1
                if not _step(ctx, dict(case, stop_at=n), [stream], [reader], [model], op, 0, f"{cls}.sweep.{order}"):
                    return
                if stop_at and n >= stop_at:
                    return
        ctx.nontrivial += 1
        # exhaustive suffix tree on the swept object: positions around the first (evicted) and the last table
        A = buf
        P = sorted({0, 1, tabs[1] - 1, tabs[1], tabs[-1], tabs[-1] + 1, S - 1, S})
        ops = [("seek", p, 0) for p in P] + [("seek", -1, 1), ("seek", -(A + 1), 2), ("read", 1), ("read", A + 1),
                                            ("peek", 513), ("readoffset", tabs[0], 600), ("readoffset", tabs[2], 600),
                                            ("readoffset", tabs[-2], 600)]
        if im["sectors"]:
            ops += [("read_sectors", 0, 1), ("read_sectors", tabs[-1] // 512, 1), ("read_sectors", tabs[1] // 512, 2)]
        for sfx in itertools.chain(*[itertools.product(ops, repeat=x) for x in range(1, depth + 1)]):
            if sum(1 for o in sfx if o[0] in DATA_OPS) >= 1:
                ctx.nontrivial += 1
            for op in sfx:
                n += 1
                ctx.states += 1
                if not _step(ctx, dict(case, stop_at=n), [stream], [reader], [model], op, 0, f"{cls}.sweep.{order}.suffix"):
                    return
                if stop_at and n >= stop_at:
                    return
        ctx.outcome("ok")
