"""C03 -- VHDX (fixed / dynamic) read correctness.   Shape A (input-space product) over virtual sparse files."""
from __future__ import annotations

import itertools

from mc import bootstrap
from mc.builders import vhdx as B
from mc.diskcheck import recheck_after_failure, compare_reads, compare_sector_reads, sliced, window_models
from mc.models import DATA, boundaries, request_pairs

PROPERTY = "C03"
LEVEL = "model_checking"
TECHNIQUE = "explicit-state bounded-exhaustive exploration of the real reader against a reference disk model"
RULE = ("block size x logical sector size x virtual-size form x header sequence pair x region order/placement x every "
        "assignment of BAT states {0 not present,1 undefined,2 zero,3 unmapped,6 fully present} to a W-block window x "
        "every injective placement of the present blocks into W+1 MiB-aligned slots x window position (at block 0, and "
        "around the first interleaved sector-bitmap BAT entry of a disk of chunk_ratio+2 blocks) x every boundary "
        "request via seek/read and read_sectors. non-trivial = request touching >= 2 blocks that differ in state or are "
        "not stored adjacently ascending")
ASSUMPTIONS = [
    "VHDX layout per [MS-VHDX] as transcribed in mc/builders/vhdx.py (GUIDs, BAT bit layout, chunk ratio, CRC-32C); the "
    "transcription decodes all three repository fixtures",
    "block sizes are powers of two between 1 MiB and 256 MiB, logical sector size 512 or 4096",
    "payload lives in a virtual sparse file (pattern generated on demand); requests longer than a few buffers are a fixed "
    "set of whole-/multi-block reads because cost follows bytes returned",
]
ALPHABET = "block state {0,1,2,3,D(slot)}; block size; sector size; size cut; window position; seqs; region layout"
BOUND = {"quick": "W=3 (one geometry W=4), buffers {512|4096, 8192}", "thorough": "W=4, block sizes up to 256 MiB, 4 buffers"}
EXPECT_OUTCOMES = ["data@L1", "zero@L1", "zero-below-base", "data@L1+zero@L1", "data@L1+zero-below-base"]
MB = 1 << 20
ALPHA = [B.NOT_PRESENT, B.UNDEFINED, B.ZERO_ST, B.UNMAPPED, DATA]
ALPHA_SMALL = [B.NOT_PRESENT, B.ZERO_ST, DATA]


def _extra_items(where):
    import struct

    if not where:
        return None
    return [(where, bytes(range(0x40, 0x50)), b"user-note: not a system item", 1),           # unknown GUID, IsUser
            (where, bytes(range(0x60, 0x70)), b"\x01\x02\x03\x04", 2),                      # unknown GUID, system, optional
            (where, B.VIRTUAL_DISK_SIZE, struct.pack("<Q", 7 * MB), 1),                       # user item with a system GUID
            (where, B.LOGICAL_SECTOR_SIZE, struct.pack("<I", 4096), 3),
            (where, B.FILE_PARAMETERS, struct.pack("<II", 32 * MB, 0), 1)]


def _geoms(tier):
    q = [
        dict(bs=MB, sec=512, W=3, cut=0, at=0, total=None, seqs=[7, 6], regions=["meta", "bat"], meta_mb=2, bat_mb=3),
        dict(bs=MB, sec=4096, W=3, cut=4096, at=0, total=None, seqs=[6, 7], regions=["bat", "meta"], meta_mb=3, bat_mb=2),
        dict(bs=2 * MB, sec=512, W=3, cut=MB, at=0, total=None, seqs=[1, 2], regions=["meta", "bat"], meta_mb=5, bat_mb=1),
        dict(bs=MB, sec=512, W=4, cut=512, at=0, total=None, seqs=[2, 1], regions=["meta", "bat"], meta_mb=2, bat_mb=3,
             alpha="small"),
        dict(bs=256 * MB, sec=512, W=3, cut=0, at=15, total=18, seqs=[7, 6], regions=["meta", "bat"], meta_mb=2, bat_mb=3,
             alpha="small"),
        dict(bs=MB, sec=512, W=3, cut=512 * 3, at=4095, total=4098, seqs=[7, 6], regions=["meta", "bat"], meta_mb=2,
             bat_mb=3, alpha="small"),
    ]
    q.append(dict(bs=MB, sec=512, W=3, cut=0, at=0, total=None, seqs=[7, 6], regions=["meta", "bat"], meta_mb=2, bat_mb=3,
                  alpha="small", bigbuf=True))
    # 4096-byte sectors on a disk larger than 4 GiB: block 2^32/block_size and beyond (chunk ratio depends on the sector size)
    q.append(dict(bs=32 * MB, sec=4096, W=3, cut=4096 * 3, at=127, total=131, seqs=[7, 6], regions=["meta", "bat"], meta_mb=2,
                  bat_mb=3, alpha="small"))
    # "fixed" VHDX: LeaveBlockAllocated set, blocks still placed / stated arbitrarily (the flag does not change how to read)
    q.append(dict(bs=MB, sec=512, W=3, cut=512, at=0, total=None, seqs=[7, 6], regions=["meta", "bat"], meta_mb=2, bat_mb=3,
                  leave=True))
    # blocks without data whose BAT entries still carry a file offset (reserved / stale after a trim), pointing directly behind
    # the previous block's data
    q.append(dict(bs=MB, sec=512, W=3, cut=512, at=0, total=None, seqs=[7, 6], regions=["meta", "bat"], meta_mb=2, bat_mb=3,
                  stale=True))
    # 4096-byte sectors, size an exact multiple of the block size (the last sector is the last sector of the last block)
    q.append(dict(bs=MB, sec=4096, W=3, cut=0, at=0, total=None, seqs=[7, 6], regions=["meta", "bat"], meta_mb=2, bat_mb=3,
                  alpha="small"))
    # metadata items a reader does not know (optional: ignored) and user items that reuse a system item's GUID (another name
    # space: an item is identified by (ItemId, IsUser)), in front of and behind the system items
    for where in ("first", "last"):
        q.append(dict(bs=MB, sec=512, W=3, cut=512, at=0, total=None, seqs=[7, 6], regions=["meta", "bat"], meta_mb=2, bat_mb=3,
                      alpha="small", extra_items=where))
    # BAT entries beyond index 65536 (a 64 GiB disk of 1 MiB blocks)
    q.append(dict(bs=MB, sec=512, W=3, cut=512 * 7, at=65534, total=65538, seqs=[7, 6], regions=["meta", "bat"], meta_mb=2, bat_mb=3,
                  alpha="small"))
    # a BAT that fills its region to the last byte: 131041 payload entries + 31 interleaved bitmap entries = 131072 entries = 1 MiB
    # (and 2 MiB: 262080 + 63 for 1 MiB blocks with 4096-byte sectors ... ratio 2^23 * 4096 / 1 MiB = 32768: 262137 + 7)
    q.append(dict(bs=MB, sec=512, W=3, cut=512 * 3, at=131038, total=131041, seqs=[7, 6], regions=["meta", "bat"], meta_mb=2, bat_mb=3,
                  alpha="small"))
    q.append(dict(bs=MB, sec=4096, W=3, cut=0, at=262134, total=262137, seqs=[7, 6], regions=["meta", "bat"], meta_mb=2, bat_mb=3,
                  alpha="small"))
    # payload starting directly behind the 1 MiB header section, metadata region and BAT behind the payload
    q.append(dict(bs=MB, sec=512, W=3, cut=512, at=0, total=None, seqs=[7, 6], regions=["meta", "bat"], meta_mb=8, bat_mb=9,
                  base_mb=1, alpha="small"))
    # one request over more than 128 MiB of a single absent 256 MiB block
    q.append(dict(bs=256 * MB, sec=512, W=3, cut=0, at=0, total=None, seqs=[7, 6], regions=["meta", "bat"], meta_mb=2, bat_mb=3,
                  alpha="small", longrun=True))
    # hundreds of back-to-back sequential requests (starting off a block multiple, fixed and varying sizes) over present blocks
    # that are not stored in guest order, then the same ranges again at random
    q.append(dict(bs=MB, sec=512, W=4, cut=0, at=0, total=None, seqs=[7, 6], regions=["meta", "bat"], meta_mb=2, bat_mb=3,
                  alpha="small", longrun=True, walk=True))
    # single requests of 66 .. 128 MiB out of present 128 MiB blocks that are not stored in guest order
    q.append(dict(bs=128 * MB, sec=512, W=3, cut=0, at=0, total=None, seqs=[7, 6], regions=["meta", "bat"], meta_mb=2, bat_mb=3,
                  alpha="small", longrun=True, longdata=True))
    if tier == "quick":
        return q
    t = []
    for g in q:
        g = dict(g)
        if not g.get("bigbuf"):
            g.pop("alpha", None)
        if g["at"] == 0:
            g["W"] = 4
        t.append(g)
    t += [
        dict(bs=8 * MB, sec=512, W=4, cut=512, at=0, total=None, seqs=[7, 6], regions=["meta", "bat"], meta_mb=2, bat_mb=3),
        dict(bs=32 * MB, sec=4096, W=3, cut=4096 * 5, at=1023, total=1026, seqs=[7, 6], regions=["meta", "bat"], meta_mb=2,
             bat_mb=3),
        dict(bs=32 * MB, sec=512, W=3, cut=0, at=127, total=130, seqs=[7, 6], regions=["bat", "meta"], meta_mb=3, bat_mb=2),
        dict(bs=256 * MB, sec=4096, W=3, cut=0, at=127, total=130, seqs=[6, 7], regions=["meta", "bat"], meta_mb=2,
             bat_mb=3),
        dict(bs=2 * MB, sec=4096, W=4, cut=MB + 4096, at=0, total=None, seqs=[7, 6], regions=["meta", "bat"], meta_mb=2,
             bat_mb=3),
    ]
    return t


SLICES = {"quick": 6, "thorough": 16}


def _bufs(tier, g):
    base = [g["sec"], 8192] if tier == "quick" else [g["sec"], 3 * g["sec"], 8192]
    if tier != "quick" and g["W"] <= 3:
        base += [65536, 1 << 20]  # large buffers cost ~1 ms per request (every fill reads a whole buffer): 3-block windows only
    if g.get("longrun"):
        return [8192]
    if g.get("bigbuf"):
        return [2 * g["bs"]]  # a buffer larger than a block: the aligned over-read leaves the last block
    if g["sec"] == 4096 and g["bs"] == MB:
        base.append(512)  # a stream alignment below the logical sector size: reads start inside a sector
    return sorted({b for b in base if b % g["sec"] == 0 or b == 512})


def shards(tier):
    out = []
    for g in _geoms(tier):
        for buf in _bufs(tier, g):
            k = SLICES[tier] * (4 if g["W"] >= 4 else 1)
            for i in range(k):
                out.append({"buf": buf, "geom": g, "slice": [i, k]})
    return out


def _requests(g, size, buf):
    bs, sec, at, W = g["bs"], g["sec"], g["at"], g["W"]
    lo = max(0, (at - 1) * bs)
    hi = min(size, (at + W) * bs)
    if g.get("longdata"):
        return ([(MB, 128 * MB), (bs - 4096, 66 * MB), (4096, 70 * MB), (bs + 512, 100 * MB + 512)],
                [(2048, (128 * MB) // sec), ((bs - MB) // sec, (65 * MB) // sec + 3)])
    if g.get("longrun"):
        return ([(0, 2 * bs + 4096), (bs - (200 << 20), 201 << 20), (4096, 130 << 20), (bs - 512, 1024), (bs + 512, bs + 1024)],
                [(0, (2 * bs + 8192) // sec), (8, (140 << 20) // sec)])
    if g.get("bigbuf"):
        pts = [0, 1, bs - sec, bs, bs + 1, 2 * bs - 1, 2 * bs, 2 * bs + sec, size - bs, size - 1, size, size + 1]
        reqs = request_pairs(sorted(set(p for p in pts if p >= 0)))
        return reqs, [(0, 1), (bs // sec - 1, 2), (2 * bs // sec - 1, 2), (size // sec - 1, 1)]
    pts = boundaries(size, bs, buf, lo, hi, sec)
    reqs = request_pairs(pts, 2 * buf + 2 * sec)
    if bs <= 2 * MB:
        b0 = at * bs
        reqs += [(b0, bs), (b0, 2 * bs), (b0 + bs // 2, bs), (b0 + bs - sec, bs + 2 * sec), (b0 + bs + sec, 2 * bs - sec)]
        if g["total"] is None:
            reqs += [(0, size), (1, size - 2)]
    spts = sorted({p // sec for p in pts if p <= size})
    sreqs = request_pairs(spts, (2 * buf) // sec + 2)
    if bs <= 2 * MB:
        spb = bs // sec
        s0 = at * spb
        sreqs += [(s0, spb), (s0 + spb // 2, spb), (s0 + spb - 1, spb + 2), (s0, 2 * spb)]
    sreqs = [(s, c) for s, c in sreqs if (s + c) * sec <= (size + sec - 1) // sec * sec]
    return reqs, sreqs


def run_shard(shard, ctx):
    g = shard["geom"]
    i, k = shard["slice"]
    W = g["W"]
    alpha = ALPHA_SMALL if g.get("alpha") == "small" else ALPHA
    if g.get("walk"):
        import itertools

        walks = []
        for start, sizes in ((40 << 10, [8192]), (0x33000, [4096, 12288, 8192, 512]), (512 * 3, [24 * 512]), (0, [65536 + 512])):
            pos, reqs, j = start, [], 0
            while pos + sizes[j % len(sizes)] <= 4 * MB and len(reqs) < 420:
                reqs.append([pos, sizes[j % len(sizes)]])
                pos += sizes[j % len(sizes)]
                j += 1
            walks.append(reqs + [reqs[(k * 37) % len(reqs)] for k in range(40)])
        for n, (slots, reqs) in enumerate(itertools.product(([2, 0, 3, 1], [3, 2, 1, 0]), walks)):
            if n % k == i:
                sre = [[a // 512, max(1, c // 512)] for a, c in reqs]
                run_case({"geom": g, "states": [DATA] * 4, "slots": slots, "requests": reqs, "sector_requests": sre}, ctx)
        return
    if g.get("longdata"):
        for n, slots in enumerate(([0, 2, 1], [1, 0, 2], [2, 1, 0], [2, 0, 1])):
            if n % k == i:
                run_case({"geom": g, "states": [DATA, DATA, DATA], "slots": slots}, ctx)
        return
    if g.get("longrun"):
        # two absent 256 MiB blocks in every combination of {not present, zero}, then one present block
        import itertools

        for n, (a, b) in enumerate(itertools.product([B.NOT_PRESENT, B.ZERO_ST, B.UNMAPPED], repeat=2)):
            if n % k == i:
                run_case({"geom": g, "states": [a, b, DATA], "slots": [None, None, 0]}, ctx)
        return
    for states, slots in sliced(window_models(alpha, W, W + 1), i, k):
        run_case({"geom": g, "states": states, "slots": slots}, ctx)


def run_case(case, ctx):
    from dissect.hypervisor.disk.vhdx import VHDX

    g = case["geom"]
    states, slots = case["states"], case["slots"]
    bs, sec, at = g["bs"], g["sec"], g["at"]
    total = g["total"] or len(states)
    size = total * bs - g["cut"]
    buf = bootstrap.bufsize()
    img = B.build(states, slots, bs, sec, size, seqs=tuple(g["seqs"]), regions=tuple(g["regions"]), meta_mb=g["meta_mb"],
                  bat_mb=g["bat_mb"], base_mb=g.get("base_mb"), total_blocks=total, window_at=at, leave_allocated=bool(g.get("leave")),
                  stale_offsets=bool(g.get("stale")), extra_items=_extra_items(g.get("extra_items")))
    disk = B.model(states, bs, sec, size, total_blocks=total, window_at=at)
    ctx.model([g, states, slots])
    ctx.executions += 1
    ctx.sample(case)
    if "requests" in case or "sector_requests" in case:
        reqs = [tuple(r) for r in case.get("requests", [])]
        sreqs = [tuple(r) for r in case.get("sector_requests", [])]
    else:
        reqs, sreqs = _requests(g, size, buf)
    full_states = [B.NOT_PRESENT] * at + list(states) + [B.NOT_PRESENT] * (total - at - len(states))
    full_slots = [None] * at + list(slots) + [None] * (total - at - len(states))
    srcs = [disk.source(u * bs) for u in range(total)] if total <= 64 else None
    with ctx.watch(case):
        fh = img.sparse(log=False)
        try:
            v = VHDX(fh)
        except Exception as e:
            ctx.violation(case, {"subject": "vhdx.open", "kind": "exception", "exc": type(e).__name__},
                          {"exception": repr(e)[:300]})
            return
        if v.size != size:
            ctx.violation(case, {"subject": "vhdx.size", "kind": "mismatch"}, {"got": v.size, "expected": size})
            return
        if srcs is None:
            for st in states:
                ctx.outcome(disk.source((at + states.index(st)) * bs))
        compare_reads(ctx, case, v, disk, reqs, "vhdx.read", full_states, full_slots, bs, srcs)
        compare_sector_reads(ctx, case, v.read_sectors, disk, sreqs, "vhdx.read_sectors", sec, full_states, full_slots, bs)
        if not ctx.violations and bs <= 2 * MB and not g.get("bigbuf"):
            recheck_after_failure(ctx, case, v.read_sectors, v, disk, sreqs, reqs, "vhdx", sec)
