"""C11 -- termination and bounded resources on arbitrary input.   Fault enumeration under a step meter, a memory meter and a watchdog."""
from __future__ import annotations

import io
import itertools
import os
import struct
import tracemalloc
import zlib
from pathlib import Path

from mc import monitors, pattern
from mc.engine import Timeout
from mc.models import DATA, HOLE, ZERO
from mc.scratch import scratch_dir

PROPERTY = "C11"
LEVEL = "fault_enumeration"
TECHNIQUE = "exhaustive single-fault enumeration over field maps, truncation points, alias / cycle / bomb inputs under deterministic step and memory meters"
RULE = ("for every seed (one minimal valid input per structural variant of every parser) x every field of its field map x fault "
        "value {0, 1, 2, max, max-1, value+-1, 2*value, own offset, offset of each other structure}; every truncation at each "
        "field boundary and at every 16th byte of the first KiB; every table entry replaced by every other entry's value; "
        "explicit cycles (Parallels shot parents of length 1-3, Hyper-V object tables naming themselves / each other, QCOW2 "
        "L1->L2 pointing at the L1 table or header, snapshot table self-reference); deflate bombs in a QCOW2 compressed cluster "
        "and a VMDK compressed grain; invalid extended-L2 bitmaps. Driver: open + bounded reads / as_dict / extract. Oracle: "
        "returns or raises an Exception within the step and memory budgets, no MemoryError, no watchdog. non-trivial = faulted "
        "execution (every execution except the baselines)")
ASSUMPTIONS = [
    "'all byte strings' is replaced by this structured single-fault space (thorough: pairs within one structure for the small seeds)",
    "step = backward jump or function entry in code under dissect/ (sys.monitoring); budget = 20 x the un-faulted seed's steps + "
    "1024 x (input sectors + request sectors) + 20000 (two steps per input byte: cstruct's own parsing loops are counted too); memory budget = 32 MiB + 16 x (input + request bytes) of traced peak",
    "time spent inside C extensions (zlib, hashlib) is bounded only by the watchdog and the memory meter; the one exception is "
    "the tiny-unit-large-read family, which compares the processor time of a request with that of its first quarter (reported "
    "only when the request needs more than 6 s and more than 7 x its quarter: the unchanged library needs under a second)",
]
ALPHABET = "seed x field x fault value; truncation point; alias pair; cycle; bomb"
BOUND = {"quick": "single faults on ~40 seeds", "thorough": "adds fault pairs within the header of each seed"}
EXPECT_OUTCOMES = ["returned", "raised"]
A = 8192


# ---- drivers ---------------------------------------------------------------------------------------------------------------
def _drive_stream(stream, reader=None, sector=512):
    S = stream.size
    out = 0
    if not isinstance(S, int) or S < 0 or S > (1 << 44):
        stream.seek(0)
        out += len(stream.read(A))
        return out
    # a request that raises is not the end of the object's life: the remaining requests are still made (each returns or raises in
    # its turn -- none waits for something the failed one left behind), the first exception is what the execution reports
    first = None
    for pos in (0, max(0, (S // 2) // 4096 * 4096 - 512), max(0, S - A - 600), max(0, S - 1)):
        try:
            stream.seek(pos)
            out += len(stream.read(A))
        except Exception as e:
            first = first or e
    if reader is not None:
        ns = S // sector
        for s in (0, ns // 2, max(0, ns - 1)):
            try:
                out += len(reader(s, min(16, max(1, ns - s))))
            except Exception as e:
                first = first or e
    if first is not None:
        raise first
    return out


def drv_qcow2(raw, **kw):
    from dissect.hypervisor.disk import qcow2 as Q

    kwargs = {}
    if kw.get("backing"):
        kwargs["backing_file"] = Q.ALLOW_NO_BACKING_FILE
    if kw.get("data"):
        kwargs["data_file"] = io.BytesIO(kw["data"])
    q = Q.QCow2(io.BytesIO(raw), **kwargs)
    n = _drive_stream(q)
    for s in q.snapshots[:4]:
        v = s.open()
        v.seek(0)
        n += len(v.read(A))
    return n


def drv_vmdk(raw):
    from dissect.hypervisor.disk.vmdk import VMDK

    v = VMDK(io.BytesIO(raw))
    return _drive_stream(v, v.read_sectors)


def drv_vhdx(raw):
    from dissect.hypervisor.disk.vhdx import VHDX

    v = VHDX(io.BytesIO(raw))
    return _drive_stream(v, v.read_sectors, v.sector_size if isinstance(v.sector_size, int) and v.sector_size else 512)


def drv_vhd(raw):
    from dissect.hypervisor.disk.vhd import VHD

    v = VHD(io.BytesIO(raw))
    return _drive_stream(v, v.disk.read_sectors)


def drv_vdi(raw):
    from dissect.hypervisor.disk.vdi import VDI

    return _drive_stream(VDI(io.BytesIO(raw)))


def drv_hds(raw):
    from dissect.hypervisor.disk.hdd import HDS

    return _drive_stream(HDS(io.BytesIO(raw)))


def drv_hyperv(raw):
    from dissect.hypervisor.descriptor.hyperv import HyperVFile

    return len(repr(HyperVFile(io.BytesIO(raw)).as_dict()))


def drv_vmtar(raw):
    from dissect.hypervisor.util import vmtar

    t = vmtar.open(fileobj=io.BytesIO(raw))
    n = 0
    for m in t.getmembers():
        if m.isreg():
            f = t.extractfile(m)
            n += len(f.read(1 << 20)) if f else 0
    return n


def drv_envelope(raw, key=None):
    from dissect.hypervisor.util.envelope import Envelope

    return len(Envelope(io.BytesIO(raw)).decrypt(key))


def drv_keystore(raw):
    from dissect.hypervisor.util.envelope import KeyStore

    return len(KeyStore.from_text(raw.decode("utf-8", "replace")).key)


def drv_vmx(raw):
    from dissect.hypervisor.descriptor.vmx import VMX

    v = VMX.parse(raw.decode("utf-8", "replace"))
    if v.encrypted:
        v.unlock_with_phrase("pw")
    return len(v.disks())


def drv_hdd_dir(files):
    """files: {relative path: bytes} of a .hdd directory"""
    from dissect.hypervisor.disk.hdd import HDD

    with scratch_dir() as d:
        hd = os.path.join(d, "x.hdd")
        os.mkdir(hd)
        for fn, data in files.items():
            with open(os.path.join(hd, fn), "wb") as f:
                f.write(data)
        s = HDD(Path(hd)).open()
        try:
            return _drive_stream(s)
        finally:
            for _, x in getattr(s, "streams", []):
                while x is not None:
                    try:
                        getattr(x, "fh", x).close()
                    except Exception:
                        pass
                    x = getattr(x, "parent", None)


# ---- seeds -------------------------------------------------------------------------------------------------------------------
def _seeds():
    from mc.builders import envelope as BE
    from mc.builders import hdd as BH
    from mc.builders import hyperv as BHV
    from mc.builders import qcow2 as BQ
    from mc.builders import vdi as BV
    from mc.builders import vhd as BVHD
    from mc.builders import vhdx as BX
    from mc.builders import vmdk as BM
    from mc.builders import vmtar as BT
    from mc.builders import vmxenc as BVX

    out = []

    def add(name, img, drv, **kw):
        raw = img.tobytes() if hasattr(img, "tobytes") else img
        fields = list(getattr(img, "fields", []))
        out.append(dict(name=name, raw=raw, fields=fields, drv=drv, kw=kw))

    st3, sl3 = ["N", "C", "Z"], [1, None, None]
    add("qcow2.std", BQ.build(st3, sl3, 9, 3)[0], drv_qcow2)
    add("qcow2.v2", BQ.build(["N", "U", "C"], [0, None, None], 12, 2)[0], drv_qcow2)
    # the window straddles an L2-table boundary and the disk ends at the end of the second table's first clusters:
    # the driver's reads at the middle and the end touch the last slot of an L2 table
    add("qcow2.l2-boundary", BQ.build(["N", "C", "N", "Z"], [1, None, 0, None], 9, 3, None, 62, 66)[0], drv_qcow2)
    add("qcow2.extl2", BQ.build([{"kind": "N", "sub": ["a", "u", "z"] * 10 + ["a", "a"]}, {"kind": "U", "sub": ["u"] * 31 + ["z"]}],
                                [1, None], 14, 3, ext=True)[0], drv_qcow2)
    add("qcow2.backing", BQ.build(["N", "U"], [0, None], 12, 3, backing_name="b.img", backing_format="raw")[0], drv_qcow2, backing=True)
    snap = {"states": ["N", "U", "N"], "slots": [2, None, 3], "layer": 2}
    add("qcow2.snapshots", BQ.build(st3, sl3, 9, 3, snapshots=[snap, dict(snap, slots=[4, None, 5], id="22", name="second")])[0],
        drv_qcow2)
    states, slots = [DATA, HOLE, ZERO, DATA], [1, None, None, 0]
    add("vmdk.hosted", BM.build_hosted(states, slots, 8, 512, 31), drv_vmdk)
    add("vmdk.stream", BM.build_hosted([DATA, HOLE, ZERO, BM.CDATA], slots, 8, 512, 32, footer=True, compressed=True, stride=10),
        drv_vmdk)
    add("vmdk.cowd", BM.build_cowd([DATA, HOLE, DATA], [1, None, 0], 8, 23), drv_vmdk)
    add("vmdk.sesparse", BM.build_sesparse([DATA, ZERO, BM.FALL, DATA], slots, 8, 64, 32), drv_vmdk)
    add("vmdk.embedded_descriptor",
        BM.build_hosted(states, slots, 8, 512, 32,
                        descriptor=BM.descriptor_text("monolithicSparse", [("RW", 32, "SPARSE", "x.vmdk", None)])), drv_vmdk)
    # VHDX: keep the seed small enough to materialise: block data is not needed for the faults of interest
    vx = BX.build([DATA, 0, 2], [0, None, None], base_mb=4)
    raw = bytearray(5 << 20)
    for off, kind, pl, ln in vx.ext:
        if kind == 0 and off + ln <= len(raw):
            raw[off:off + ln] = pl
    out.append(dict(name="vhdx.dynamic", raw=bytes(raw), fields=list(vx.fields), drv=drv_vhdx, kw={}))
    add("vhd.dynamic", BVHD.build_dynamic([DATA, HOLE, DATA], [1, None, 0], 8, (3 * 8 - 1) * 512, 4), drv_vhd)
    add("vhd.fixed", BVHD.build_fixed(17), drv_vhd)
    add("vdi", BV.build([DATA, HOLE, ZERO, DATA], slots, 4096, 4 * 4096 - 512), drv_vdi)
    add("hds.v2", BH.build_hds([DATA, HOLE, DATA], [2, None, 1], 8, 2, 23), drv_hds)
    add("hds.v1", BH.build_hds([DATA, HOLE, DATA], [2, None, 1], 8, 1, 23), drv_hds)
    tree = {"configuration": (BHV.T_NODE, {"a": (BHV.T_INT, 1), "n": (BHV.T_NODE, {"s": (BHV.T_STR, "x" * 40)}),
                                           "big": (BHV.T_ARR, b"\x07" * 0x900)})}
    hv = BHV.build(tree, ntables=2)
    out.append(dict(name="hyperv", raw=hv, fields=_hyperv_fields(hv), drv=drv_hyperv, kw={}))
    key, iv = BE.det("k", 32), BE.det("iv", 12)
    env, regions = BE.build(BE.det("p", 700), key, iv, padding=3)
    efields = [("magic", 0, 21, "<", "header"), ("size", 504, 4, "<", "header"), ("version", 508, 4, "<", "header"),
               ("aead.size", len(env) - 8, 4, "<", "header"), ("aead.version", len(env) - 4, 4, "<", "header")]
    pos = 512
    for t, flag, name, value in BE.standard_attrs(key, iv):
        efields.append((f"attr.{name}.type", pos, 1, "<", "header"))
        if t == 12:
            efields.append((f"attr.{name}.len", pos + 4 + len(name) + 1, 8, "<", "header"))
        pos += len(BE.pack_attr(t, flag, name, value))
    out.append(dict(name="envelope", raw=env, fields=efields, drv=drv_envelope, kw={"key": key}))
    out.append(dict(name="keystore", raw=BE.keystore_text(BE.det("id", 16), BE.det("a", 16), BE.det("b", 16)).encode(), fields=[],
                    drv=drv_keystore, kw={}))
    members = [("d/", "vdir", b""), ("d/a", "visor", b"A" * 513), ("d/u", "ustar", b"U" * 700), ("d/b", "visor", b"B" * 4097)]
    tar, offs = BT.build(members, 512, [3, 1])
    tfields = []
    for i in range(4):
        base = 512 * i + (1024 if i > 2 else 0)
    hpos = 0
    for name, kind, data in members:
        tfields += [(f"{name}.size", hpos + 124, 12, "text", "header"), (f"{name}.offset", hpos + 496, 4, "<", "header"),
                    (f"{name}.type", hpos + 156, 1, "<", "header"), (f"{name}.chksum", hpos + 148, 8, "text", "header")]
        hpos += 512 + (len(BT.pad512(data)) if kind == "ustar" else 0)
    out.append(dict(name="vmtar", raw=tar, fields=tfields, drv=drv_vmtar, kw={}))
    dk = BVX.det_bytes("dk", 32)
    pair, blob = BVX.pair_text("pw", "PBKDF2-HMAC-SHA-1", "AES-256", 1, BVX.det_bytes("s", 16), "HMAC-SHA-1", "AES-256", dk,
                               BVX.det_bytes("iv", 16))
    vtext = BVX.vmx_text([pair], BVX.seal(dk, b'scsi0:0.fileName = "a.vmdk"\nmemsize = "1"', "HMAC-SHA-1", BVX.det_bytes("i2", 16)))
    out.append(dict(name="vmx.encrypted", raw=vtext.encode(), fields=[], drv=drv_vmx, kw={}))
    out.append(dict(name="vmx.plain", raw=b'scsi0:0.fileName = "a.vmdk"\nide1:0.deviceType = "cdrom-image"\nide1:0.fileName = "x.iso"\n',
                    fields=[], drv=drv_vmx, kw={}))
    return out


def _hyperv_fields(raw):
    f = []
    for base, nm in ((0, "header1"), (0x1000, "header2")):
        for name, o, w in (("signature", 0, 4), ("sequence", 8, 2), ("version", 10, 4), ("alignment", 22, 4),
                           ("replay_log_offset", 26, 8), ("replay_log_size", 34, 8), ("header_size", 42, 4)):
            f.append((f"{nm}.{name}", base + o, w, "<", "header"))
    f += [("replay.signature", 0x8000, 4, "<", "header"), ("replay.num_entries", 0x8008, 4, "<", "header"),
          ("objtable.signature", 0x2000, 4, "<", "header"), ("objtable.num_entries", 0x2004, 4, "<", "header")]
    sig, n = struct.unpack_from("<II", raw, 0x2000)
    for i in range(min(n, 6)):
        b = 0x2008 + 18 * i
        t, _, off, size, alloc = struct.unpack_from("<BIQIB", raw, b)
        f += [(f"obj[{i}].type", b, 1, "<", "table"), (f"obj[{i}].offset", b + 5, 8, "<", "table"),
              (f"obj[{i}].size", b + 13, 4, "<", "table"), (f"obj[{i}].allocated", b + 17, 1, "<", "table")]
        if t == 2 and alloc:
            f += [(f"keytable[{i}].signature", off, 2, "<", "header"), (f"keytable[{i}].index", off + 2, 2, "<", "header"),
                  (f"keytable[{i}].sequence", off + 4, 2, "<", "header")]
            pos = 10
            k = 0
            while pos < size and k < 4:
                typ, esz = struct.unpack_from("<HI", raw, off + pos)
                if esz == 0:
                    break
                e = off + pos
                f += [(f"keytable[{i}].entry[{k}].type", e, 2, "<", "table"), (f"keytable[{i}].entry[{k}].size", e + 2, 4, "<", "table"),
                      (f"keytable[{i}].entry[{k}].parent_table", e + 6, 2, "<", "table"),
                      (f"keytable[{i}].entry[{k}].parent_offset", e + 8, 4, "<", "table"),
                      (f"keytable[{i}].entry[{k}].data_offset", e + 20, 1, "<", "table"),
                      (f"keytable[{i}].entry[{k}].value_len", e + 21 + raw[e + 20], 4, "<", "table")]
                pos += esz
                k += 1
    return f


# ---- faults ---------------------------------------------------------------------------------------------------------------------
def _field_faults(seed):
    raw = seed["raw"]
    structure_offsets = sorted({off for (_, off, w, en, role) in seed["fields"] if role == "header"} | {0})
    # current values of the table fields, per width: their negatives (two's complement) are what a field read with the wrong
    # signedness turns a step / size / offset into -- a walk that moves backwards by exactly one earlier element
    small = {}
    for name, off, w, en, role in seed["fields"]:
        if role == "table" and w in (2, 4, 8) and en != "text" and off + w <= len(raw):
            c, = struct.unpack_from(en + {2: "H", 4: "I", 8: "Q"}[w], raw, off)
            if 0 < c < 65536:
                small.setdefault(w, set()).add(c)
    for name, off, w, en, role in seed["fields"]:
        if off + w > len(raw):
            continue
        if en == "text":
            for txt in (b"0" * (w - 1), b"7" * (w - 1), b"1".rjust(w - 1, b"0"), b"\xff" * (w - 1), b"-0000000001"[: w - 1]):
                yield name, off, txt.ljust(w, b"\0")[:w]
            continue
        if w in (1, 2, 4, 8):
            fmt = en + {1: "B", 2: "H", 4: "I", 8: "Q"}[w]
            cur, = struct.unpack_from(fmt, raw, off)
            mx = (1 << (8 * w)) - 1
            vals = {0, 1, 2, mx, mx - 1, cur + 1, cur - 1, cur * 2, off, off // 512, mx >> 1, (mx >> 1) + 1, 1 << (4 * w)}
            for so in structure_offsets[:12]:
                vals.update({so, so // 512, so >> 9 << 9})
            if role == "table" and w >= 2:
                vals.update(mx + 1 - c for c in sorted(small.get(w, ()))[:12])
                vals.update(mx + 1 - c for c in (8, 16, 32, 40, 64, 512))
            for v in sorted(x for x in vals if 0 <= x <= mx and x != cur):
                yield name, off, struct.pack(fmt, v)
        else:
            yield name, off, b"\0" * w
            yield name, off, b"\xff" * w
            yield name, off, bytes(raw[off:off + w][::-1])


def _truncations(seed):
    raw = seed["raw"]
    pts = {off for (_, off, w, en, role) in seed["fields"]} | {off + w for (_, off, w, en, role) in seed["fields"]}
    pts |= set(range(0, min(len(raw), 1024), 16)) | {len(raw) - 1, len(raw) - 511, len(raw) - 512, len(raw) - 1024, len(raw) // 2}
    return sorted(p for p in pts if 0 <= p < len(raw))


def _alias_faults(seed):
    raw = seed["raw"]
    tabs = [(n, o, w, e) for (n, o, w, e, role) in seed["fields"] if role == "table" and w in (4, 8) and o + w <= len(raw)]
    for (n1, o1, w1, e1), (n2, o2, w2, e2) in itertools.permutations(tabs[:14], 2):
        if w1 == w2 and raw[o1:o1 + w1] != raw[o2:o2 + w2]:
            yield f"{n1}<-{n2}", o1, raw[o2:o2 + w2]


SPECIAL_SHARDS = 8


def shards(tier):
    out = []
    for s in _seeds():
        nf = len(list(_field_faults(s)))
        k = max(1, nf // 250)
        for i in range(k):
            out.append({"kind": "fields", "seed": s["name"], "slice": [i, k]})
        out.append({"kind": "trunc", "seed": s["name"]})
        if any(f[4] == "table" for f in s["fields"]):
            out.append({"kind": "alias", "seed": s["name"]})
    for i in range(SPECIAL_SHARDS):
        out.append({"kind": "special", "slice": [i, SPECIAL_SHARDS]})
    return out


_SEEDS = None
_BASE = {}
_REFUSED = set()
_meter = monitors.StepMeter()


def _seed(name):
    global _SEEDS
    if _SEEDS is None:
        _SEEDS = {s["name"]: s for s in _seeds()}
    return _SEEDS[name]


def _run_metered(drv, arg, kw, budget_steps):
    """-> (outcome, steps, peak) ; outcome 'returned' | 'raised:<Type>' | 'steps' | 'memory' | 'timeout'"""
    import gc

    gc.collect()
    tracemalloc.start(1)
    tracemalloc.reset_peak()
    outcome = None
    steps = 0
    try:
        with _meter.measure(budget_steps) as m:
            try:
                drv(arg, **kw)
                outcome = "returned"
            except Timeout:
                raise
            except monitors.StepBudgetExceeded:
                outcome = "steps"
            except MemoryError:
                outcome = "memory"
            except RecursionError:
                outcome = "raised:RecursionError"
            except Exception as e:
                outcome = "raised:" + type(e).__name__
            steps = m.steps
    finally:
        peak = tracemalloc.get_traced_memory()[1]
        tracemalloc.stop()
    return outcome, steps, peak


BASELINE_STEP_CAP = 3_000_000  # an un-faulted seed of a few KiB needs a few thousand steps


class SeedDoesNotTerminate(Exception):
    pass


def _baseline(seed):
    if seed["name"] not in _BASE:
        outcome, steps, peak = _run_metered(seed["drv"], seed["raw"], seed["kw"], BASELINE_STEP_CAP)
        if outcome == "steps":
            raise SeedDoesNotTerminate(f"{seed['name']}: {steps} steps on the un-faulted seed")
        if outcome in ("memory", "timeout"):
            raise AssertionError(f"harness: un-faulted seed {seed['name']}: {outcome}")
        if outcome != "returned":
            # the tree under test refuses a well-formed input: not a matter of this property (raising is an allowed
            # answer); the faults derived from the seed are still inputs like any other.  Counted in the evidence.
            _REFUSED.add(seed["name"])
        _BASE[seed["name"]] = (steps, peak)
    return _BASE[seed["name"]]


def _execute(ctx, case, seed, data, subject, drv=None, kw=None, input_bytes=None):
    ctx.transitions += 1
    ctx.states += 1
    ctx.nontrivial += 1
    try:
        with ctx.watch(case, 600):
            bsteps, bpeak = _baseline(seed) if seed is not None else (2000, 1 << 20)
    except SeedDoesNotTerminate as e:
        ctx.violation(case, {"subject": subject.split(".")[0] + ".valid-seed", "kind": "step-budget-exceeded"}, {"what": str(e)})
        return False
    if seed is not None and seed["name"] not in _BASE:
        return False  # the watchdog fired while measuring the baseline (reported by ctx.watch)
    if seed is not None and seed["name"] in _REFUSED:
        ctx.extra["well-formed-seed-refused:" + seed["name"]] = 1
    n_in = input_bytes if input_bytes is not None else len(data)
    sectors = n_in // 512 + 6 * (A // 512) + 64
    budget = 20 * bsteps + 1024 * sectors + 20000
    mem_budget = (32 << 20) + 16 * (n_in + 6 * A)
    with ctx.watch(case, 300):
        outcome, steps, peak = _run_metered(drv or seed["drv"], data, kw if kw is not None else seed["kw"], budget)
        ctx.maxi("steps_over_budget_permille", int(1000 * steps / budget))
        ctx.maxi("peak_over_budget_permille", int(1000 * peak / mem_budget))
        if outcome in ("steps", "memory") or peak > mem_budget:
            kind = {"steps": "step-budget-exceeded", "memory": "memory-exhausted"}.get(outcome, "memory-budget-exceeded")
            ctx.violation(case, {"subject": subject, "kind": kind},
                          {"steps": steps, "step_budget": budget, "peak_bytes": peak, "memory_budget": mem_budget,
                           "input_bytes": n_in})
            return False
        ctx.outcome("returned" if outcome == "returned" else "raised")
        ctx.extra[outcome] += 1
    return True


def run_shard(shard, ctx):
    kind = shard["kind"]
    if kind == "special":
        i, k = shard.get("slice", [0, 1])
        for c in _special_cases()[i::k]:
            run_case(c, ctx)
        return
    seed = _seed(shard["seed"])
    if kind == "fields":
        faults = list(_field_faults(seed))
        i, k = shard["slice"]
        run_case({"kind": "fields", "seed": seed["name"], "range": [i, k]}, ctx)
    elif kind == "trunc":
        run_case({"kind": "trunc", "seed": seed["name"]}, ctx)
    else:
        run_case({"kind": "alias", "seed": seed["name"]}, ctx)


def run_case(case, ctx):
    ctx.executions += 1
    ctx.model({k: v for k, v in case.items()})
    ctx.sample(case)
    kind = case["kind"]
    if kind == "special":
        return _run_special(case, ctx)
    seed = _seed(case["seed"])
    raw = seed["raw"]
    only = case.get("only")
    if kind == "fields":
        faults = list(_field_faults(seed))
        i, k = case["range"]
        for n, (name, off, val) in enumerate(faults):
            if n % k != i or (only is not None and only != n):
                continue
            data = raw[:off] + val + raw[off + len(val):]
            if not _execute(ctx, dict(case, only=n, fault=[name, off, val.hex()]), seed, data,
                            f"{seed['name']}.field"):
                return
    elif kind == "trunc":
        for p in _truncations(seed):
            if only is not None and only != p:
                continue
            if not _execute(ctx, dict(case, only=p), seed, raw[:p], f"{seed['name']}.truncated"):
                return
    else:
        for n, (name, off, val) in enumerate(_alias_faults(seed)):
            if only is not None and only != n:
                continue
            data = raw[:off] + val + raw[off + len(val):]
            if not _execute(ctx, dict(case, only=n, fault=[name, off]), seed, data, f"{seed['name']}.alias"):
                return


# ---- explicit cycles, bombs, invalid bitmaps -----------------------------------------------------------------------------------
def _special_cases():
    out = []
    for n in (1, 2, 3):
        out.append({"kind": "special", "what": "prl-shot-cycle", "n": n})
    for how in ("self", "pair", "to-first", "unaligned-self", "unaligned-pair"):
        out.append({"kind": "special", "what": "hyperv-objtable-cycle", "how": how})
    for typ in ("Plain", "Compressed"):
        for how in ("truncated-half", "truncated-odd", "empty", "header-size-smaller", "end-raised", "end-raised-last"):
            if how == "header-size-smaller" and typ == "Plain":
                continue
            out.append({"kind": "special", "what": "prl-storage-shorter-than-range", "type": typ, "how": how})
    out.append({"kind": "special", "what": "vmdk-bomb-x-header-fields"})
    out.append({"kind": "special", "what": "qcow2-bomb-x-header-fields"})
    out.append({"kind": "special", "what": "hyperv-parent-cycle"})
    for tgt in ("l1", "header", "self"):
        out.append({"kind": "special", "what": "qcow2-l2-points-at", "target": tgt})
    out.append({"kind": "special", "what": "qcow2-snapshot-table-self"})
    out.append({"kind": "special", "what": "qcow2-bomb", "ratio": 4096})  # 64 KiB cluster -> 256 MiB
    # a bomb in every L2 slot around the end of the virtual disk (last cluster, partial last cluster, the slack slot of the
    # cluster that starts exactly at the end, the one after), cluster sizes below and above the stream buffer
    for cb in (9, 12, 16):
        for where in ("last", "partial-last", "at-end", "after-end"):
            out.append({"kind": "special", "what": "qcow2-bomb-at-disk-end", "cb": cb, "where": where})
    for kind in ("hosted", "cowd", "sesparse"):
        out.append({"kind": "special", "what": "vmdk-many-grain-tables", "extent": kind})
    out.append({"kind": "special", "what": "vmdk-bomb", "ratio": 65536})  # 4 KiB grain -> 256 MiB
    for bm in ("alloc-and-zero", "all-ones", "unalloc-with-alloc-bits"):
        out.append({"kind": "special", "what": "qcow2-invalid-bitmap", "bitmap": bm})
    for depth in (1, 3, 40):
        out.append({"kind": "special", "what": "vmdk-parent-chain-cycle", "depth": depth})
    for depth in (1, 2, 3):
        for both in (False, True):
            out.append({"kind": "special", "what": "vhdx-parent-chain-cycle", "depth": depth, "both_paths": both})
    for fmt in ("vdi", "vhd", "vhdx", "hds1", "hds2", "vmdk"):
        out.append({"kind": "special", "what": "huge-unit-small-read", "fmt": fmt})
    for fmt in ("vdi", "vhd", "hds2", "vmdk", "qcow2"):
        for alloc in ("holes", "data"):
            out.append({"kind": "special", "what": "tiny-unit-large-read", "fmt": fmt, "alloc": alloc})
    for depth in (4, 8):
        out.append({"kind": "special", "what": "vmdk-descriptor-chain-embedded-parents", "depth": depth})
    for fill in ("free", "int"):
        out.append({"kind": "special", "what": "hyperv-large-key-table", "fill": fill})
    for refs in (8, 128):
        for typ in ("key-table", "replay-log"):
            out.append({"kind": "special", "what": "hyperv-object-fanout", "refs": refs, "type": typ})
    for pairs in (256, 4096):
        for has_parent in (0, 1):
            out.append({"kind": "special", "what": "vhdx-locator-overlapping-strings", "pairs": pairs, "has_parent": has_parent})
    # the same with the length of the metadata region (a field of the region table) raised to its maximum
    out.append({"kind": "special", "what": "vhdx-locator-overlapping-strings", "pairs": 4096, "has_parent": 0, "region_length": 0xFFFFFFFF})
    # key tables at distinct, overlapping offsets (one alignment step apart), each as large as the rest of the file
    for refs in (50, 200):
        out.append({"kind": "special", "what": "hyperv-object-fanout", "refs": refs, "type": "key-table-overlapping"})
    # thousands of tiny key tables (10 bytes each, one per 16 bytes of the file): the work per table does not grow with the
    # number of tables already loaded
    out.append({"kind": "special", "what": "hyperv-object-fanout", "refs": 12000, "type": "key-table-many-small"})
    for where in ("first", "middle", "last", "only"):
        for how in ("handles", "descriptor"):
            out.append({"kind": "special", "what": "vmdk-zero-sector-extent", "where": where, "how": how})
    for fmt in ("qcow2-unknown-extension", "vmdk", "vhdx", "hyperv", "vmtar"):
        out.append({"kind": "special", "what": "repeated-open-retains-memory", "fmt": fmt})
    for fill in (4096, 65536):
        for ln in (0xFFFFFFFF, 0xFFFFFFF9, 0xFFFFFFF8):
            out.append({"kind": "special", "what": "qcow2-extension-length-x-far-end-bound", "fill": fill, "len": ln})
    for tgt in ("pax-header", "first-header", "own-header"):
        for typ in ("x", "X", "g+x", "g+X"):
            out.append({"kind": "special", "what": "vmtar-pax-size-then-visor-offset-backwards", "target": tgt, "typ": typ})
    # snapshot trees with a GUID listed twice (first / last entry closing a loop), besides the plain cycles above
    for variant in ("first-closes-loop", "last-closes-loop", "both-loop", "duplicate-top"):
        out.append({"kind": "special", "what": "prl-duplicate-shot-guid", "variant": variant})
    # text formats: lines built from long runs of one special character, well-formed and broken (unterminated quote, too many
    # fields): parsing time is linear in the input (the inputs are a few KiB: a watchdog of seconds decides)
    for fmt in ("vmdk-extent", "vmdk-kv", "vmx", "keystore", "keysafe"):
        out.append({"kind": "special", "what": "text-stress", "fmt": fmt})
    # two cooperating faults inside one structure family: the snapshot count of the header x every field of the first snapshot
    # entry (a length that wraps the entry size to 0 is harmless alone, endless together with a huge count)
    out.append({"kind": "special", "what": "qcow2-snapshot-count-x-entry-fields"})
    # extension headers (pax x / X / g, GNU long name L / long link K) at every position of a short member sequence: listing
    # terminates whatever the neighbours are
    for typ in ("x", "X", "g", "L", "K"):
        for rec in ("path", "size", "comment"):
            if typ in "LK" and rec != "path":
                continue
            out.append({"kind": "special", "what": "vmtar-extension-headers", "typ": typ, "rec": rec})
    return out


def _run_special(case, ctx):
    from mc.builders import hdd as BH
    from mc.builders import hyperv as BHV
    from mc.builders import qcow2 as BQ
    from mc.builders import vmdk as BM

    what = case["what"]
    subject = "special." + what
    if what == "prl-shot-cycle":
        n = case["n"]
        guids = [BH.DEFAULT_TOP] + [f"{{0000000{k}-0000-4000-8000-000000000000}}" for k in range(1, n)]
        shots = [(guids[k], guids[(k + 1) % n]) for k in range(n)]
        imgs = [(g, "Compressed", f"x.{k}.hds") for k, g in enumerate(guids)]
        files = {"DiskDescriptor.xml": BH.descriptor_xml(24, [(0, 24, imgs)], shots).encode()}
        for k in range(n):
            files[f"x.{k}.hds"] = BH.build_hds([DATA, HOLE, DATA], [2, None, 1], 8, 2, 24, layer=k + 1).tobytes()
        return _execute(ctx, case, None, files, subject, drv_hdd_dir, {}, sum(len(v) for v in files.values()))
    if what == "prl-storage-shorter-than-range":
        # a split disk whose descriptor promises more sectors for a storage than its image delivers (image cut off, image header
        # with a smaller size, End raised): reads that reach the missing part return (short) or raise, they do not wait for it
        typ, how = case["type"], case["how"]
        n = 24
        ends = [n, 2 * n, 3 * n]
        files = {}
        storages = []
        for k in range(3):
            fn = f"x.{k}.hds"
            if typ == "Plain":
                data = pattern.span(k + 1, 0, n * 512)
            else:
                size = n // 2 if (how == "header-size-smaller" and k == 0) else n
                data = BH.build_hds([DATA, HOLE, DATA], [2, None, 1], 8, 2, size, layer=k + 1).tobytes()
            if k == 0 and how == "truncated-half":
                data = data[: len(data) // 2]
            elif k == 0 and how == "truncated-odd":
                data = data[: len(data) // 2 + 77]
            elif k == 0 and how == "empty":
                data = data[:0] if typ == "Plain" else data[:64]
            files[fn] = data
            storages.append([k * n, ends[k], [(BH.DEFAULT_TOP, typ, fn)]])
        if how == "end-raised":
            storages[0][1] = 2 * n + 5  # overlaps the second storage
        elif how == "end-raised-last":
            storages[2][1] = 40 * n
        files["DiskDescriptor.xml"] = BH.descriptor_xml(storages[2][1], [tuple(x) for x in storages], [(BH.DEFAULT_TOP, BH.NULL_GUID)]).encode()
        return _execute(ctx, case, None, files, subject, drv_hdd_dir, {}, sum(len(v) for v in files.values()) + storages[2][1] * 512)
    if what == "prl-duplicate-shot-guid":
        g = [BH.DEFAULT_TOP] + [f"{{0000000{k}-0000-4000-8000-000000000000}}" for k in range(1, 4)]
        v = case["variant"]
        shots = {
            # top -> B ; B listed twice: B -> top (closes a loop) and B -> null
            "first-closes-loop": [(g[0], g[1]), (g[1], g[0]), (g[1], BH.NULL_GUID)],
            "last-closes-loop": [(g[0], g[1]), (g[1], BH.NULL_GUID), (g[1], g[0])],
            "both-loop": [(g[0], g[1]), (g[1], g[2]), (g[2], g[1]), (g[1], g[2])],
            "duplicate-top": [(g[0], g[1]), (g[0], g[0]), (g[1], BH.NULL_GUID)],
        }[v]
        imgs = [(x, "Compressed", f"x.{k}.hds") for k, x in enumerate(g[:3])]
        files = {"DiskDescriptor.xml": BH.descriptor_xml(24, [(0, 24, imgs)], shots).encode()}
        for k in range(3):
            files[f"x.{k}.hds"] = BH.build_hds([DATA, HOLE, DATA], [2, None, 1], 8, 2, 24, layer=k + 1).tobytes()
        return _execute(ctx, case, None, files, subject, drv_hdd_dir, {}, sum(len(v_) for v_ in files.values()))
    if what in ("hyperv-objtable-cycle", "hyperv-parent-cycle"):
        tree = {"configuration": (BHV.T_NODE, {"a": (BHV.T_INT, 1), "n": (BHV.T_NODE, {"s": (BHV.T_STR, "x")})})}
        how = case.get("how", "")
        if how.startswith("unaligned"):
            # references to offsets that are not multiples of the header alignment: 0x2000 -> 0x3001 (-> 0x3001 ...)
            raw = bytearray(BHV.build(tree, ntables=1))
            tab = BHV.objtable([(1, 0x3001, 0x1000, 1)] if how == "unaligned-self" else [(1, 0x5001, 0x1000, 1)])
            tab2 = BHV.objtable([(1, 0x3001, 0x1000, 1)])
            for base in (0x3001, 0x4000, 0x5001, 0x6000):
                t = tab if base in (0x3001, 0x4000) else tab2
                raw[base:base + len(t)] = t
            sig, n = struct.unpack_from("<II", raw, 0x2000)
            for i in range(n):
                b = 0x2008 + 18 * i
                if raw[b] == 4 or raw[b + 17] == 0:
                    raw[b:b + 18] = struct.pack("<BIQIB", 1, 0, 0x3001, 0x1000, 1)
                    break
            return _execute(ctx, case, _seed("hyperv"), bytes(raw), subject, drv_hyperv, {})
        raw = bytearray(BHV.build(tree, ntables=1, second_object_table=what == "hyperv-objtable-cycle" and case["how"] != "self"))
        if what == "hyperv-parent-cycle":
            # the first entry names itself as its parent
            off = 0x10000 + 10
            struct.pack_into("<HI", raw, off + 6, 1, 10)
        else:
            sig, n = struct.unpack_from("<II", raw, 0x2000)
            # find a free slot in the first object table and make it an object-table entry
            for i in range(n):
                b = 0x2008 + 18 * i
                if raw[b] == 4 or raw[b + 17] == 0:
                    tgt = {"self": 0x2000, "pair": 0x3000, "to-first": 0x3000}[case["how"]]
                    raw[b:b + 18] = struct.pack("<BIQIB", 1, 0, tgt, 0x1000, 1)
                    break
            if case["how"] in ("pair", "to-first"):
                sig2, n2 = struct.unpack_from("<II", raw, 0x3000)
                for i in range(n2):
                    b = 0x3008 + 18 * i
                    if raw[b] == 4 or raw[b + 17] == 0:
                        raw[b:b + 18] = struct.pack("<BIQIB", 1, 0, 0x2000 if case["how"] == "to-first" else 0x3000, 0x1000, 1)
                        break
        return _execute(ctx, case, _seed("hyperv"), bytes(raw), subject, drv_hyperv, {})
    if what == "qcow2-l2-points-at":
        img, _ = BQ.build(["N", "U", "N"], [0, None, 1], 9, 3)
        raw = bytearray(img.tobytes())
        l1 = [f for f in img.fields if f[0] == "l1[0]"][0][1]
        l1_off, = struct.unpack_from(">Q", raw, 40)
        tgt = {"l1": l1_off, "header": 0, "self": struct.unpack_from(">Q", raw, l1)[0] & 0x00FFFFFFFFFFFE00}[case["target"]]
        struct.pack_into(">Q", raw, l1, tgt | (1 << 63))
        if case["target"] == "self":
            # the L2 table's first entry points at the L2 table itself
            struct.pack_into(">Q", raw, tgt, tgt | (1 << 63))
        return _execute(ctx, case, _seed("qcow2.std"), bytes(raw), subject, drv_qcow2, {})
    if what == "qcow2-snapshot-table-self":
        snap = {"states": ["N"], "slots": [1], "layer": 2}
        img, _ = BQ.build(["N"], [0], 9, 3, snapshots=[snap])
        raw = bytearray(img.tobytes())
        snaps_off, = struct.unpack_from(">Q", raw, 64)
        struct.pack_into(">I", raw, 60, 0xFFFF)  # nb_snapshots
        struct.pack_into(">QI", raw, snaps_off, snaps_off, 0x10000)  # the snapshot's L1 table is the snapshot table itself
        return _execute(ctx, case, _seed("qcow2.snapshots"), bytes(raw), subject, drv_qcow2, {})
    if what == "qcow2-bomb":
        img, _ = BQ.build(["C", "N"], [None, 0], 16, 3)
        raw = bytearray(img.tobytes())
        f = [x for x in img.fields if x[0] == "l2[0][0]"][0][1]
        e, = struct.unpack_from(">Q", raw, f)
        x = 62 - (16 - 8)
        host = e & ((1 << x) - 1)
        bomb = BQ.raw_deflate(b"\0" * (65536 * case["ratio"]), 9)
        raw[host:host + len(bomb)] = bomb.ljust(len(raw[host:host + len(bomb)]), b"\0") if host + len(bomb) <= len(raw) else bomb[:len(raw) - host]
        if host + len(bomb) > len(raw):
            raw += bomb[len(raw) - host:]
        nb = (host + len(bomb) - 1) // 512 - host // 512
        struct.pack_into(">Q", raw, f, (1 << 62) | (min(nb, 255) << x) | host)
        return _execute(ctx, case, _seed("qcow2.std"), bytes(raw), subject, drv_qcow2, {}, len(raw))
    if what == "qcow2-bomb-at-disk-end":
        cb, where = case["cb"], case["where"]
        cs = 1 << cb
        n = 3  # 3 clusters: not a multiple of the 8 KiB buffer for 512 B / 4 KiB clusters
        states = ["N"] * n + ["U", "U"]
        img, _ = BQ.build(states, [0, 1, 2, None, None], cb, 3, size=(n * cs - cs // 2) if where == "partial-last" else n * cs)
        raw = bytearray(img.tobytes())
        slot = {"last": n - 1, "partial-last": n - 1, "at-end": n, "after-end": n + 1}[where]
        f = [x for x in img.fields if x[0] == "l2[0][0]"][0][1] + 8 * slot
        x = 62 - (cb - 8)
        host = (len(raw) + 511) // 512 * 512
        bomb = BQ.raw_deflate(b"\0" * (32 << 20), 9)[: ((1 << (cb - 8)) - 1) * 512 + 511]  # as much as the descriptor can address
        raw += b"\0" * (host - len(raw)) + bomb + b"\0" * 1024
        nb = min((1 << (cb - 8)) - 1, (host + len(bomb) - 1) // 512 - host // 512)
        struct.pack_into(">Q", raw, f, (1 << 62) | (nb << x) | host)

        def drv(data):
            from dissect.hypervisor.disk import qcow2 as Q

            q = Q.QCow2(io.BytesIO(data))
            got = 0
            for pos in (0, max(0, q.size - 700), max(0, q.size - 1), (q.size // 8192) * 8192):
                q.seek(pos)
                got += len(q.read(A))
            q.seek(0)
            got += len(q.read())
            return got

        seed = _seed("qcow2.std")
        ok = True
        # memory bound of this case: nothing larger than a few clusters / buffers is ever needed
        ctx.transitions += 1
        ctx.states += 1
        ctx.nontrivial += 1
        with ctx.watch(case, 300):
            outcome, steps, peak = _run_metered(drv, bytes(raw), {}, 2_000_000)
        limit = (4 << 20) + 64 * cs
        if outcome in ("steps", "memory") or peak > limit:
            ctx.violation(case, {"subject": subject, "kind": "inflated-beyond-the-cluster" if peak > limit else outcome},
                          {"peak_bytes": peak, "limit": limit, "steps": steps, "cluster_size": cs, "input_bytes": len(raw)})
            return False
        ctx.outcome("returned" if outcome == "returned" else "raised")
        ctx.extra[outcome] += 1
        return ok
    if what == "vmdk-many-grain-tables":
        # thousands of grain directory entries whose tables overlap in the file one sector apart; one sector is read from
        # the range of every table: what is retained must not grow with the number of tables touched
        ngd, kind = 2048, case["extent"]
        if kind == "hosted":
            gd_sector, gt0, ngte, grain = 1, 40, 512, 8
            hdr = BM._hosted_header(1, 3, ngd * ngte * grain, grain, 0, 0, ngte, 0, gd_sector, gt0 + ngd + 8, 0)
            raw = bytearray((gt0 + ngd + 16) * 512)
            raw[0:len(hdr)] = hdr
            struct.pack_into(f"<{ngd}I", raw, gd_sector * 512, *[gt0 + i for i in range(ngd)])
        elif kind == "cowd":
            ngte, grain, gd_sector, gt0 = 4096, 1, 4, 40
            hdr = struct.pack("<4sIIIIIII", b"COWD", 1, 3, ngd * ngte * grain, grain, gd_sector, ngd, gt0 + ngd + 40)
            raw = bytearray((gt0 + ngd + 64) * 512)
            raw[0:len(hdr)] = hdr
            struct.pack_into(f"<{ngd}I", raw, gd_sector * 512, *[gt0 + i for i in range(ngd)])
        else:
            # SE-sparse tables cannot overlap (the directory names table indices): 4096 real tables of 512 entries
            ngte, grain = 512, 8
            img = BM.build_sesparse([HOLE] * 4, [None] * 4, grain, 8, ngd * ngte * grain, 0, ngd * ngte, elide_empty_gt=False)
            raw = bytearray(img.tobytes())
        cover = ngte * grain * 512

        def drv(data):
            from dissect.hypervisor.disk.vmdk import VMDK

            v = VMDK(io.BytesIO(data))
            got = 0
            n = min(ngd, v.size // cover)
            for i in range(n):
                got += len(v.read_sectors(i * (cover // 512) + (i % 7), 1))
            return got

        ctx.transitions += 1
        ctx.states += 1
        ctx.nontrivial += 1
        with ctx.watch(case, 600):
            outcome, steps, peak = _run_metered(drv, bytes(raw), {}, 40_000_000)
        # a reader may keep a bounded number of parsed tables (the library keeps 128): 160 tables of ngte boxed integers
        limit = (24 << 20) + len(raw) + 160 * ngte * 48
        ctx.maxi("many-tables.peak_bytes." + kind, peak)
        if outcome != "returned" or peak > limit:
            ctx.violation(case, {"subject": subject, "kind": "memory-grows-with-tables-touched" if outcome == "returned" else outcome},
                          {"peak_bytes": peak, "limit": limit, "steps": steps, "tables": ngd, "input_bytes": len(raw)})
            return False
        ctx.outcome("returned")
        ctx.extra[outcome] += 1
        return True
    if what in ("vmdk-bomb-x-header-fields", "qcow2-bomb-x-header-fields"):
        # a bomb combined with every single fault of every header field (two cooperating sites: the limit and its source)
        if what.startswith("vmdk"):
            img = BM.build_hosted([BM.CDATA, DATA], [0, 1], 8, 512, 16, footer=True, compressed=True, stride=640)
            raw = bytearray(img.tobytes())
            f = [x for x in img.fields if x[0] == "gt[0][0]"][0][1]
            sec, = struct.unpack_from("<I", raw, f)
            bomb = zlib.compress(b"\0" * (4096 * 16384), 9)
            rec = struct.pack("<QI", 0, len(bomb)) + bomb
            raw[sec * 512:sec * 512 + len(rec)] = rec
            seed = dict(name="vmdk.bomb", raw=bytes(raw), fields=[x for x in img.fields if x[4] == "header"], drv=drv_vmdk, kw={})
            base_seed = _seed("vmdk.stream")
        else:
            img, _ = BQ.build(["C", "N"], [None, 0], 16, 3)
            raw = bytearray(img.tobytes())
            f = [x for x in img.fields if x[0] == "l2[0][0]"][0][1]
            e, = struct.unpack_from(">Q", raw, f)
            x = 62 - 8
            host = e & ((1 << x) - 1)
            bomb = BQ.raw_deflate(b"\0" * (65536 * 1024), 9)
            if host + len(bomb) > len(raw):
                raw += b"\0" * (host + len(bomb) - len(raw))
            raw[host:host + len(bomb)] = bomb
            nb = (host + len(bomb) - 1) // 512 - host // 512
            struct.pack_into(">Q", raw, f, (1 << 62) | (min(nb, 255) << x) | host)
            seed = dict(name="qcow2.bomb", raw=bytes(raw), fields=[x for x in img.fields if x[4] == "header"], drv=drv_qcow2, kw={})
            base_seed = _seed("qcow2.std")
        only = case.get("only")
        for n, (name, off, val) in enumerate(_field_faults(seed)):
            if only is not None and only != n:
                continue
            data = seed["raw"][:off] + val + seed["raw"][off + len(val):]
            if not _execute(ctx, dict(case, only=n, fault=[name, off, val.hex()]), base_seed, data, subject, seed["drv"], {}, len(data)):
                return
        return
    if what == "vmdk-bomb":
        img = BM.build_hosted([BM.CDATA, DATA], [0, 1], 8, 512, 16, footer=True, compressed=True, stride=640)
        raw = bytearray(img.tobytes())
        f = [x for x in img.fields if x[0] == "gt[0][0]"][0][1]
        sec, = struct.unpack_from("<I", raw, f)
        bomb = zlib.compress(b"\0" * (4096 * case["ratio"]), 9)
        assert len(bomb) + 12 <= 640 * 512
        rec = struct.pack("<QI", 0, len(bomb)) + bomb
        raw[sec * 512:sec * 512 + len(rec)] = rec
        return _execute(ctx, case, _seed("vmdk.stream"), bytes(raw), subject, drv_vmdk, {}, len(raw))
    if what == "qcow2-invalid-bitmap":
        bm = {"alloc-and-zero": (1 << 3) | (1 << 35) | 0xF0, "all-ones": (1 << 64) - 1, "unalloc-with-alloc-bits": 0x0F}[case["bitmap"]]
        kind = "U" if case["bitmap"] == "unalloc-with-alloc-bits" else "N"
        img, _ = BQ.build([{"kind": kind, "sub": ["a" if kind == "N" else "u"] * 32}, {"kind": "N", "sub": ["a"] * 32}],
                          [1 if kind == "N" else None, 2], 14, 3, ext=True)
        raw = bytearray(img.tobytes())
        f = [x for x in img.fields if x[0] == "l2bitmap[0][0]"][0][1]
        struct.pack_into(">Q", raw, f, bm)
        return _execute(ctx, case, _seed("qcow2.extl2"), bytes(raw), subject, drv_qcow2, {})
    if what == "vmtar-pax-size-then-visor-offset-backwards":
        from mc.builders import vmtar as BT

        # a pax extended header carrying a size record, followed by a visor member whose recorded data offset points
        # backwards at an earlier header: a reader that derives "where the next header is" from the data offset goes round
        rec = b"size=0\n"
        body = b"%d %s" % (len(rec) + 3, rec)
        body = b"%d %s" % (len(b"%d %s" % (len(rec) + 2, rec)), rec) if len(body) != int(body.split(b" ")[0]) else body
        typ = case.get("typ", "x")
        pax = BT.hdr("PaxHeader/x", len(body), typ=typ[-1].encode(), visor=False) + BT.pad512(body)
        if typ.startswith("g+"):
            # the size record comes from a global header, the extended header in front of the member carries another record
            other = b"19 comment=verif-x\n"
            pax = BT.hdr("PaxHeader/g", len(body), typ=b"g", visor=False) + BT.pad512(body) + \
                BT.hdr("PaxHeader/x", len(other), typ=typ[-1].encode(), visor=False) + BT.pad512(other)
        first = BT.hdr("d/", 0, typ=b"5", mode=0o755)
        target = {"pax-header": 512, "first-header": 0x200 * 0 + 512 * 0 + 512, "own-header": 512 + len(pax)}[case["target"]]
        if case["target"] == "first-header":
            target = 512  # offset 0 would mean "no recorded offset": the earliest nameable header is the one at 512
            first = BT.hdr("d/", 0, typ=b"5", mode=0o755) + BT.hdr("e/", 0, typ=b"5", mode=0o755)
            target = 512
        vis = BT.hdr("d/file", 700, offset_data=target)
        raw = first + pax + vis + b"\0" * 1024 + b"D" * 1024
        return _execute(ctx, case, _seed("vmtar"), raw, subject, drv_vmtar, {})
    if what == "text-stress":
        import time as _time

        fmt = case["fmt"]
        chars = ["\\", '"', " ", "=", "#", "(", ")", ",", "/", ":", "%", "a", "\t", "."]
        runs = (24, 40, 200, 5000)
        shapes = ("ok", "unterminated", "extra-fields", "run-at-start", "run-at-end")

        def build(ch, n, shape):
            r = ch * n
            if fmt == "vmdk-extent":
                name = {"ok": f'"a{r}b.vmdk"', "unterminated": f'"a{r}b.vmdk', "extra-fields": f'"a{r}b.vmdk" 0 1 2 3 4 5',
                        "run-at-start": f'"{r}b.vmdk"', "run-at-end": f'"a{r}"'}[shape]
                return f"# Disk DescriptorFile\nversion=1\nCID=fffffffe\nparentCID=ffffffff\ncreateType=\"custom\"\nRW 16 FLAT {name}\n"
            if fmt == "vmdk-kv":
                v = {"ok": f'"{r}"', "unterminated": f'"{r}', "extra-fields": f'"{r}" "{r}"', "run-at-start": f'{r}"x"', "run-at-end": f'"x"{r}'}[shape]
                return f"# Disk DescriptorFile\nversion=1\nCID=fffffffe\nparentCID=ffffffff\nddb.x = {v}\nRW 16 FLAT \"a.vmdk\" 0\n"
            if fmt == "vmx":
                v = {"ok": f'k = "{r}"', "unterminated": f'k = "{r}', "extra-fields": f'k = "{r}" = "{r}"', "run-at-start": f'{r}k = "v"',
                     "run-at-end": f'k = "v"{r}'}[shape]
                return f'.encoding = "UTF-8"\n{v}\nscsi0:0.fileName = "a.vmdk"\n'
            if fmt == "keystore":
                v = {"ok": f"keyId=AAAA:data1=BBBB:data2=CCCC{r}:version=1", "unterminated": f"keyId=AAAA{r}", "extra-fields": f"keyId=AAAA:{r}:data1=B:data2=C",
                     "run-at-start": f"{r}keyId=AAAA:data1=BBBB:data2=CCCC", "run-at-end": f"keyId=AAAA:data1=BBBB:data2=CCCC:version=1{r}"}[shape]
                return f'mode = "NONE"\nConfigEncData = "{v}"\n'
            v = {"ok": f"vmware:key/list/(pair/(phrase/{r}/x,HMAC-SHA-1,AAAA))", "unterminated": f"vmware:key/list/(pair/(phrase/{r}",
                 "extra-fields": f"vmware:key/list/(pair/(phrase/a/b,c,d),{r},pair/(x))", "run-at-start": f"{r}vmware:key/list/(pair/(phrase/a/b,c,d))",
                 "run-at-end": f"vmware:key/list/(pair/(phrase/a/b,c,d)){r}"}[shape]
            return f'encryption.keySafe = "{v}"\nencryption.data = "AAAA"\n'

        def drive(text):
            if fmt.startswith("vmdk"):
                from dissect.hypervisor.disk.vmdk import DiskDescriptor

                return DiskDescriptor.parse(text)
            if fmt == "vmx":
                from dissect.hypervisor.descriptor.vmx import VMX

                return VMX.parse(text).disks()
            if fmt == "keystore":
                from dissect.hypervisor.util.envelope import KeyStore

                return KeyStore.from_text(text)
            from dissect.hypervisor.descriptor.vmx import VMX

            v = VMX.parse(text)
            return v.unlock_with_phrase("x")

        only = case.get("only")
        n = 0
        for ch in chars:
            for shape in shapes:
                for run in runs:
                    n += 1
                    if only is not None and only != n:
                        continue
                    text = build(ch, run, shape)
                    ctx.transitions += 1
                    ctx.states += 1
                    ctx.nontrivial += 1
                    sub = dict(case, only=n, char=ch, shape=shape, run=run)
                    t0 = _time.time()
                    with ctx.watch(sub, 20):
                        try:
                            drive(text)
                            ctx.outcome("returned")
                        except (Timeout, MemoryError):
                            raise
                        except Exception:
                            ctx.outcome("raised")
                    dt = _time.time() - t0
                    ctx.maxi("text_stress_ms", int(dt * 1000))
                    if dt > 5:
                        ctx.violation(sub, {"subject": subject, "kind": "superlinear-parse-time", "fmt": fmt},
                                      {"seconds": round(dt, 2), "input_bytes": len(text), "char": repr(ch), "shape": shape, "run": run})
                        return False
        return True
    if what == "qcow2-snapshot-count-x-entry-fields":
        seed = _seed("qcow2.snapshots")
        raw0 = seed["raw"]
        cnt = [f for f in seed["fields"] if f[0] == "header.nb_snapshots"][0]
        ent = [f for f in seed["fields"] if f[0].startswith("snapshot[0].")]
        assert len(ent) >= 5
        only = case.get("only")
        n = 0
        for count in (0xFFFFFFFF, 0x7FFFFFFF, 65536, 3):
            base = raw0[:cnt[1]] + struct.pack(">I", count) + raw0[cnt[1] + 4:]
            sub = dict(seed, raw=base, fields=ent)
            for name, off, val in _field_faults(sub):
                # plus the values that make id + name + extra data add up to 2^32 - 40 ... 2^32 (the entry size wraps)
                n += 1
                if only is not None and only != n:
                    continue
                data = base[:off] + val + base[off + len(val):]
                if not _execute(ctx, dict(case, only=n, fault=[count, name, val.hex()]), seed, data, subject, drv_qcow2, {}):
                    return False
            for name, off, w, en, role in ent:
                if w != 4:
                    continue
                for v in (0xFFFFFFD8, 0xFFFFFFD0, 0xFFFFFFE0, 0xFFFFFFF8, 0xFFFFFFC8, 0xFFFFFFD8 - 2, 0xFFFFFFD8 - 5, 0xFFFFFFD8 - 7):
                    n += 1
                    if only is not None and only != n:
                        continue
                    data = base[:off] + struct.pack(">I", v) + base[off + 4:]
                    if not _execute(ctx, dict(case, only=n, fault=[count, name, hex(v)]), seed, data, subject, drv_qcow2, {}):
                        return False
        return True
    if what == "vmtar-extension-headers":
        import itertools as _it

        from mc.builders import vmtar as BT

        typ, rec = case["typ"], case["rec"]

        def record(k, v):
            body = f" {k}={v}\n".encode()
            n = len(body) + 1
            while len(str(n)) + len(body) != n:
                n = len(str(n)) + len(body)
            return str(n).encode() + body

        if typ in "LK":
            payload = ("long/" + "n" * 140 + "/name").encode() + b"\0"
            ext = BT.hdr("././@LongLink", len(payload), typ=typ.encode(), visor=False) + BT.pad512(payload)
        else:
            payload = {"path": record("path", "p/" + "q" * 130), "size": record("size", "513"), "comment": record("comment", "c")}[rec]
            ext = BT.hdr("././@PaxHeader", len(payload), typ=typ.encode(), visor=False) + BT.pad512(payload)
        kinds = {
            "vfile": lambda i, off: BT.hdr(f"m{i}", 513, offset_data=off),
            "vdir": lambda i, off: BT.hdr(f"m{i}/", 0, typ=b"5", mode=0o755),
            "vempty": lambda i, off: BT.hdr(f"m{i}", 0),
            "ufile": lambda i, off: BT.hdr(f"m{i}", 513, visor=False) + BT.pad512(b"U" * 513),
        }
        ok = True
        only = case.get("only")
        n = 0
        # sequences of three members with the extension header in front of the 1st, 2nd or 3rd
        for seq in _it.product(kinds, repeat=3):
            for pos in (0, 1, 2):
                n += 1
                if only is not None and only != n:
                    continue
                heads = b""
                for i, k in enumerate(seq):
                    if i == pos:
                        heads += ext
                    heads += kinds[k](i, 0x4000 + 0x1000 * i)
                raw = (heads + b"\0" * 1024).ljust(0x4000, b"\0") + b"D" * 0x3000
                if not _execute(ctx, dict(case, only=n, seq=list(seq), pos=pos), _seed("vmtar"), raw, subject, drv_vmtar, {}):
                    return False
        return ok
    if what == "vmdk-parent-chain-cycle":
        depth = case["depth"]

        def drv(files):
            from dissect.hypervisor.disk.vmdk import VMDK

            with scratch_dir() as d:
                for fn, data in files.items():
                    with open(os.path.join(d, fn), "wb") as f:
                        f.write(data)
                v = VMDK(Path(d) / "l0.vmdk")
                return _drive_stream(v, v.read_sectors)

        files = {}
        for k in range(depth):
            files[f"l{k}-s001.vmdk"] = BM.build_hosted([HOLE, DATA], [None, 0], 8, 512, 16, layer=k + 1).tobytes()
            files[f"l{k}.vmdk"] = BM.descriptor_text("monolithicSparse", [("RW", 16, "SPARSE", f"l{k}-s001.vmdk", None)],
                                                     cid=f"{k + 1:08x}", parent_cid=f"{(k + 1) % depth + 1:08x}",
                                                     parent_hint=f"l{(k + 1) % depth}.vmdk").encode()
        return _execute(ctx, case, None, files, subject, drv, {}, sum(len(v) for v in files.values()))
    if what == "vhdx-parent-chain-cycle":
        # a -> b -> ... -> a, every image names its parent by a relative path and (both_paths) also by an absolute path
        # that exists: the walk must end (in an error) after a number of opens linear in the chain, whatever is tried first
        from mc.builders import vhdx as BX

        depth, both = case["depth"], case["both_paths"]

        def drv(_):
            from dissect.hypervisor.disk.vhdx import VHDX

            with scratch_dir() as d:
                for k in range(depth):
                    nxt = f"l{(k + 1) % depth}.vhdx"
                    loc = [("relative_path", ".\\" + nxt), ("parent_linkage", "{x}")]
                    if both:
                        loc.append(("absolute_win32_path", (d.lstrip("/") + "/" + nxt).replace("/", "\\")))
                    BX.build([0, DATA], [None, 0], layer=k + 1, parent=loc).write_to(os.path.join(d, f"l{k}.vhdx"))
                v = VHDX(Path(d) / "l0.vhdx")
                return _drive_stream(v, v.read_sectors)

        return _execute(ctx, case, None, None, subject, drv, {}, depth * (8 << 20))
    if what == "vmdk-zero-sector-extent":
        # an extent that declares no sectors at all (in front of, between, behind the others, or alone): reads end
        where, how = case["where"], case["how"]
        full = BM.build_hosted([DATA, HOLE], [0, None], 8, 512, 16, layer=1).tobytes()
        empty = BM.build_hosted([], [], 8, 512, 0, layer=2).tobytes()
        seq = {"first": [empty, full, full], "middle": [full, empty, full], "last": [full, full, empty], "only": [empty]}[where]

        def drv(parts):
            from dissect.hypervisor.disk.vmdk import VMDK

            if how == "handles":
                v = VMDK([io.BytesIO(p) for p in parts])
                return _drive_stream(v, v.read_sectors)
            with scratch_dir() as d:
                lines = []
                for j, p in enumerate(parts):
                    with open(os.path.join(d, f"e-s{j + 1:03d}.vmdk"), "wb") as f:
                        f.write(p)
                    lines.append(("RW", 0 if p is empty else 16, "SPARSE", f"e-s{j + 1:03d}.vmdk", None))
                with open(os.path.join(d, "e.vmdk"), "w") as f:
                    f.write(BM.descriptor_text("twoGbMaxExtentSparse", lines))
                v = VMDK(Path(d) / "e.vmdk")
                return _drive_stream(v, v.read_sectors)

        return _execute(ctx, case, None, seq, subject, drv, {}, sum(len(p) for p in seq))
    if what == "repeated-open-retains-memory":
        # one process opens, reads and drops the same image 300 times: what stays allocated afterwards does not grow with the
        # number of images that have been opened (module / class level containers that only ever grow)
        import gc

        from mc.builders import qcow2 as BQ
        from mc.builders import vhdx as BX

        fmt = case["fmt"]
        if fmt == "qcow2-unknown-extension":
            raw = BQ.build(["N", "U"], [0, None], 16, 3, extensions=[(0x7FAB1E55, bytes(range(256)) * 150)])[0].tobytes()
            drv = drv_qcow2
        elif fmt == "vmdk":
            raw, drv = _seed("vmdk.embedded_descriptor")["raw"], drv_vmdk
        elif fmt == "vhdx":
            raw, drv = _seed("vhdx.dynamic")["raw"], drv_vhdx
        elif fmt == "hyperv":
            raw, drv = _seed("hyperv")["raw"], drv_hyperv
        else:
            raw, drv = _seed("vmtar")["raw"], drv_vmtar
        ctx.transitions += 1
        ctx.states += 1
        ctx.nontrivial += 1
        with ctx.watch(case, 300):
            for _ in range(3):
                drv(raw)  # warm-up: caches that fill once are not growth
            gc.collect()
            tracemalloc.start(1)
            try:
                base = tracemalloc.get_traced_memory()[0]
                for _ in range(300):
                    drv(raw)
                gc.collect()
                kept = tracemalloc.get_traced_memory()[0] - base
            finally:
                tracemalloc.stop()
        allow = 2 * len(raw) + (1 << 20)
        ctx.maxi("retained_after_300_opens_over_allowance_permille", int(1000 * max(0, kept) / allow))
        if kept > allow:
            ctx.violation(case, {"subject": subject, "kind": "memory-grows-with-number-of-opens", "fmt": fmt},
                          {"retained_bytes": kept, "allowance": allow, "input_bytes": len(raw), "opens": 300})
            return False
        ctx.outcome("returned")
        return True
    if what == "qcow2-extension-length-x-far-end-bound":
        # two header fields together: the backing-file offset (the end bound of the extension area) far beyond the file, and an
        # area filled with extension headers whose length rounds up to 0 modulo 2^32 (0xFFFFFFF9 ..) or to a huge value
        from mc.builders import qcow2 as BQ

        raw = bytearray(BQ.build(["N", "U"], [0, None], 16, 3)[0].tobytes())
        hl = struct.unpack(">I", raw[100:104])[0]
        struct.pack_into(">Q", raw, 8, 1 << 62)
        hdr = struct.pack(">II", 0x7FAB1E55, case["len"])
        raw[hl:hl + case["fill"]] = hdr * (case["fill"] // 8)
        return _execute(ctx, case, None, bytes(raw), subject, drv_qcow2, {"backing": True}, len(raw))
    if what == "vmdk-descriptor-chain-embedded-parents":
        # a valid chain: every level is a text descriptor with two sparse extents, and every extent file also carries an embedded
        # descriptor naming the level below.  The work to open it and read a little is linear in the number of files
        depth = case["depth"]

        def drv(files):
            from dissect.hypervisor.disk.vmdk import VMDK

            with scratch_dir() as d:
                for fn, data in files.items():
                    with open(os.path.join(d, fn), "wb") as f:
                        f.write(data)
                v = VMDK(Path(d) / f"l{depth - 1}.vmdk")
                return _drive_stream(v, v.read_sectors)

        files = {}
        for k in range(depth):
            pcid = f"{k:08x}" if k else "ffffffff"
            hint = f"l{k - 1}.vmdk" if k else None
            ext = [("RW", 16, "SPARSE", f"l{k}-s{j + 1:03d}.vmdk", None) for j in range(2)]
            for j in range(2):
                emb = BM.descriptor_text("twoGbMaxExtentSparse", ext, cid=f"{k + 1:08x}", parent_cid=pcid, parent_hint=hint)
                files[ext[j][3]] = BM.build_hosted([HOLE, DATA] if (k + j) % 2 else [DATA, HOLE], [None, 0] if (k + j) % 2 else [0, None],
                                                   8, 512, 16, layer=k + 1, descriptor=emb).tobytes()
            files[f"l{k}.vmdk"] = BM.descriptor_text("twoGbMaxExtentSparse", ext, cid=f"{k + 1:08x}", parent_cid=pcid,
                                                     parent_hint=hint).encode()
        return _execute(ctx, case, None, files, subject, drv, {}, sum(len(v) for v in files.values()))
    if what == "tiny-unit-large-read":
        # 512-byte allocation units, one request over n / 4 of them and one over n: the step budget bounds the interpreter's
        # work, the processor time of the two requests bounds the work hidden in single steps (copies that grow with what has
        # been read so far).  Four times the request may cost about four times the time; a request that is both slow (> 6 s of
        # processor time, the unchanged library needs well under a second) and more than 7 x its quarter is not linear
        import time

        from mc.builders import hdd as BH
        from mc.builders import qcow2 as BQ
        from mc.builders import vdi as BV
        from mc.builders import vhd as BVHD

        fmt, alloc = case["fmt"], case["alloc"]
        n = 16384
        st = [DATA if alloc == "data" else HOLE] * n
        sl = list(range(n)) if alloc == "data" else [None] * n
        if fmt == "vdi":
            raw, mk = BV.build(st, sl, 512, tail_slack=False).tobytes(), lambda r: __import__("dissect.hypervisor.disk.vdi", fromlist=["VDI"]).VDI(io.BytesIO(r))
        elif fmt == "vhd":
            raw, mk = BVHD.build_dynamic(st, sl, 1).tobytes(), lambda r: __import__("dissect.hypervisor.disk.vhd", fromlist=["VHD"]).VHD(io.BytesIO(r))
        elif fmt == "hds2":
            raw, mk = BH.build_hds(st, [None if x is None else x + 400 for x in sl], 1, 2, tail_slack=False).tobytes(), lambda r: __import__("dissect.hypervisor.disk.hdd", fromlist=["HDS"]).HDS(io.BytesIO(r))
        elif fmt == "vmdk":
            raw, mk = BM.build_hosted(st, sl, 1, 512).tobytes(), lambda r: __import__("dissect.hypervisor.disk.vmdk", fromlist=["VMDK"]).VMDK(io.BytesIO(r))
        else:
            raw = BQ.build(["N" if alloc == "data" else "U"] * n, sl, 9, 3)[0].tobytes()
            mk = lambda r: __import__("dissect.hypervisor.disk.qcow2", fromlist=["QCow2"]).QCow2(io.BytesIO(r))  # noqa: E731
        times = {}

        def drv(r):
            v = mk(r)
            out = 0
            for part in (4, 1):
                v.seek(0)
                t0 = time.process_time()
                out += len(v.read(n * 512 // part))
                times[part] = time.process_time() - t0
            return out

        ok = _execute(ctx, case, None, raw, subject, drv, {}, len(raw) + n * 512)
        if ok and times.get(1) is not None:
            ctx.maxi("tiny_unit_full_over_quarter_time_permille", int(1000 * times[1] / max(times[4], 1e-3)))
            if times[1] > 6.0 and times[1] > 7 * times[4]:
                ctx.violation(case, {"subject": subject, "kind": "time-not-linear-in-request"},
                              {"quarter_request_s": round(times[4], 2), "full_request_s": round(times[1], 2), "units": n})
                return False
        return ok
    if what == "hyperv-object-fanout":
        # many object-table entries that all name the same key table (or replay log): the work to open the file does not grow
        # with (references x size of what they name)
        from mc.builders import hyperv as BHV

        refs, typ = case["refs"], case["type"]
        tsize = 0x20000
        buf = bytearray(0x20000)
        buf[0:0x30] = BHV.header(7, 0x8000).ljust(0x30, b"\0")[:0x30]
        buf[0x1000:0x1030] = BHV.header(6, 0x8000).ljust(0x30, b"\0")[:0x30]
        rl = BHV.replay()
        buf[0x8000:0x8000 + len(rl)] = rl
        ents = [(6, 0x8000, 0x1000, 1)] + [((2, 0x20000, tsize, 1) if typ == "key-table" else (6, 0x8000, 0x1000, 1))] * refs
        if typ == "replay-log":
            ents.append((2, 0x20000, tsize, 1))
        big = None
        if typ == "key-table-many-small":
            big = 16 * refs
            ents = [(6, 0x8000, 0x1000, 1)] + [(2, 0x80000 + 16 * j, 10, 1) for j in range(refs)]
        if typ == "key-table-overlapping":
            # table j starts j x 0x1000 into one 2 MiB area and claims everything up to the end of the file
            big = 2 << 20
            ents = [(6, 0x8000, 0x1000, 1)] + [(2, 0x20000 + 0x1000 * j, big - 0x1000 * j, 1) for j in range(refs)]
        ot = BHV.objtable(ents, n=len(ents) + 2)
        if typ == "key-table-many-small":
            buf = bytearray(0x80000)
            buf[0:0x30] = BHV.header(7, 0x8000).ljust(0x30, b"\0")[:0x30]
            buf[0x1000:0x1030] = BHV.header(6, 0x8000).ljust(0x30, b"\0")[:0x30]
            buf[0x8000:0x8000 + len(rl)] = rl
            assert 0x9000 + len(ot) <= 0x80000
            # (the object table is larger than the gap in front of the replay log: it lives behind it, named by the first table)
            first = BHV.objtable([(1, 0x9000, len(ot), 1)], n=4)
            buf[0x2000:0x2000 + len(first)] = first
            buf[0x9000:0x9000 + len(ot)] = ot
            area = bytearray(big)
            for j in range(refs):
                area[16 * j:16 * j + 10] = struct.pack("<HHHI", 2, j + 1, 5, 0)
            raw = bytes(buf) + bytes(area)
            return _execute(ctx, case, None, raw, subject, drv_hyperv, {}, len(raw))
        assert 0x2000 + len(ot) <= 0x8000
        buf[0x2000:0x2000 + len(ot)] = ot
        body = struct.pack("<HHHI", 2, 1, 5, 0)
        ent = struct.pack(BHV.ENT, BHV.T_FREE, 21, 0, 0, 0, 0, 0)
        body += ent * ((tsize - len(body)) // len(ent) - 1)
        raw = bytes(buf) + body.ljust(tsize, b"\0")
        if big:
            area = bytearray(big)
            for j in range(refs):
                # a table header + one free entry that spans the rest of this table's 4 KiB step, then the next table begins
                hdr_ = struct.pack("<HHHI", 2, j + 1, 5, 0) + struct.pack(BHV.ENT, BHV.T_FREE, 0x1000 - 10, 0, 0, 0, 0, 0)
                area[0x1000 * j:0x1000 * j + len(hdr_)] = hdr_
            raw = bytes(buf) + bytes(area)
            return _execute(ctx, case, None, raw, subject, drv_hyperv, {}, len(raw))
        return _execute(ctx, case, None, raw, subject, drv_hyperv, {}, (len(raw) // 21) * 512)
    if what == "vhdx-locator-overlapping-strings":
        # a parent locator whose entries all point into one text area (strings 2 bytes apart, 65534 bytes long each): what is
        # decoded and kept is bounded by the input, not by entries x 128 KiB
        from mc.builders import vhdx as BX

        pairs = case["pairs"]
        img = BX.build([DATA, 0], [0, None], layer=2, parent=[("relative_path", ".\\base.vhdx"), ("parent_linkage", "{x}")])
        raw = bytearray(img.tobytes())
        loc = [f for f in img.fields if f[0] == "parent_locator.type"][0][1]
        hdr_len = 20
        table = hdr_len + 12 * pairs
        text_at = (table + 511) // 512 * 512
        area = 140000
        struct.pack_into("<H", raw, loc + 18, pairs)
        for i in range(pairs):
            struct.pack_into("<IIHH", raw, loc + hdr_len + 12 * i, text_at + 2 * i, text_at + 2 * i + 4096, 65534, 65534)
        need = loc + text_at + area
        if len(raw) < need:
            raw += bytes(need - len(raw))
        text = "".join(f"{i:06x}-" for i in range(area // 14 + 1)).encode("utf-16-le")[:area]  # no two offsets read alike
        raw[loc + text_at:loc + text_at + area] = text
        if case.get("region_length"):
            for nm in ("regi1", "regi2"):
                for i_ in range(2):
                    g_ = [f for f in img.fields if f[0] == f"{nm}.entry{i_}.guid"][0][1]
                    if bytes(raw[g_:g_ + 16]) == BX.G("8B7CA206-4790-4B9A-B8FE-575F050F886E"):
                        struct.pack_into("<I", raw, [f for f in img.fields if f[0] == f"{nm}.entry{i_}.length"][0][1], case["region_length"])
        if not case["has_parent"]:
            fp = [f for f in img.fields if f[0] == "file_parameters.flags"]
            if fp:
                raw[fp[0][1]] &= ~2 & 0xFF
        return _execute(ctx, case, None, bytes(raw), subject, drv_vhdx, {}, len(raw))
    if what == "hyperv-large-key-table":
        # one key table of 512 KiB and one of 2 MiB, both filled with minimal entries (Free entries of 21 bytes / Int entries
        # under one node): decoding four times the table may cost about four times the processor time (same rule as above)
        import time

        from mc.builders import hyperv as BHV

        def build(table_size):
            buf = bytearray(0x10000)
            buf[0:0x30] = BHV.header(7, 0x8000).ljust(0x30, b"\0")[:0x30]
            buf[0x1000:0x1030] = BHV.header(6, 0x8000).ljust(0x30, b"\0")[:0x30]
            rl = BHV.replay()
            buf[0x8000:0x8000 + len(rl)] = rl
            ot = BHV.objtable([(6, 0x8000, 0x1000, 1), (2, 0x10000, table_size, 1)])
            buf[0x2000:0x2000 + len(ot)] = ot
            body = struct.pack("<HHHI", 2, 1, 5, 0)
            if case["fill"] == "free":
                ent = struct.pack(BHV.ENT, BHV.T_FREE, 21, 0, 0, 0, 0, 0)
                body += ent * ((table_size - len(body)) // len(ent) - 1)
            else:
                root = struct.pack(BHV.ENT, BHV.T_NODE, 21 + 2 + 12, 0, 0, 0, 0, 2) + b"c\0" + struct.pack("<QI", 0, 0)
                root_off = len(body)
                body += root
                i = 0
                while len(body) + 40 < table_size:
                    key = f"k{i:06x}".encode() + b"\0"
                    body += struct.pack(BHV.ENT, BHV.T_INT, 21 + len(key) + 8, 1, root_off, 0, i, len(key)) + key + struct.pack("<q", i)
                    i += 1
            return bytes(buf) + body.ljust(table_size, b"\0")

        times = {}
        raws = {part: build((2 << 20) // part) for part in (4, 1)}

        def drv(_):
            from dissect.hypervisor.descriptor.hyperv import HyperVFile

            out = 0
            for part in (4, 1):
                t0 = time.process_time()
                f = HyperVFile(io.BytesIO(raws[part]))
                out += len(f.as_dict())
                times[part] = time.process_time() - t0
            return out

        # every entry becomes a few Python objects (about 1 KiB for a 21-byte entry): linear, with a large constant -- the
        # allowance follows the number of entries; what this family decides is the time rule below
        ok = _execute(ctx, case, None, raws[1], subject, drv, {}, ((len(raws[1]) + len(raws[4])) // 21) * 512)
        if ok:
            # the two decodes once more without the step and memory meters (their per-step cost is linear and would blur the
            # ratio): four times the table may cost about four times the processor time
            with ctx.watch(case, 600):
                drv(None)
        if ok and times.get(1) is not None:
            ctx.maxi("hyperv_table_full_s_x1000", int(1000 * times[1]))
            ctx.maxi("hyperv_table_full_over_quarter_time_permille", int(1000 * times[1] / max(times[4], 1e-3)))
            if times[1] > 3.0 and times[1] > 5.5 * times[4]:
                ctx.violation(case, {"subject": subject, "kind": "time-not-linear-in-input"},
                              {"quarter_table_s": round(times[4], 2), "full_table_s": round(times[1], 2), "table_bytes": 2 << 20})
                return False
        return ok
    if what == "huge-unit-small-read":
        # the allocation unit is 128 MiB, the disk 1 GiB, nothing is allocated: the file is a few KiB and the reads are a few
        # KiB, so the cost may not follow the unit size the header declares
        from mc.builders import hdd as BH
        from mc.builders import vdi as BV
        from mc.builders import vhd as BVHD
        from mc.builders import vhdx as BX

        fmt = case["fmt"]
        U = 128 << 20
        n = 8

        def compact(img, tail=0):
            # the builders leave one unit of slack behind the metadata; cut it off (nothing is allocated), keeping a footer
            sp = img.sparse(log=False)
            end = max(off + ln for off, kind, pl, ln in img.ext if kind == 0 and off + ln <= img.size - tail)
            return sp.peek_at(0, end) + (sp.peek_at(img.size - tail, tail) if tail else b"")

        if fmt == "vdi":
            raw, drv = BV.build([HOLE] * n, [None] * n, U, tail_slack=False).tobytes(), drv_vdi
        elif fmt == "vhd":
            raw, drv = compact(BVHD.build_dynamic([HOLE] * n, [None] * n, U // 512), 512), drv_vhd
        elif fmt in ("hds1", "hds2"):
            raw, drv = BH.build_hds([HOLE] * n, [None] * n, U // 512, int(fmt[3]), tail_slack=False).tobytes(), drv_hds
        elif fmt == "vmdk":
            raw, drv = compact(BM.build_hosted([HOLE] * n, [None] * n, U // 512, 512, data_base=64)), drv_vmdk
        else:
            raw, drv = compact(BX.build([0] * n, [None] * n, block_size=U)), drv_vhdx
        assert len(raw) < (8 << 20), len(raw)
        return _execute(ctx, case, None, raw, subject, drv, {}, len(raw))
    raise ValueError(what)
