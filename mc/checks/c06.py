"""C06 -- Parallels HDS/HDD read correctness.   Shape A (input-space product)."""
from __future__ import annotations

import os
from pathlib import Path

from mc import bootstrap, pattern
from mc.builders import hdd as B
from mc.diskcheck import compare_reads, sliced, unit_sources, window_models
from mc.models import DATA, HOLE, RawDisk, boundaries, request_pairs
from mc.scratch import scratch_dir

PROPERTY = "C06"
LEVEL = "model_checking"
TECHNIQUE = "explicit-state bounded-exhaustive exploration of the real reader against a reference disk model"
RULE = ("full product: HDS version {1,2} x sectors-per-cluster x size form x every assignment of {hole,data} to a "
        "W-cluster window x every injective placement of the data clusters into file slots 1..W+1 (slot p = file offset "
        "p*cluster, so every coincidence 'file offset == length of the preceding sparse run' is in the family) x v1 "
        "sector skew x every request (a,b), a<=b in B(S); plus plain and expanding images opened through HDD(path).open(). "
        "non-trivial = request touching >= 2 clusters that differ in state or are not stored adjacently ascending")
ASSUMPTIONS = [
    "HDS layout per QEMU docs/interop/parallels.txt as transcribed in mc/builders/hdd.py; BAT entry 0 = unallocated",
    "v1 BAT entries are sector numbers (need not be cluster multiples), v2 entries are cluster numbers",
    "cluster sizes are any number of sectors (powers of two and e.g. 63); virtual size may be fewer sectors than clusters x "
    "cluster size",
]
ALPHABET = "cluster state {H, D(slot)}; slots 1..W+1; version; sectors per cluster; v1 skew; size cut"
BOUND = {"quick": "W=4 (one geometry W=5), buffers {512, 8192}", "thorough": "W=5/6, buffers {512, 4096, 8192, 65536}"}
EXPECT_OUTCOMES = ["data@L1", "zero-below-base", "data@L1+zero-below-base", "raw"]

GEOMS = {
    "quick": [
        dict(ver=2, spc=8, W=4, cut=0, skew=0),
        dict(ver=2, spc=16, W=5, cut=3, skew=0),
        dict(ver=1, spc=8, W=4, cut=1, skew=0),
        dict(ver=1, spc=2, W=4, cut=0, skew=1),
        dict(ver=2, spc=1, W=4, cut=0, skew=0),
        dict(ver=1, spc=32, W=4, cut=5, skew=7),
        dict(ver=2, spc=2048, W=3, cut=9, skew=0, big=True),
        # cluster sizes that are not powers of two (classic version-1 images use 63 sectors per track)
        dict(ver=1, spc=63, W=3, cut=5, skew=0),
        dict(ver=2, spc=3, W=4, cut=1, skew=0),
        dict(ver=1, spc=12, W=3, cut=0, skew=5),
        # a window deep inside the BAT
        dict(ver=2, spc=8, W=3, cut=3, skew=0, at=1022),
        # BATs that end exactly on a sector boundary (112 + 128k entries) with the first cluster stored directly behind them
        dict(ver=2, spc=1, W=3, cut=0, skew=0, at=109, tight=True),
        dict(ver=1, spc=4, W=3, cut=1, skew=0, at=237, tight=True),
        dict(ver=1, spc=1, W=3, cut=0, skew=0, at=365, tight=True),
        # windows beyond 16384 / 65536 BAT entries (page and chunk sizes of table readers)
        dict(ver=2, spc=8, W=3, cut=0, skew=0, at=16383),
        dict(ver=1, spc=3, W=3, cut=1, skew=0, at=65535),
        # BAT entries around 2^31 (v1: sectors, the cluster lies at the 1 TiB mark; v2: cluster numbers) and near 2^32
        dict(ver=1, spc=2048, W=3, cut=9, skew=0, big=True, slot_off=(1 << 20) - 3),
        dict(ver=2, spc=8, W=3, cut=1, skew=0, big=True, slot_off=(1 << 31) - 3),
        dict(ver=2, spc=1, W=3, cut=0, skew=0, big=True, slot_off=(1 << 32) - 6),
    ],
    "thorough": [
        dict(ver=1, spc=63, W=4, cut=5, skew=1),
        dict(ver=2, spc=63, W=4, cut=0, skew=0),
        dict(ver=2, spc=5, W=5, cut=2, skew=0),
        dict(ver=2, spc=8, W=4, cut=3, skew=0, at=4093),
        dict(ver=2, spc=8, W=6, cut=0, skew=0),
        dict(ver=2, spc=16, W=5, cut=3, skew=0),
        dict(ver=1, spc=8, W=5, cut=1, skew=0),
        dict(ver=1, spc=2, W=5, cut=0, skew=1),
        dict(ver=2, spc=1, W=5, cut=0, skew=0),
        dict(ver=2, spc=2, W=5, cut=1, skew=0),
        dict(ver=1, spc=32, W=5, cut=5, skew=7),
        dict(ver=1, spc=16, W=5, cut=0, skew=15),
        dict(ver=2, spc=2048, W=4, cut=9, skew=0, big=True),
        dict(ver=1, spc=2048, W=4, cut=2047, skew=3, big=True),
    ],
}
BUFS = {"quick": [512, 8192], "thorough": [512, 4096, 8192, 65536]}
SLICES = {"quick": 3, "thorough": 16}
GUID = B.DEFAULT_TOP


def shards(tier):
    out = []
    for buf in BUFS[tier]:
        for g in GEOMS[tier]:
            k = SLICES[tier] * (4 if g["W"] >= 5 else 1)
            for i in range(k):
                out.append({"buf": buf, "kind": "hds", "geom": g, "slice": [i, k]})
        out.append({"buf": buf, "kind": "hdd", "W": 3 if tier == "quick" else 4})
    return out


def _requests(g, size, buf):
    cl = g["spc"] * 512
    at = g.get("at", 0)
    pts = boundaries(size, cl, buf, max(0, (at - 1) * cl), size) if at else boundaries(size, cl, buf)
    if g.get("big"):
        reqs = request_pairs(pts, 2 * buf + 1024)
        reqs += [(0, size), (0, 2 * cl), (cl // 2, 2 * cl), (cl - 512, cl + 1024), (cl, size), (1, size - 2)]
        return reqs
    return request_pairs(pts)


def run_shard(shard, ctx):
    if shard["kind"] == "hds":
        g = shard["geom"]
        i, k = shard["slice"]
        W = g["W"]
        for states, slots in sliced(window_models([HOLE, DATA], W, W + 1, 1), i, k):
            run_case({"kind": "hds", "geom": g, "states": states, "slots": slots}, ctx)
    else:
        W = shard["W"]
        for ver, spc, cut in ((2, 8, 0), (1, 4, 3)):
            for states, slots in window_models([HOLE, DATA], W, W + 1, 1):
                run_case({"kind": "hdd", "type": "Compressed", "ver": ver, "spc": spc, "cut": cut, "states": states,
                          "slots": slots}, ctx)
        for sectors in (1, 15, 16, 17, 40):
            run_case({"kind": "hdd", "type": "Plain", "sectors": sectors}, ctx)
        # plain images whose guest data begins with the header of an expanding image (a raw .hds copy stored in the guest)
        for ver in (1, 2):
            run_case({"kind": "hdd", "type": "Plain", "sectors": 40, "nested": ver}, ctx)


def run_case(case, ctx):
    if case["kind"] == "hds":
        return _case_hds(case, ctx)
    return _case_hdd(case, ctx)


def _case_hds(case, ctx):
    from dissect.hypervisor.disk.hdd import HDS

    g = case["geom"]
    at = g.get("at", 0)
    first = (64 + 4 * (at + len(case["states"]))) // (g["spc"] * 512) + 1 if at else 0
    if g.get("tight"):
        cl_ = g["spc"] * 512
        first = (64 + 4 * (at + len(case["states"])) + cl_ - 1) // cl_ - 1  # slot 1 is the first whole cluster behind the BAT
    states = [HOLE] * at + list(case["states"])
    slots = [None] * at + [p + first + g.get("slot_off", 0) if p is not None else None for p in case["slots"]]
    spc = g["spc"]
    nsec = len(states) * spc - g["cut"]
    size = nsec * 512
    buf = bootstrap.bufsize()
    img = B.build_hds(states, slots, spc, g["ver"], nsec, skew=g["skew"], tail_slack=not g.get("slot_off"))
    disk = B.model_hds(states, spc, nsec)
    ctx.model([g, states, slots])
    ctx.executions += 1
    ctx.sample(case)
    reqs = [tuple(r) for r in case["requests"]] if "requests" in case else _requests(g, size, buf)
    with ctx.watch(case):
        fh = img.sparse(log=False) if g.get("big") else img.bytesio()
        try:
            s = HDS(fh)
        except Exception as e:
            ctx.violation(case, {"subject": "hds.open", "kind": "exception", "exc": type(e).__name__},
                          {"exception": repr(e)[:300]})
            return
        if s.size != size:
            ctx.violation(case, {"subject": "hds.size", "kind": "mismatch"}, {"got": s.size, "expected": size})
            return
        if not g.get("big"):
            disk.materialize()
        compare_reads(ctx, case, s, disk, reqs, f"hds.v{g['ver']}.read", states, slots, spc * 512,
                      unit_sources(disk, len(states)))


def _case_hdd(case, ctx):
    from dissect.hypervisor.disk.hdd import HDD

    buf = bootstrap.bufsize()
    ctx.executions += 1
    ctx.model(case)
    ctx.sample(case)
    with scratch_dir() as d:
        hd = os.path.join(d, "verif.hdd")
        os.mkdir(hd)
        fn = f"verif.hdd.0.{GUID}.hds"
        if case["type"] == "Plain":
            nsec = case["sectors"]
            data = pattern.sectors(1, 0, nsec)
            if case.get("nested"):
                inner = B.build_hds([DATA, HOLE, DATA], [1, None, 2], 8, case["nested"], 24, layer=7).tobytes()[: nsec * 512]
                data = inner + data[len(inner):]
            with open(os.path.join(hd, fn), "wb") as f:
                f.write(data)
            disk = RawDisk(data)
            states = slots = None
            unit = 512
            srcs = None
        else:
            states, slots, spc = case["states"], case["slots"], case["spc"]
            nsec = len(states) * spc - case["cut"]
            B.build_hds(states, slots, spc, case["ver"], nsec).write_to(os.path.join(hd, fn))
            disk = B.model_hds(states, spc, nsec)
            disk.materialize()
            unit = spc * 512
            srcs = unit_sources(disk, len(states))
        with open(os.path.join(hd, "DiskDescriptor.xml"), "w") as f:
            f.write(B.descriptor_xml(nsec, [(0, nsec, [(GUID, case["type"], fn)])], [(GUID, B.NULL_GUID)]))
        open(os.path.join(hd, "verif.hdd"), "wb").close()
        size = nsec * 512
        reqs = ([tuple(r) for r in case["requests"]] if "requests" in case
                else request_pairs(boundaries(size, unit, buf)))
        with ctx.watch(case):
            try:
                stream = HDD(Path(hd)).open()
            except Exception as e:
                ctx.violation(case, {"subject": "hdd.open", "kind": "exception", "exc": type(e).__name__,
                                     "type": case["type"]}, {"exception": repr(e)[:300]})
                return
            try:
                if stream.size != size:
                    ctx.violation(case, {"subject": "hdd.size", "kind": "mismatch"},
                                  {"got": stream.size, "expected": size})
                    return
                if srcs is None:
                    ctx.outcome("raw", len(reqs))
                    ctx.nontrivial += 1
                compare_reads(ctx, case, stream, disk, reqs, f"hdd.{case['type']}.read", states, slots, unit, srcs)
            finally:
                for _, st in getattr(stream, "streams", []):
                    for o in (st, getattr(st, "fh", None)):
                        try:
                            o.close()
                        except Exception:
                            pass
