"""Shared pieces of the read-correctness checks (C01-C07, C10, C13): model enumeration and the compare loop."""
from __future__ import annotations

import itertools

from mc.models import DATA

PREFIX = 24  # bytes of expected/observed kept in reports (hex)


def placements(states, nslots, first_slot=0, placed=(DATA,)):
    """Every injective placement of the DATA units of `states` into slots first_slot .. first_slot+nslots-1."""
    idx = [i for i, s in enumerate(states) if s in placed]
    for perm in itertools.permutations(range(first_slot, first_slot + nslots), len(idx)):
        slots = [None] * len(states)
        for i, p in zip(idx, perm):
            slots[i] = p
        yield slots


def window_models(alphabet, width, nslots, first_slot=0, placed=(DATA,)):
    """Full product: every state assignment x every injective placement of its DATA units."""
    for states in itertools.product(alphabet, repeat=width):
        for slots in placements(states, nslots, first_slot, placed):
            yield list(states), slots


def sliced(iterable, i, k):
    for n, x in enumerate(iterable):
        if n % k == i:
            yield x


def unit_sources(disk, nunits):
    return [disk.source(u * disk.unit) for u in range(nunits)]


def is_nontrivial(u0, u1, states, slots):
    """>= 2 units touched, and they differ in state or are not physically adjacent in ascending order."""
    if u1 <= u0:
        return False
    for u in range(u0, u1):
        if u + 1 >= len(states):
            return True
        if states[u] != states[u + 1]:
            return True
        if slots[u] is not None and slots[u + 1] != slots[u] + 1:
            return True
    return False


def describe_mismatch(got, exp, base=0):
    from mc import pattern

    n = min(len(got), len(exp))
    first = next((i for i in range(n) if got[i] != exp[i]), n)
    return {
        "len_got": len(got),
        "len_expected": len(exp),
        "first_diff": first,
        "got_at_diff": got[first : first + PREFIX].hex(),
        "expected_at_diff": exp[first : first + PREFIX].hex(),
        "got_sectors": pattern.describe(got[max(0, first - (base + first) % 512) :]),
        "expected_sectors": pattern.describe(exp[max(0, first - (base + first) % 512) :]),
    }


def compare_reads(ctx, case, stream, disk, requests, subject, states=None, slots=None, unit=None, srcs=None,
                  via="seek+read"):
    """seek(a); read(n) for every (a, n) in requests, compared with the reference model.  Returns False on violation."""
    ok = True
    unit = unit or getattr(disk, "unit", None) or 512
    size = disk.size
    for a, n in requests:
        ctx.transitions += 1
        ctx.states += 1
        exp = disk.content(a, n)
        try:
            stream.seek(a)
            got = stream.read(n)
            exc = None
        except Exception as e:  # the library raised on a well-formed input
            got = None
            exc = e
        if states is not None:
            u0 = a // unit
            u1 = (min(a + max(n, 1), size) - 1) // unit if a < size else u0
            u1 = max(u1, u0)
            touched = "".join(str(s) for s in states[u0 : u1 + 1])
            if is_nontrivial(u0, u1, states, slots):
                ctx.nontrivial += 1
            if srcs is not None:
                ctx.outcome("+".join(sorted(set(srcs[u0 : u1 + 1]))) or "eof")
        else:
            touched = ""
        if exc is not None:
            ok = False
            ctx.violation((case if case.get("after_failed_request") else dict(case, requests=[[a, n]])),
                          {"subject": subject, "kind": "exception", "exc": type(exc).__name__, "via": via,
                           "touched": touched, "start_aligned": a % unit == 0, "past_end": a + n > size},
                          {"exception": repr(exc)[:300], "offset": a, "length": n})
        elif got != exp:
            ok = False
            ctx.violation((case if case.get("after_failed_request") else dict(case, requests=[[a, n]])),
                          {"subject": subject, "kind": "mismatch", "via": via, "touched": touched,
                           "start_aligned": a % unit == 0, "past_end": a + n > size,
                           "short": len(got) < len(exp), "long": len(got) > len(exp)},
                          dict(describe_mismatch(got, exp, a), offset=a, length=n))
        else:
            pos = stream.tell()
            if pos != a + len(exp):
                ok = False
                ctx.violation((case if case.get("after_failed_request") else dict(case, requests=[[a, n]])),
                              {"subject": subject, "kind": "position", "via": via, "touched": touched},
                              {"tell": pos, "expected": a + len(exp), "offset": a, "length": n})
    return ok


def compare_sector_reads(ctx, case, reader, disk, requests, subject, sector_size=512, states=None, slots=None,
                         unit=None, via="read_sectors", clip=True):
    """reader(sector, count) for every (sector, count); expected = guest bytes of that sector range.  The object returned for
    the previous request is kept and looked at again after the next call: what was handed out does not change afterwards."""
    size = disk.size
    unit = unit or getattr(disk, "unit", None) or 512
    kept = None
    for s, c in requests:
        ctx.transitions += 1
        ctx.states += 1
        a, n = s * sector_size, c * sector_size
        exp = disk.content(a, n)
        try:
            got = reader(s, c)
            exc = None
        except Exception as e:
            got, exc = None, e
        if kept is not None:
            try:
                still = bytes(kept[0]) == kept[1]
            except Exception:
                still = False
            if not still:
                ctx.violation(dict(case, sector_requests=[list(kept[2]), [s, c]]),
                              {"subject": subject, "kind": "earlier-result-changed-later", "via": via},
                              {"first_request": list(kept[2]), "type": type(kept[0]).__name__})
                return False
        kept = (got, exp, (s, c)) if exc is None and got == exp else None
        if states is not None:
            u0 = a // unit
            u1 = max(u0, (min(a + max(n, 1), size) - 1) // unit)
            touched = "".join(str(x) for x in states[u0 : u1 + 1])
            if is_nontrivial(u0, u1, states, slots):
                ctx.nontrivial += 1
        else:
            touched = ""
        if exc is not None:
            ctx.violation((case if case.get("after_failed_request") else dict(case, sector_requests=[[s, c]])),
                          {"subject": subject, "kind": "exception", "exc": type(exc).__name__, "via": via,
                           "touched": touched, "start_aligned": a % unit == 0, "past_end": a + n > size},
                          {"exception": repr(exc)[:300], "sector": s, "count": c})
        elif got != exp:
            ctx.violation((case if case.get("after_failed_request") else dict(case, sector_requests=[[s, c]])),
                          {"subject": subject, "kind": "mismatch", "via": via, "touched": touched,
                           "start_aligned": a % unit == 0, "past_end": a + n > size,
                           "short": len(got) < len(exp), "long": len(got) > len(exp)},
                          dict(describe_mismatch(got, exp, a), sector=s, count=c))


def recheck_after_failure(ctx, case, reader, stream, disk, sreqs, reqs, subject, sector_size=512):
    """A sector request that cannot be served (it starts in the last sector and runs far past the end) is issued on the same
    object; whether it raises or returns short, the requests answered before must be answered identically afterwards."""
    last = max(0, (disk.size + sector_size - 1) // sector_size - 1)
    failing = [(last, 70000), (max(0, last - 3), 20000)]
    if disk.size <= (64 << 20):
        failing.append((0, last + 1 + 5000))  # everything, and on past the end
    for start, count in failing:
        try:
            reader(start, count)
        except Exception:
            pass
    sub = [r for r in sreqs if r[1] > 0][:3] + [r for r in sreqs if r[1] > 0][-2:]
    rsub = [r for r in reqs if r[1] > 0][:3]
    # the replay case carries the lists used here, so that a replay goes through the same calls in the same order
    case2 = dict(case, after_failed_request=True, sector_requests=[list(r) for r in sub], requests=[list(r) for r in rsub])
    compare_sector_reads(ctx, case2, reader, disk, sub, subject + ".read_sectors.after-failed-request", sector_size)
    compare_reads(ctx, case2, stream, disk, rsub, subject + ".read.after-failed-request")
