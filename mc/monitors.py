"""Monitors that live outside /repo: audit hook (file / process / network events) and a sys.monitoring step meter."""
from __future__ import annotations

import contextlib
import os
import sys

_installed = False
_armed = False
_events = []

WATCHED_PREFIXES = ("open", "os.", "shutil.", "socket.", "urllib.", "subprocess.", "http.", "ftplib.", "tempfile.", "mmap.")
WRITE_FLAGS = os.O_WRONLY | os.O_RDWR | os.O_APPEND | os.O_CREAT | os.O_TRUNC


def _lib_frame():
    """innermost frame whose code lives under dissect/hypervisor -> 'file:line' (attribution of an event)."""
    f = sys._getframe(2)
    while f is not None:
        fn = f.f_code.co_filename
        if "dissect/hypervisor" in fn.replace("\\", "/"):
            return f"{fn.split('dissect/hypervisor/')[-1]}:{f.f_lineno}"
        f = f.f_back
    return None


def _hook(event, args):
    if not _armed:
        return
    if event.startswith(WATCHED_PREFIXES):
        try:
            a = tuple(x if isinstance(x, (str, int, bytes, type(None))) else repr(x)[:120] for x in args)
        except Exception:
            a = ()
        _events.append((event, a, _lib_frame()))


def install():
    global _installed
    if not _installed:
        sys.addaudithook(_hook)
        _installed = True


@contextlib.contextmanager
def armed():
    """Record audit events between 'inputs ready' and 'result compared'; yields the event list."""
    global _armed
    install()
    del _events[:]
    _armed = True
    try:
        yield _events
    finally:
        _armed = False


def is_write_open(ev):
    event, args, _ = ev
    if event != "open":
        return False
    mode = args[1] if len(args) > 1 else None
    flags = args[2] if len(args) > 2 else 0
    if isinstance(mode, str) and any(c in mode for c in "wax+"):
        return True
    return isinstance(flags, int) and bool(flags & WRITE_FLAGS)


MUTATING = ("os.remove", "os.rename", "os.replace", "os.truncate", "os.mkdir", "os.rmdir", "os.chmod", "os.chown", "os.utime",
            "os.link", "os.symlink", "os.unlink", "shutil.", "subprocess.", "os.system", "os.exec", "os.posix_spawn",
            "os.putenv", "tempfile.", "os.setxattr", "os.removexattr", "os.chflags", "os.lchflags", "os.lchown", "os.lchmod",
            "os.mkfifo", "os.mknod")
NETWORK = ("socket.", "urllib.", "http.", "ftplib.")


def classify(ev):
    event = ev[0]
    if is_write_open(ev):
        return "write-open"
    if event.startswith(MUTATING):
        return "mutation"
    if event == "mmap.__new__":
        # (fileno, length, access, offset): anything but ACCESS_READ (1) / ACCESS_COPY (3) of a real file is a shared writable mapping
        a = ev[1]
        if len(a) >= 3 and a[0] != -1 and a[2] not in (1, 3):
            return "mutation"
    if event.startswith(NETWORK):
        return "network"
    if event == "open":
        return "read-open"
    return "other"


# ---- step meter (sys.monitoring, Python 3.12) ------------------------------------------------------------------------------
class StepBudgetExceeded(BaseException):
    """BaseException: `except Exception` wrappers in the library (open_parent ...) cannot swallow it."""


class StepMeter:
    TOOL = 3

    def __init__(self):
        self.steps = 0
        self.budget = None
        self.active = False
        self._codes = {}

    def _is_lib(self, code):
        r = self._codes.get(code)
        if r is None:
            fn = code.co_filename.replace("\\", "/")
            r = "/dissect/" in fn
            self._codes[code] = r
        return r

    def _on_jump(self, code, src, dst):
        if dst < src and self._is_lib(code):
            self.steps += 1
            if self.budget is not None and self.steps > self.budget:
                self.budget = None
                raise StepBudgetExceeded(self.steps)
        elif not self._is_lib(code):
            return sys.monitoring.DISABLE

    def _on_start(self, code, off):
        if self._is_lib(code):
            self.steps += 1
            if self.budget is not None and self.steps > self.budget:
                self.budget = None
                raise StepBudgetExceeded(self.steps)
        else:
            return sys.monitoring.DISABLE

    @contextlib.contextmanager
    def measure(self, budget=None):
        m = sys.monitoring
        E = m.events
        self.steps = 0
        self.budget = budget
        m.use_tool_id(self.TOOL, "verif-stepmeter")
        m.register_callback(self.TOOL, E.JUMP, self._on_jump)
        m.register_callback(self.TOOL, E.PY_START, self._on_start)
        m.set_events(self.TOOL, E.JUMP | E.PY_START)
        m.restart_events()
        try:
            yield self
        finally:
            m.set_events(self.TOOL, 0)
            m.register_callback(self.TOOL, E.JUMP, None)
            m.register_callback(self.TOOL, E.PY_START, None)
            m.free_tool_id(self.TOOL)
            self.budget = None
