"""Regenerates /verif/MANIFEST.json from the table below:  /venv/bin/python -m mc.manifest"""
import json
import os

VERIF = os.path.dirname(os.path.dirname(os.path.abspath(__file__)))

MC = "model_checking"
FE = "fault_enumeration"
TECH = "explicit-state bounded-exhaustive exploration of the real code against a reference model (hand-written explorer)"

CHECKS = {
    "C05": dict(level=MC, ref="DESIGN.md section 4 C05",
                text="Every VDI image of the stated bounded space (block size x size form x every state assignment and "
                     "injective physical placement of a 4-5 block window x header layout) is built, opened with the real "
                     "reader and read with every boundary request, each result compared with a reference disk model; "
                     "the space is enumerated completely, per stream buffer size.",
                note="trusted: VDI layout transcription in mc/builders/vdi.py (VDICore.h), CPython, dissect.util "
                     "AlignedStream; windows larger than the bound rest on translation invariance of the block arithmetic"),
    "C06": dict(level=MC, ref="DESIGN.md section 4 C06",
                text="Every HDS image of the bounded space (version 1/2 x sectors per cluster x size form x every "
                     "hole/data assignment and injective placement of a 4-5 cluster window into file slots 1..W+1 x v1 "
                     "sector skew) and plain/expanding .hdd directories opened through HDD(path).open() are read with "
                     "every boundary request and compared with a reference disk model; complete enumeration per buffer size.",
                note="trusted: parallels.txt / prl-xml.txt transcription in mc/builders/hdd.py (cross-checked against "
                     "the repository's expanding.hdd fixture), CPython, AlignedStream"),
    "C04": dict(level=MC, ref="DESIGN.md section 4 C04",
                text="Every dynamic VHD of the bounded space (block size x size form x max_table_entries x table/header "
                     "order x 512/511-byte footer x every allocation and injective placement of a 3-5 block window) and a "
                     "family of fixed VHDs are read with every boundary request through seek/read and disk.read_sectors "
                     "and compared with a reference disk model; complete enumeration per buffer size; single requests of 17-40 MiB.",
                note="trusted: VHD specification transcription in mc/builders/vhd.py (validated against both repository "
                     "fixtures incl. checksums), CPython, AlignedStream; block sizes >= 4 KiB only"),
    "C03": dict(level=MC, ref="DESIGN.md section 4 C03",
                text="Every non-differencing VHDX of the bounded space (block size 1 MiB..256 MiB x sector 512/4096 x size form "
                     "x header sequence pair x region order x every BAT-state assignment and injective placement of a 3-4 "
                     "block window, also placed around the first interleaved sector-bitmap entry) is served from a virtual "
                     "sparse file and read with every boundary request via seek/read and read_sectors against a reference "
                     "disk model; complete enumeration per buffer size, including a buffer larger than a block.",
                note="trusted: [MS-VHDX] transcription in mc/builders/vhdx.py (decodes all three fixtures incl. CRC-32C), "
                     "CPython, AlignedStream; requests longer than a few buffers are a fixed list (cost follows bytes)"),
    "C02": dict(level=MC, ref="DESIGN.md section 4 C02",
                text="Every extent of the bounded space (hosted KDMV with header GD, stream-optimized with footer GD and "
                     "markers, compressed with header GD, COWD, SE-sparse, flat; grain sizes; capacity forms; windows at "
                     "grain 0, straddling a grain-table boundary and behind an absent table, incl. grain directories of 129 "
                     "entries; every hole/zero/data assignment and injective placement of a 3-4 grain window) is read with "
                     "every boundary request via seek/read and VMDK.read_sectors against a reference disk model.",
                note="trusted: VMware VDF 1.1 / QEMU vmdk.c transcription in mc/builders/vmdk.py (round-trip decoder; decodes "
                     "the SE-sparse fixture), zlib, CPython, AlignedStream"),
    "C01": dict(level=MC, ref="DESIGN.md section 4 C01",
                text="Every QCOW2 image of the bounded space (cluster sizes, version 2/3 header forms, table orders and host "
                     "offsets up to 2^55, backing file longer/equal/shorter/empty, external data file, windows at cluster 0 / "
                     "across an L2 boundary / behind an empty L1 entry / at the end of the L1 coverage; every assignment of "
                     "unallocated/zero/zero+offset/normal/compressed clusters and injective placement; extended-L2 bit windows "
                     "3^6..3^10 per cluster and across two clusters) is read with every boundary request against a reference "
                     "disk model.",
                note="trusted: qcow2.txt transcription in mc/builders/qcow2.py (no fixture / qemu-img available; validated by an "
                     "independent round-trip decoder), zlib raw deflate, CPython, AlignedStream; zstd not installed"),
    "C07": dict(level=MC, ref="DESIGN.md section 4 C07",
                text="Real chains of depth 1-3 are built for every mechanism (VHDX differencing on real files incl. every "
                     "6-8 sector bitmap window per non-base layer at bit offsets 0/3/5, across the block boundary and in the "
                     "second chunk; VMDK delta chains with hosted, SE-sparse and multi-extent children; Parallels snapshot "
                     "chains with TopGUID absent/default/explicit, Plain base and open(guid) for every shot; QCOW2 backing "
                     "chains with standard and extended L2 and internal snapshot views read interleaved; VDI parents; for VDI, Parallels, "
                     "VMDK, VHDX and QCOW2 also chains whose ancestors are one unit shorter than their child) over "
                     "every per-layer allocation map of the bound, read with boundary requests and compared with the top-down "
                     "overlay fold; plus the parent-location configurations (resolvable -> reads through, unresolvable -> "
                     "constructor raises, opt-out -> zeros).",
                note="trusted: builders of C01-C06, overlay fold in mc/models.py; layers of a chain have equal virtual size except in the `-grown` sub-spaces; "
                     "VHDX undefined/unmapped states are not used under a parent"),
    "C08": dict(level=MC, ref="DESIGN.md section 4 C08",
                text="For every stream class (QCow2, snapshot view, VMDK sparse/flat/multi-extent, VHDX, VHD fixed/dynamic, "
                     "VDI, HDS, Parallels StorageStream) every operation sequence up to depth 3 over a ~35-operation alphabet "
                     "on one instance, every depth-2 sequence addressed to two instances over different images, and the suffix "
                     "trees after ascending/descending/strided sweeps that fill and evict the 128-/4096-entry caches, are "
                     "executed on the real objects and compared step by step with a history-free stream model, per buffer size; depth-2 "
                     "histories once more with every logger of the library at DEBUG.",
                note="trusted: StreamModel in mc/models.py, builders of C01-C06, AlignedStream as a given dependency; histories "
                     "longer than the depth bound are covered only by the sweeps; thread-safety not in scope",
                technique="exhaustive history-tree exploration of the real stream objects against a history-free model"),
    "C10": dict(level=MC, ref="DESIGN.md section 4 C10",
                text="Real descriptor-driven disks with 1-3 extents of every kind (FLAT, VMFS, SPARSE, VMFSSPARSE, SESPARSE, ZERO) x "
                     "sizes x access x file names, VMDK([handles]) lists and Parallels descriptors with 1-3 storages in every XML "
                     "order are opened through the public constructors; size, sector_count and every boundary (sector,count) / "
                     "byte request around the extent boundaries are compared with the concatenation of per-extent models; flat "
                     "files carry trailing slack so a size taken from the file shifts everything behind it.",
                note="trusted: builders of C02/C06, descriptor text per VMware VDF 1.1 / prl-xml.txt"),
    "C13": dict(level=MC, ref="DESIGN.md section 4 C13",
                text="For every format the full product scale (small .. format limit, up to 64 TiB) x placement of tables and data "
                     "(low, > 2^32 bytes, > 2^32 sectors, top of the field range) x allocation density x request is served from "
                     "a metering sparse virtual file: content at the extreme offsets must be right, bytes requested during open + "
                     "read must stay within 2*metadata + 4*request + 64 KiB, a densely allocated image must cost exactly the same "
                     "I/O as a nearly empty one with the same tables, and no payload the request does not map to may be touched; "
                     "allocation units of 8 MiB (VMDK grains) and 2 MiB (QCOW2 clusters) included.",
                note="trusted: I/O meter in mc/vfile.SparseFile, builders; the bound uses ALL mapping metadata because eager table "
                     "loading is allowed by the statement",
                technique="exhaustive enumeration of scale x placement x density x request configurations on the real readers with an I/O meter"),
    "C14": dict(level=MC, ref="DESIGN.md section 4 C14",
                text="Per metadata structure the full product of stored values / lengths / counts / encodings / sequence pairs is "
                     "serialised, opened with the real parser and every exposed attribute compared with the stored value: QCOW2 "
                     "header, extension lists, backing names, snapshot tables; VHDX header pairs, metadata items, parent locators; "
                     "VMDK descriptors incl. embedded ones; VHD / VDI / HDS headers; Parallels descriptors.",
                note="trusted: builders; case-insensitive comparison only where the library documents a normalised view",
                technique="exhaustive enumeration of stored values per structure against the real parsers"),
    "C15": dict(level=MC, ref="DESIGN.md section 4 C15",
                text="An independent encryptor (validated byte for byte against the repository's encrypted.vmx) produces every "
                     "combination of cipher x MAC x KDF x salt length x passphrase x configuration length 0..48 x locator list "
                     "(and rounds 1/2/1000); unlocking with the right passphrase must yield exactly the outer entries updated "
                     "with the configuration entries; every other passphrase of a 6-element set and every single-byte XOR "
                     "alteration of the wrapped-key blob, encryption.data and both MACs must raise and leave VMX.attr unchanged.",
                note="trusted: PyCryptodome AES, hashlib/hmac, the key safe layout transcription in mc/builders/vmxenc.py",
                technique="exhaustive enumeration of parameter products and single-byte alterations on the real unlock path"),
    "C16": dict(level=MC, ref="DESIGN.md section 4 C16",
                text="An independent serializer + AES-256-GCM (validated against the repository's local.tgz.ve: header block byte "
                     "for byte, tag verifies) produces every combination of payload length x padding x attribute order x caller "
                     "AAD and every extra attribute type with boundary values; decrypt must return exactly the payload and the "
                     "command-line tool must write exactly it and nothing else; every single-bit flip of the key and every "
                     "single-byte alteration of the attribute records, ciphertext, tag and caller AAD must raise; key store "
                     "texts in mode NONE derive the independently computed PBKDF2 key, twice.",
                note="trusted: PyCryptodome AES-GCM, hashlib, layout transcription in mc/builders/envelope.py; reserved bytes and "
                     "zero padding of the header block are excluded (not 'header attributes')",
                technique="exhaustive enumeration of parameter products and single-byte alterations on the real decrypt path"),
    "C17": dict(level=MC, ref="DESIGN.md section 4 C17",
                text="Every ordered forest of key/value entries up to 5-6 entries (all value types) x every distribution over 1-3 "
                     "key tables x entry order, every boundary value of every type incl. file-object sized strings/arrays, Free "
                     "entries at every position, competing key tables and file headers over sequence pairs {0,1,2,65535}^2 and a "
                     "chained second object table are serialised and parsed with the real parser; as_dict() and item access must "
                     "equal the model tree including Python types.",
                note="trusted: layout transcription in mc/builders/hyperv.py whose independent decoder reproduces the trees of both "
                     "repository fixtures; root entries are Node entries"),
    "C18": dict(level=MC, ref="DESIGN.md section 4 C18",
                text="Every VMX device configuration of the bounded product (bus x bus number x unit x deviceType x key casing x "
                     "file name; singles, pairs, triples in every line order with controller / floppy / ethernet / comment / blank "
                     "lines), VMX dictionary semantics (case-insensitive keys, last assignment wins), every OVF reference/disk/"
                     "item graph up to the bound in three namespace spellings, VirtualBox registries (nesting, formats, types, "
                     "DVD/floppy images) and every PVS hardware-list interleaving is parsed with the real parsers and the disk "
                     "list compared with the model's.",
                note="trusted: the reading of 'hard disk' per format recorded under assumptions in the evidence (VMX device types, "
                     "VirtualBox Normal+VDI as the library documents, OVF ResourceType 17, PVS Hdd)",
                technique="exhaustive enumeration of configuration documents against a model disk list"),
    "C19": dict(level=FE, ref="DESIGN.md section 4 C19",
                text="Every hostile document family (internal entities nested to depth 6, 'laughs' chains, external general entities "
                     "file:// and http://, internal / external parameter entities, external DTD subset) x reference site is fed to "
                     "each of the four XML entry points under an OS-level audit monitor: a document that declares an entity must "
                     "be refused and no canary open / socket / urllib event may occur; DOCTYPE-only and plain documents must "
                     "parse to the usual result.",
                note="trusted: CPython audit events as the observation of file / network access; defusedxml is a dependency",
                technique="exhaustive fault enumeration of hostile XML families at every entry point under an audit monitor"),
    "C20": dict(level=MC, ref="DESIGN.md section 4 C20",
                text="Every sequence of up to 3-4 members over 14 member kinds (visor files of boundary sizes, empty files, "
                     "directories, ustar members, GNU long names) x every permutation of the data areas x alignment x gaps x gzip "
                     "x trailing padding is serialised and read with the real reader: names and types in header order, every "
                     "extracted body equals the bytes at the recorded offset; archives without visor members are compared with "
                     "the standard tarfile reader.",
                note="trusted: visor header transcription in mc/builders/vmtar.py (walks the repository fixture), CPython tarfile"),
    "C09": dict(level=MC, ref="DESIGN.md section 4 C09",
                text="A census workload executes every public entry point x input kind x error path (handles, handle lists, Path "
                     "and str paths, parent / snapshot chains, missing parents / extents / descriptors, wrong magics, truncations, "
                     "hostile XML, the envelope-decrypt tool) under an OS-level audit monitor, write-trapping file objects and a "
                     "content+mtime digest of a read-only evidence directory; any write-mode open, file-system mutation, process "
                     "or network event attributed to library frames is a violation, as is a write-mode literal or mutating call "
                     "site found by the AST census outside the tool's --output.",
                note="trusted: CPython audit events; execution-based, so unreachable code is reported by the AST census as "
                     "uncovered rather than vouched for",
                technique="exhaustive census of entry points x input kinds x error paths under an audit monitor (monitor-based exploration)"),
    "C11": dict(level=FE, ref="DESIGN.md section 4 C11",
                text="For one minimal valid seed per structural variant of every parser, every field of its field map x fault value "
                     "(0, 1, 2, max, max-1, +-1, x2, own offset, offsets of other structures), every truncation point, every "
                     "table-entry alias pair and explicit cycle / bomb / invalid-bitmap / shortened-storage / oversized-table inputs are opened and read under a "
                     "deterministic step meter (sys.monitoring), a tracemalloc memory meter and a watchdog; the call must return "
                     "or raise within budgets that are linear in input + request size.",
                note="trusted: sys.monitoring / tracemalloc; 'all byte strings' is replaced by the structured single-fault space; C "
                     "extension time is bounded only by the watchdog",
                technique="exhaustive single-fault enumeration over field maps under step / memory meters"),
    "C12": dict(level=FE, ref="DESIGN.md section 4 C12",
                text="A gate table lists every magic, signature, GUID, version, geometry value, feature flag (incl. the feature bits, "
                     "compression methods, required regions / items and extent kinds a parser does not know) and "
                     "identifier of every parser; per gate every single-bit flip (magics / GUIDs), every value 0..255 + bit flips "
                     "+ max (numeric fields) and every string at edit distance 1 (identifiers) is applied to an otherwise valid "
                     "input: values outside the accepted set must make the open / unlock call raise, values inside it and the "
                     "seed must be accepted.",
                note="trusted: builders; bare handles with an unknown magic are flat extents by design",
                technique="exhaustive enumeration of out-of-set values per validation gate"),
}

PENDING_REASON = "check not built yet in this session (planned in DESIGN.md section 4); not claimed until it runs"


def main():
    props = [json.loads(l)["id"] for l in open(os.path.join(VERIF, "properties.jsonl"))]
    checks = []
    for pid in props:
        if pid not in CHECKS:
            continue
        c = CHECKS[pid]
        checks.append({
            "property_id": pid,
            "quick_cmd": f"./check {pid} --tier quick",
            "thorough_cmd": f"./check {pid} --tier thorough",
            "evidence_file": f"/verif/evidence/{pid}.json",
            "replay_cmd_template": "./check replay {path}",
            "engine": "mc-explorer",
            "level_claimed": {"category": c["level"], "text": c["text"], "design_ref": c["ref"]},
            "level_note": c["note"],
            "technique": c.get("technique", TECH),
        })
    na = [{"property_id": p, "reason": NOT_APPLICABLE.get(p, PENDING_REASON)} for p in props if p not in CHECKS]
    man = {
        "version": 1,
        "setup_cmd": "./setup.sh",
        "hooks": {
            "guard": "DISSECT_HYPERVISOR_VERIF",
            "enable": "no source hooks are needed: all monitors (virtual files, audit hook, sys.monitoring step meter) "
                      "live in /verif; checks import /repo's working tree directly (editable install)",
            "baseline_off_cmd": "cd /repo && /venv/bin/python -m pytest -ra -q -p no:cacheprovider --timeout=900",
            "source_commits": [],
            "add_only": True,
        },
        "engines": [{"name": "mc-explorer", "path": "/verif/mc/engine.py", "serves_properties": sorted(CHECKS),
                     "kind_free_text": "hand-written explicit-state / bounded-exhaustive explorer in Python driving the "
                                       "real library in worker processes; reference models in mc/models.py"}],
        "checks": checks,
        "not_applicable": na,
        "notes": "All checks run /venv/bin/python against /repo's working tree (VERIF_REPO overrides for self-tests). "
                 "Genuine defects found are repaired by 'fix:' commits in /repo and listed in known_findings.json.",
    }
    with open(os.path.join(VERIF, "MANIFEST.json"), "w") as f:
        json.dump(man, f, indent=1)
    print("MANIFEST.json:", len(checks), "checks,", len(na), "not claimed")


NOT_APPLICABLE = {}

if __name__ == "__main__":
    main()
