"""Read-only virtual files handed to the library in place of real image files.

* SparseFile  -- explicit byte extents (metadata) + pattern extents (payload generated on demand), zeros elsewhere,
                 any size up to 2**63; logs every read (offset, requested, returned) for the I/O meter (C13).
* TrapBytesIO -- io.BytesIO with every mutating method trapped (fast path for small images).

Both record mutation attempts in the module-level list MUTATIONS (C09 reads it) and refuse them.
"""
from __future__ import annotations

import bisect
import io

from mc import pattern

MUTATIONS: list = []  # (file label, method) for every mutating call the library attempted on a supplied handle


class _Trap:
    label = "?"

    def _trap(self, what):
        MUTATIONS.append((self.label, what))
        raise io.UnsupportedOperation(f"verif: library attempted {what} on a read-only handle")

    def write(self, *a, **k):
        self._trap("write")

    def writelines(self, *a, **k):
        self._trap("writelines")

    def truncate(self, *a, **k):
        self._trap("truncate")

    def writable(self):
        return False


class TrapBytesIO(_Trap, io.BytesIO):
    def __init__(self, data: bytes, label: str = "mem", name: str | None = None):
        io.BytesIO.__init__(self, data)
        self.label = label
        if name is not None:
            self.name = name

    def getbuffer(self):
        self._trap("getbuffer")

    # fault injection (environment answers): the k-th read from now on raises OSError once (k = 1: the next one)
    fail_after = 0

    def read(self, *a):
        if self.fail_after:
            self.fail_after -= 1
            if self.fail_after == 0:
                raise OSError(5, "injected I/O error")
        return io.BytesIO.read(self, *a)

    def readinto(self, b):
        if self.fail_after:
            self.fail_after -= 1
            if self.fail_after == 0:
                raise OSError(5, "injected I/O error")
        return io.BytesIO.readinto(self, b)


class SparseFile(_Trap):
    """Not an io.IOBase subclass on purpose: anything the library calls that is not defined here fails loudly."""

    def __init__(self, size: int = 0, label: str = "sparse", name: str | None = None, log: bool = True):
        self._ext = []  # (off, len, kind, payload)   kind 0 = bytes, 1 = pattern (layer, byte base)
        self._starts = None
        self.size = size
        self.pos = 0
        self.label = label
        if name is not None:
            self.name = name
        self.log = log
        self.reads = []  # (offset, requested, returned)
        self.bytes_requested = 0
        self.bytes_returned = 0
        self.closed = False

    # ---- construction (harness side) -------------------------------------------------------------------------
    def put(self, off: int, data: bytes):
        if data:
            self._ext.append((off, len(data), 0, bytes(data)))
            self.size = max(self.size, off + len(data))
            self._starts = None

    def put_pattern(self, off: int, length: int, layer: int, byte_base: int):
        if length > 0:
            self._ext.append((off, length, 1, (layer, byte_base)))
            self.size = max(self.size, off + length)
            self._starts = None

    def set_size(self, size: int):
        self.size = size

    def _finalize(self):
        self._ext.sort(key=lambda e: e[0])
        prev_end = -1
        for off, ln, _, _ in self._ext:
            if off < prev_end:
                raise AssertionError(f"builder bug: overlapping extents at {off:#x} in {self.label}")
            prev_end = off + ln
        self._starts = [e[0] for e in self._ext]

    def extents(self):
        if self._starts is None:
            self._finalize()
        return [(e[0], e[1], e[2]) for e in self._ext]

    def reset_meter(self):
        self.reads = []
        self.bytes_requested = 0
        self.bytes_returned = 0

    # ---- file API (library side) -----------------------------------------------------------------------------
    def readable(self):
        return True

    def seekable(self):
        return True

    def _open_or_raise(self):
        if self.closed:
            raise ValueError("I/O operation on closed file")  # what a real file object does

    def tell(self):
        self._open_or_raise()
        return self.pos

    def seek(self, pos, whence=0):
        self._open_or_raise()
        if whence == 0:
            new = pos
        elif whence == 1:
            new = self.pos + pos
        elif whence == 2:
            new = self.size + pos
        else:
            raise ValueError("whence")
        if new < 0:
            raise OSError(22, "Invalid argument")
        self.pos = new
        return new

    def peek_at(self, start: int, n: int) -> bytes:
        if self._starts is None:
            self._finalize()
        n = max(0, min(n, self.size - start))
        out = bytearray(n)
        end = start + n
        i = max(0, bisect.bisect_right(self._starts, start) - 1)
        ext = self._ext
        while i < len(ext) and ext[i][0] < end:
            off, ln, kind, pl = ext[i]
            a = max(off, start)
            b = min(off + ln, end)
            if a < b:
                if kind == 0:
                    out[a - start : b - start] = pl[a - off : b - off]
                else:
                    out[a - start : b - start] = pattern.span(pl[0], pl[1] + (a - off), b - a)
            i += 1
        return bytes(out)

    def read(self, n=-1):
        self._open_or_raise()
        if n is None or n < 0:
            n = max(0, self.size - self.pos)
        want = n
        if want > (1 << 31):
            # a reader asking for > 2 GiB in one call is never within any bound; do not try to materialise it
            self.bytes_requested += want
            if self.log:
                self.reads.append((self.pos, want, -1))
            raise MemoryError(f"verif: single read of {want} bytes requested from {self.label}")
        buf = self.peek_at(self.pos, n)
        if self.log:
            self.reads.append((self.pos, want, len(buf)))
        self.bytes_requested += want
        self.bytes_returned += len(buf)
        self.pos += len(buf)
        return buf

    def readinto(self, b):
        buf = self.read(len(b))
        b[: len(buf)] = buf
        return len(buf)

    def close(self):
        self.closed = True

    def flush(self):
        pass

    def fileno(self):
        raise io.UnsupportedOperation("fileno")

    def __enter__(self):
        return self

    def __exit__(self, *a):
        return False


class Image:
    """What a builder produces: a list of extents that can be turned into a TrapBytesIO (small) or a SparseFile."""

    def __init__(self, label="img", name=None):
        self.label = label
        self.name = name
        self.ext = []  # (off, kind, payload, length)
        self.size = 0
        self.meta_bytes = 0  # bytes of mapping metadata (headers + tables) -- C13's M
        self.fields = []  # field map: (name, offset, width, endianness, role)

    def put(self, off, data, meta=True):
        if data:
            self.ext.append((off, 0, bytes(data), len(data)))
            self.size = max(self.size, off + len(data))
            if meta:
                self.meta_bytes += len(data)

    def put_pattern(self, off, length, layer, byte_base):
        if length > 0:
            self.ext.append((off, 1, (layer, byte_base), length))
            self.size = max(self.size, off + length)

    def field(self, name, off, width, endian="<", role=""):
        self.fields.append((name, off, width, endian, role))

    def set_size(self, size):
        self.size = max(self.size, size)

    def sparse(self, log=True) -> SparseFile:
        f = SparseFile(self.size, self.label, self.name, log)
        for off, kind, pl, ln in self.ext:
            if kind == 0:
                f.put(off, pl)
            else:
                f.put_pattern(off, ln, pl[0], pl[1])
        f.set_size(self.size)
        f._finalize()
        return f

    def tobytes(self, limit=256 << 20) -> bytes:
        if self.size > limit:
            raise ValueError(f"image of {self.size} bytes is too large to materialise")
        buf = bytearray(self.size)
        prev = []
        for off, kind, pl, ln in sorted(self.ext, key=lambda e: e[0]):
            if prev and off < prev[0]:
                raise AssertionError(f"builder bug: overlapping extents at {off:#x} in {self.label}")
            prev = [off + ln]
            buf[off : off + ln] = pl if kind == 0 else pattern.span(pl[0], pl[1], ln)
        return bytes(buf)

    def bytesio(self) -> TrapBytesIO:
        return TrapBytesIO(self.tobytes(), self.label, self.name)

    def write_to(self, path):
        """Write as a real sparse file (only for APIs that insist on paths)."""
        with open(path, "wb") as f:
            f.truncate(self.size)
            for off, kind, pl, ln in self.ext:
                f.seek(off)
                f.write(pl if kind == 0 else pattern.span(pl[0], pl[1], ln))


def slot_range(lo, hi, used):
    """range(lo, hi) for small layouts; for sparse high placements only the used slots and their neighbours."""
    if hi - lo <= 200000:
        return range(lo, hi)
    s = set()
    for p in used:
        s.update((p - 1, p, p + 1))
    return sorted(p for p in s if lo <= p < hi)


class SparseStates:
    """A states list of length n in which only `items` ({index: token}) differ from `default` (used for huge disks)."""

    def __init__(self, n, default, items):
        self.n, self.default, self.items = n, default, dict(items)

    def __len__(self):
        return self.n

    def __getitem__(self, i):
        return self.items.get(i, self.default)


def entries(states, slots):
    """(i, state, slot) for every unit -- for SparseStates only the non-default units (builders skip defaults anyway)."""
    if isinstance(states, SparseStates):
        return [(i, st, slots.get(i)) for i, st in sorted(states.items.items())]
    return [(i, st, p) for i, (st, p) in enumerate(zip(states, slots))]


def entries1(states):
    if isinstance(states, SparseStates):
        return sorted(states.items.items())
    return list(enumerate(states))
