#!/bin/bash
# MANIFEST.setup_cmd: nothing to build (pure Python); validate the builders against the repository fixtures.
cd "$(dirname "$0")" || exit 2
export PYTHONHASHSEED=0 PYTHONDONTWRITEBYTECODE=1
/venv/bin/python -c "import mc.engine, mc.vfile, mc.models, mc.pattern, mc.diskcheck" || exit 2
exec ./check selfvalidate
