import io, struct
from dissect.hypervisor.disk.vdi import VDI
BS=8192
def build(blockmap, bs=BS, size=None):
    n=len(blockmap)
    size = size or n*bs
    hdr = struct.pack("<64sIIIII256sIIIIIIIQIIII16s16s16s16s", b"<<< x >>>\n", 0xBEDA107F, 0x10001, 0x190, 1, 0, b"", 512, 1024, 0,0,0,512,0,size,bs,0,n,sum(1 for b in blockmap if b>=0), b"\1"*16,b"",b"",b"")
    buf = bytearray(hdr.ljust(512,b"\0"))
    buf += struct.pack("<%di"%n, *blockmap).ljust(512,b"\0")
    nphys = max([b for b in blockmap if b>=0]+[-1])+1
    data = bytearray(nphys*bs)
    exp = bytearray(size)
    for i,b in enumerate(blockmap):
        if b>=0:
            content = bytes([i+1])*bs
            data[b*bs:(b+1)*bs]=content
            exp[i*bs:(i+1)*bs]=content[:max(0,min(bs,size-i*bs))]
    return bytes(buf+data), bytes(exp)
img, exp = build([1,0,-1,2])
v = VDI(io.BytesIO(img))
got = v.read()
print(len(got), len(exp), got==exp)
for off in range(0,len(exp),BS):
    v.seek(off); g=v.read(BS); print(off, g==exp[off:off+BS], set(g))
v.seek(0); g=v.read(2*BS); print("2blk", g==exp[:2*BS], set(g[:BS]), set(g[BS:]))
img, exp = build([1,0,-1,2], bs=4096)
v = VDI(io.BytesIO(img))
try:
    got = v.read(); print("bs4096", got==exp)
except Exception as e: print("exc", repr(e))
