import struct, io, os, sys
from pathlib import Path
exec(open("p_vmdk.py").read().split("def chk")[0])
from dissect.hypervisor.disk.vmdk import VMDK
d=Path("/dev/shm/vscratch2")
def sect(tag,n): return b"".join(struct.pack(">HQ",tag,s)+bytes([tag])*502 for s in range(n))
# extent 1: flat 24 sectors (file longer), extent 2: hosted sparse 16 sectors (grain 8), extent 3: vmfs flat 16 sectors
(d/"a flat.vmdk").write_bytes(sect(1,24)+b"\xEE"*1024)
img,exp2=build_kdmv([1,0], grain_size=8, ngte=512)
(d/"b-s001.vmdk").write_bytes(img)
(d/"c-flat.vmdk").write_bytes(sect(3,16))
desc='# Disk DescriptorFile\nversion=1\nCID=fffffffe\nparentCID=ffffffff\ncreateType="custom"\n\n# Extent description\nRW 24 FLAT "a flat.vmdk" 0\nRW 16 SPARSE "b-s001.vmdk"\nRW 16 VMFS "c-flat.vmdk"\n\nddb.adapterType = "ide"\n'
(d/"disk.vmdk").write_text(desc)
exp=sect(1,24)+exp2+sect(3,16)
v=VMDK(d/"disk.vmdk")
print("size", v.size, len(exp), v.sector_count, [type(x).__name__ for x in v.disks])
bad=[]
for s in range(0,56):
    for c in range(1,57-s):
        try: g=v.read_sectors(s,c)
        except Exception as e: g=repr(e)
        if g!=exp[s*512:(s+c)*512]: bad.append((s,c,g if isinstance(g,str) else len(g)))
print("read_sectors bad",len(bad),bad[:5])
try:
    v.seek(0); g=v.read(); print("read all", g==exp, len(g))
except Exception as e: print("read all EXC", repr(e))
v2=VMDK(str(d/"disk.vmdk")); print("str path ok", v2.size==v.size)
with open(d/"disk.vmdk","rb") as fh:
    v3=VMDK(fh); print("fh with name ok", v3.size==v.size)
