import resource, signal, sys
resource.setrlimit(resource.RLIMIT_AS, (2<<30, 2<<30))
signal.alarm(10)
exec(open("p_qcow.py").read().split('chk("std",')[0])
which=sys.argv[1]
if which=="ext-all": chk("ext-all", *build([N,U,N,N]*4, cluster_bits=14, extl2=True))
if which=="ext-bm": chk("ext-bm", *build([{'kind':'n','bm':(0x0000ffff,0)},U,{'kind':'n','bm':(0xff00ff00,0x00ff0000)},N], cluster_bits=14, extl2=True))
if which=="ext-one":
    img,exp=build([N,N,N,N], cluster_bits=14, extl2=True)
    q=QCow2(io.BytesIO(img))
    print(list(q._yield_runs(0, 8192))[:5] if False else None)
    it=q._yield_runs(0,8192)
    for _ in range(4): print(next(it))
