import struct, io, hashlib, os
from Crypto.Cipher import AES
from dissect.hypervisor.util.envelope import Envelope
def pack_attr(t, flag, name, value):
    b=struct.pack("<BBH", t, flag, 0)+name.encode()+b"\0"
    if t==0xB: b+=value.encode()+b"\0"
    elif t==0xC: b+=struct.pack("<Q",len(value))+value
    else:
        fmt={1:"<B",2:"<H",3:"<I",4:"<Q",5:"<b",6:"<h",7:"<i",8:"<q",9:"<f",10:"<d"}[t]; b+=struct.pack(fmt,value)
    return b
def build(payload, key, iv, attrs_extra=(), aad=None, padding=None, order=None):
    kh=hashlib.sha256(b"AES-256-GCM"+key).digest()
    attrs=[(0xC,0,"vmware.iv",iv),(0xB,0,"vmware.keyInfo","kid"),(0xB,0,"vmware.cipherName","AES-256-GCM"),(0xC,0,"vmware.keyHash",kh)]+list(attrs_extra)
    if order: attrs=[attrs[i] for i in order]
    ab=b"".join(pack_attr(*a) for a in attrs)+b"\0"*4
    hdr=bytearray(4096); hdr[0:21]=b"DataTransformEnvelope"; struct.pack_into("<II",hdr,504,4096-512,2); hdr[512:512+len(ab)]=ab
    if padding is None: padding=(-len(payload))%4096
    foot=bytearray(os.urandom(4096)); foot[-512:]=(b"DataTransformCryptoFooter".ljust(504,b"\0")+struct.pack("<II",padding,2))
    pt=payload+os.urandom(padding)+bytes(foot)
    c=AES.new(key,AES.MODE_GCM,nonce=iv); c.update(bytes(hdr)); 
    if aad: c.update(aad)
    ct,tag=c.encrypt_and_digest(pt)
    af=bytearray(4096); af[0:23]=b"DataTransformAeadFooter"; af[32:32+16]=tag; struct.pack_into("<II",af,4088,16,1)
    return bytes(hdr)+ct+bytes(af)
key=os.urandom(32); iv=os.urandom(12)
for n in (0,1,4095,4096,4097,10000):
    p=os.urandom(n)
    img=build(p,key,iv,aad=b"xx" if n%2 else None)
    ev=Envelope(io.BytesIO(img)); d=ev.decrypt(key, aad=b"xx" if n%2 else None); print(n, d==p)
extra=[(1,0,"a.u8",200),(2,1,"a.u16",65535),(3,0,"a.u32",7),(4,0,"a.u64",2**64-1),(5,0,"a.i8",-3),(6,0,"a.i16",-300),(7,0,"a.i32",-7),(8,0,"a.i64",-2**63),(9,0,"a.f",1.5),(10,255,"a.d",-2.25),(0xB,0,"a.s",""),(0xC,3,"a.b",b"")]
img=build(b"hello",key,iv,attrs_extra=extra, order=[3,5,0,7,1,2]+[4,6]+list(range(8,16)))
ev=Envelope(io.BytesIO(img)); print("extras", ev.decrypt(key)==b"hello", list(ev.attributes)[:5])
# tamper in padding after terminator
t=bytearray(build(b"hello",key,iv)); t[3000]^=1
try: print("pad tamper ->", Envelope(io.BytesIO(bytes(t))).decrypt(key))
except Exception as e: print("pad tamper raises", type(e).__name__)
t=bytearray(build(b"hello",key,iv)); t[514]^=1
try: print("reserved tamper ->", Envelope(io.BytesIO(bytes(t))).decrypt(key))
except Exception as e: print("reserved tamper raises", type(e).__name__)
t=bytearray(build(b"hello",key,iv)); t[4096+2]^=1
try: print("ct tamper ->", Envelope(io.BytesIO(bytes(t))).decrypt(key))
except Exception as e: print("ct tamper raises", type(e).__name__)
