import struct, io, gzip
from sparsefile import SparseFile
from dissect.hypervisor.disk.vmdk import VMDK
# inspect fixture header
d=gzip.open("/repo/tests/data/sesparse.vmdk.gz").read(1<<22)
h=struct.unpack("<26Q", d[:208])
names="magic version capacity grain_size grain_table_size flags r1 r2 r3 r4 vol_off vol_size jh_off jh_size j_off j_size gd_off gd_size gt_off gt_size fb_off fb_size bm_off bm_size grains_off grains_size".split()
print({n:hex(v) for n,v in zip(names,h)})
gd_off=h[16]*512; print("gd[0:4]", [hex(x) for x in struct.unpack("<4Q", d[gd_off:gd_off+32])])
gt_off=h[18]*512; print("gt[0:4]", [hex(x) for x in struct.unpack("<4Q", d[gt_off:gt_off+32])])
S=512
def build_se(grains, grain_size=8, gt_sectors=64, capacity=None, gt_order=None, cluster_base=0):
    """grains: dict grain_index -> 'z'|'f'|int(cluster index); others unallocated"""
    gte=gt_sectors*S//8
    maxg=max(grains)+1 if grains else 1
    capacity=capacity or maxg*grain_size
    ngt=(maxg+gte-1)//gte
    gd_sectors=max(1,(ngt*8+S-1)//S)
    f=SparseFile()
    gd_off=16; gt_off=gd_off+gd_sectors; grains_off=gt_off+ngt*gt_sectors+8
    hdr=struct.pack("<26Q", 0xCAFEBABE, 0x200000001, capacity, grain_size, gt_sectors, 0, 0,0,0,0, 1,1, 2,1, 3,4, gd_off, gd_sectors, gt_off, ngt*gt_sectors, 8,1, 9,1, grains_off, 1<<40).ljust(512,b"\0")
    f.put(0,hdr)
    order=gt_order or list(range(ngt))  # physical index of table t
    gd=bytearray(gd_sectors*S)
    used=set(g//gte for g in grains)
    for t in range(ngt):
        if t in used: struct.pack_into("<Q", gd, t*8, 0x1000000000000000|order[t])
    f.put(gd_off*S, bytes(gd))
    exp={}
    for t in used:
        tb=bytearray(gt_sectors*S)
        for g,v in grains.items():
            if g//gte!=t: continue
            if v=='z': e=0x2000000000000000
            elif v=='f': e=0x1000000000000000
            else:
                c=v+cluster_base
                e=0x3000000000000000|((c&0xfff)<<48)|(c>>12)
                f.put_pattern((grains_off+c*grain_size)*S, grain_size*S, 7, g*grain_size*S)
            struct.pack_into("<Q", tb, (g%gte)*8, e)
        f.put((gt_off+order[t]*gt_sectors)*S, bytes(tb))
    f.finalize()
    return f, capacity*S
from sparsefile import pattern
f,size=build_se({0:3,1:'z',2:5000,3:'f',4095:1, 4096:2, 4097:(1<<33)+7}, gt_order=[1,0])
v=VMDK(f); print("size", v.size==size, v.disks[0].is_sesparse)
G=8*512
def exp(g,kind): return pattern(7,g*G,G) if kind=='d' else b"\0"*G
for g,k in [(0,'d'),(1,'z'),(2,'d'),(3,'z'),(4,'z'),(4095,'d'),(4096,'d'),(4097,'d')]:
    v.seek(g*G); got=v.read(G); print(g,k,got==exp(g,k))
v.seek(4095*G); got=v.read(3*G); print("span", got==exp(4095,'d')+exp(4096,'d')+exp(4097,'d'))
