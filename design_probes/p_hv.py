from dissect.hypervisor.descriptor.hyperv import HyperVFile
import sys
for fn in ["/repo/tests/data/test.VMRS","/repo/tests/data/test.vmcx"]:
    hf=HyperVFile(open(fn,"rb"))
    print(fn, hf.header, hf.headers[1].sequence_number)
    print(" replay", hf.replay_logs[0].header)
    ot=hf.object_tables[0]
    print(" objtable n=",ot.header.num_entries)
    for e in ot.entries[:12]: print("   ",e.type, hex(e.offset), hex(e.size), e.allocated)
    for idx,tabs in hf.key_tables.items():
        for t in tabs:
            print(" keytable idx",idx,"seq",t.sequence_number,"off",hex(t.offset),"size",hex(t.size),"entries",len(t.entries))
            for e in t.entries[:6]:
                print("     off",e.offset,"type",e.type,"flags",e.flags,"size",e.size,"ptab",e.header.parent_table_idx,"poff",e.header.parent_offset,"ins",e.header.insertion_sequence,"doff",e.header.data_offset,"key",repr(e.key), bytes(e.raw[e.header.data_offset:][:24]).hex())
    print(len(hf.file_objects))
