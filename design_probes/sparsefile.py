import io, bisect
class SparseFile(io.RawIOBase):
    """read-only virtual file: explicit byte extents + generated pattern extents, zeros elsewhere"""
    def __init__(self, size=0):
        self.ext = []  # (off, len, kind, payload)
        self.size = size
        self.pos = 0
        self.bytes_read = 0
        self.calls = []
    def put(self, off, data):
        self.ext.append((off, len(data), 0, bytes(data))); self.size = max(self.size, off+len(data))
    def put_pattern(self, off, length, tag, base):
        self.ext.append((off, length, 1, (tag, base))); self.size = max(self.size, off+length)
    def finalize(self):
        self.ext.sort(key=lambda e:e[0]); self.starts=[e[0] for e in self.ext]
    def readable(self): return True
    def seekable(self): return True
    def tell(self): return self.pos
    def seek(self, pos, whence=0):
        if whence==0: self.pos=pos
        elif whence==1: self.pos+=pos
        else: self.pos=self.size+pos
        if self.pos<0: raise OSError("neg")
        return self.pos
    def read(self, n=-1):
        if n is None or n<0: n = max(0,self.size-self.pos)
        n = max(0,min(n, self.size-self.pos))
        out = bytearray(n)
        start=self.pos; end=start+n
        i = bisect.bisect_right(self.starts, start)-1
        if i<0:i=0
        while i < len(self.ext) and self.ext[i][0] < end:
            off,ln,kind,pl = self.ext[i]
            a=max(off,start); b=min(off+ln,end)
            if a<b:
                if kind==0: out[a-start:b-start]=pl[a-off:b-off]
                else:
                    tag,base=pl
                    out[a-start:b-start]=pattern(tag, base+(a-off), b-a)
            i+=1
        self.pos=end; self.bytes_read+=n; self.calls.append((start,n))
        return bytes(out)
import struct
def pattern(tag, goff, n):
    # 8-byte words: tag(2) + word index(6); any shift/misplacement visible
    w0 = goff//8; w1=(goff+n+7)//8
    b = b"".join(struct.pack(">HHI", tag, (w>>32)&0xffff, w&0xffffffff) for w in range(w0,w1))
    s = goff-w0*8
    return b[s:s+n]
