import warnings; warnings.simplefilter("ignore")
from dissect.hypervisor.disk.vhdx import _iter_partial_runs
from dissect.hypervisor.disk.vmdk import DiskDescriptor
from dissect.hypervisor.disk.hdd import Snapshots
from defusedxml import ElementTree as ET
def ref(bitmap, start, length):
    bits=[(bitmap[(start+i)//8]>>((start+i)%8))&1 for i in range(length)]
    out=[]
    for b in bits:
        if out and out[-1][0]==b: out[-1][1]+=1
        else: out.append([b,1])
    return [tuple(x) for x in out]
bad=0;tot=0;first=None
import itertools
for start in range(8):
    for length in range(1,17):
        nbytes=(start+length+7)//8
        for bm in itertools.product([0x00,0xff,0x0f,0xf0,0x55,0x01,0x80], repeat=nbytes):
            tot+=1
            try: got=list(_iter_partial_runs(bytes(bm),start,length))
            except Exception as e: got=repr(e)
            if got!=ref(bytes(bm),start,length):
                bad+=1
                if first is None: first=(bytes(bm).hex(),start,length,got,ref(bytes(bm),start,length))
print("partial_runs", tot,bad,first)
d=DiskDescriptor.parse('# Disk DescriptorFile\nversion=1\nCID=fffffffe\nparentCID=ffffffff\ncreateType="seSparse"\nRW 4096 SESPARSE "a-sesparse.vmdk"\nRW 4096 VMFSSPARSE "b-delta.vmdk"\nRW 10 VMFS "c-flat.vmdk"\nRW 10 ZERO\n')
print([ (e.type,e.filename) for e in d.extents], d.sectors)
x=ET.fromstring("<Snapshots><TopGUID>{11111111-2222-3333-4444-555555555555}</TopGUID><Shot><GUID>{11111111-2222-3333-4444-555555555555}</GUID><ParentGUID>{00000000-0000-0000-0000-000000000000}</ParentGUID></Shot></Snapshots>")
s=Snapshots.from_xml(x); print(type(s.top_guid), s.top_guid)
