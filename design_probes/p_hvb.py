import struct, io
from dissect.hypervisor.descriptor.hyperv import HyperVFile
T_FREE,T_INT,T_UINT,T_DBL,T_STR,T_ARR,T_BOOL,T_NODE=1,3,4,5,6,7,8,9
def header(seq, replay_off): return struct.pack("<IIHIQIQQI", 0x01282014, 0, seq, 0x400, 0, 0x1000, replay_off, 0x1000, 0x1000)
def replay(): return struct.pack("<IIIBIIIIIB", 0x01110003,0,0,0,0x91,0,0,0,0,0)
def objtable(entries, n=32):
    b=struct.pack("<II", 0x01110001, n)
    for (t,off,size,alloc) in entries: b+=struct.pack("<BIQIB", t,0,off,size,alloc)
    b+=b"\0"*(18*(n-len(entries)))
    return b
def enc_value(t, v):
    if t==T_NODE: return struct.pack("<QI", 0, len(v))
    if t==T_INT: return struct.pack("<q", v)
    if t==T_UINT: return struct.pack("<Q", v)
    if t==T_DBL: return struct.pack("<d", v)
    if t==T_BOOL: return struct.pack("<I", 1 if v else 0)
    if t==T_STR: b=v.encode("utf-16-le"); return struct.pack("<I",len(b))+b
    if t==T_ARR: return struct.pack("<I",len(v))+v
def build(tree, ntables=1, fileobj_threshold=0x800, seqs=(7,6)):
    """tree: dict key -> (type, value) ; Node value = dict"""
    entries=[]  # (table_idx, key, type, valuebytes, parent_ref, flags)
    fileobjs=[] # (offset,size,data)
    next_fo=[0x10000]
    def walk(d, parent, depth):
        for i,(k,(t,v)) in enumerate(d.items()):
            flags=0
            if t in (T_STR,T_ARR):
                raw=enc_value(t,v)
                if len(raw)-4>=fileobj_threshold:
                    data=raw[4:]; off=next_fo[0]; asz=(len(data)+0xfff)&~0xfff; next_fo[0]+=asz
                    fileobjs.append((off,asz,data)); raw=struct.pack("<IQ", len(data), off); flags=1
            else: raw=enc_value(t,v)
            e={"key":k,"type":t,"raw":raw,"parent":parent,"flags":flags,"table":(len(entries)%ntables)+1,"ins":i+1}
            entries.append(e)
            if t==T_NODE: walk(v,e,depth+1)
    walk(tree,None,0)
    # layout per table
    tabs={i+1:bytearray(struct.pack("<HHHI",2,i+1,1,0)) for i in range(ntables)}
    # two passes: first compute offsets
    offs={}
    cur={i:10 for i in tabs}
    for e in entries:
        kb=e["key"].encode("utf-8")+b"\0"
        size=21+len(kb)+len(e["raw"])+ (4 if e["type"]!=T_NODE else 0)  # slack
        e["size"]=size; e["off"]=cur[e["table"]]; cur[e["table"]]+=size
    for e in entries:
        kb=e["key"].encode("utf-8")+b"\0"
        p=e["parent"]
        hdr=struct.pack("<HIHIIIB", e["type"]|(e["flags"]<<8), e["size"], p["table"] if p else 0, p["off"] if p else 0, 0, e["ins"], len(kb))
        body=(hdr+kb+e["raw"]).ljust(e["size"],b"\0")
        t=tabs[e["table"]]; assert len(t)==e["off"]; t+=body
    img=bytearray(0x10000)
    img[0:len(header(0,0))]=header(seqs[0],0x8000); img[0x1000:0x1000+46]=header(seqs[1],0x8000)
    img[0x8000:0x8000+len(replay())]=replay()
    oe=[]
    for i in sorted(tabs):
        off=0x3000+0x1000*(i-1); img[off:off+len(tabs[i])]=tabs[i]; oe.append((2,off,0x1000,1))
    for off,asz,data in fileobjs:
        if len(img)<off+asz: img.extend(b"\0"*(off+asz-len(img)))
        img[off:off+len(data)]=data; oe.append((3,off,asz,1))
    ot=objtable(oe); img[0x2000:0x2000+len(ot)]=ot
    return bytes(img)
def plain(d): return {k:(plain(v) if t==T_NODE else v) for k,(t,v) in d.items()}
tree={"configuration":(T_NODE,{"properties":(T_NODE,{"version":(T_INT,2304),"u":(T_UINT,2**64-1),"neg":(T_INT,-5),"d":(T_DBL,1.5),"b":(T_BOOL,True),"s":(T_STR,"héllo 🦊"),"empty":(T_STR,""),"a":(T_ARR,b"\x01\x02\x03"),"big":(T_STR,"x"*0x400),"bigarr":(T_ARR,bytes(range(256))*9)}),"other":(T_NODE,{"k":(T_BOOL,False)})})}
for nt in (1,2,3):
    img=build(tree,ntables=nt)
    hf=HyperVFile(io.BytesIO(img))
    got=hf.as_dict()
    print(nt, got==plain(tree), len(hf.key_tables), len(hf.file_objects))
    if got!=plain(tree):
        import pprint; pprint.pprint(got)
