import base64, hashlib, hmac, os, copy
from urllib.parse import quote
from Crypto.Cipher import AES
from dissect.hypervisor.descriptor.vmx import VMX
KS={"AES-256":32,"AES-192":24,"AES-128":16}; HM={"HMAC-SHA-1":("sha1",20),"HMAC-SHA-1-128":("sha1",16),"HMAC-SHA-256":("sha256",32)}; KDF={"PBKDF2-HMAC-SHA-1":"sha1","PBKDF2-HMAC-SHA-256":"sha256"}
q=lambda s: quote(s, safe="")
def enc_hmac(key, plain, mac, iv):
    pad=16-len(plain)%16; ct=AES.new(key,AES.MODE_CBC,iv=iv).encrypt(plain+bytes([pad])*pad)
    d,n=HM[mac]; return iv+ct+hmac.digest(key,plain,d)[:n]
def build(config, phrase, cipher="AES-256", mac="HMAC-SHA-1", kdf="PBKDF2-HMAC-SHA-1", rounds=1, salt=b"s"*16, datacipher="AES-256", extra_pairs_before=0):
    wk=hashlib.pbkdf2_hmac(KDF[kdf], phrase.encode(), salt, rounds, KS[cipher])
    dk=os.urandom(KS[datacipher])
    cd=f"type=key:cipher={q(datacipher)}:key={q(base64.b64encode(dk).decode())}"
    pairdata=enc_hmac(wk, cd.encode(), mac, os.urandom(16))
    pdict=f"pass2key={q(kdf)}:cipher={q(cipher)}:rounds={rounds}:salt={q(base64.b64encode(salt).decode())}"
    def pair(pd): return f"pair/(phrase/{q('id1')}/{q(pdict)},{q(mac)},{q(base64.b64encode(pd).decode())})"
    pairs=[pair(os.urandom(len(pairdata))) for _ in range(extra_pairs_before)]+[pair(pairdata)]
    ks="vmware:key/list/("+",".join(pairs)+")"
    data=base64.b64encode(enc_hmac(dk, config.encode(), mac, os.urandom(16))).decode()
    return f'.encoding = "UTF-8"\ndisplayName = "x"\nencryption.keySafe = "{ks}"\nencryption.data = "{data}"\n'
cfg='scsi0:0.fileName = "a.vmdk"\nmemsize = "512"\n'
for c in KS:
  for m in HM:
    for k in KDF:
        t=build(cfg,"pässword",c,m,k,rounds=2,datacipher=c, extra_pairs_before=1)
        v=VMX.parse(t); before=dict(v.attr)
        try: v.unlock_with_phrase("pässword")
        except Exception as e: print(c,m,k,"POSITIVE FAILS",type(e).__name__,e); continue
        ok= v.attr.get("scsi0:0.filename")=="a.vmdk" and v.attr.get("memsize")=="512"
        v2=VMX.parse(t)
        try: v2.unlock_with_phrase("wrong"); neg="UNLOCKED"
        except Exception as e: neg=type(e).__name__
        print(c,m,k,ok,neg, v2.attr==before)
# short-plaintext IV tamper
t=build('a = "b"',"p")
v=VMX.parse(t); raw=bytearray(base64.b64decode(v.attr["encryption.data"])); raw[3]^=0x40
v.attr["encryption.data"]=base64.b64encode(bytes(raw)).decode()
try: v.unlock_with_phrase("p"); print("short IV tamper: UNLOCKED", v.attr.get("a"))
except Exception as e: print("short IV tamper raises", type(e).__name__)
t=build('a = "b"',"p")
v=VMX.parse(t); raw=bytearray(base64.b64decode(v.attr["encryption.data"])); raw[10]^=0x40
v.attr["encryption.data"]=base64.b64encode(bytes(raw)).decode()
try: v.unlock_with_phrase("p"); print("short IV tamper@pad: UNLOCKED", v.attr.get("a"))
except Exception as e: print("short IV tamper@pad raises", type(e).__name__)
