#!/bin/sh
# Re-run every probe (each under a timeout); scratch directories are removed afterwards.
cd "$(dirname "$0")" || exit 1
for d in vscratch vscratch2 vs3/vm.pvm/d.hdd vs4/child vs4/base; do mkdir -p /dev/shm/$d; done
for s in p_*.py; do
  echo "=== $s"
  case $s in
    p_qcow2.py) for w in ext-all ext-bm ext-one; do timeout 60 /venv/bin/python $s $w 2>&1 | tail -6; done ;;
    p_c08.py) timeout 120 /venv/bin/python $s 2 2>&1 | tail -4 ;;
    *) timeout 300 /venv/bin/python $s 2>&1 | tail -12 ;;
  esac
done
rm -rf /dev/shm/vscratch /dev/shm/vscratch2 /dev/shm/vs3 /dev/shm/vs4 /dev/shm/verif_probe_canary.txt
