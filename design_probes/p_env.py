from dissect.hypervisor.util.envelope import Envelope, _pack_envelope_header, KeyStore
fh=open("/repo/tests/data/local.tgz.ve","rb")
ev=Envelope(fh)
print(ev.attributes)
fh.seek(0); stored=fh.read(4096)
re=_pack_envelope_header(ev)
print(stored==re, len(re))
import itertools
diff=[i for i in range(4096) if stored[i]!=re[i]]
print(diff[:20])
print(stored[500:520].hex(), stored[512:700])
fh.seek(-4096,2); foot=fh.read(4096); print(foot[:64], foot[-16:].hex())
ks=KeyStore.from_text(open("/repo/tests/data/encryption.info").read())
d=ev.decrypt(ks.key, aad=b"ESXConfiguration"); print(len(d), ev.size)
# look at decrypted tail
from Crypto.Cipher import AES
c=AES.new(ks.key, AES.MODE_GCM, nonce=ev.iv); c.update(stored); c.update(b"ESXConfiguration")
fh.seek(4096); ct=fh.read(ev.size); pt=c.decrypt(ct)
print(len(pt), pt[-4096:-4096+32], pt[-512:-512+40], pt[-8:].hex(), set(pt[len(d):-4096]))
print(set(pt[-4096:-512]), )
