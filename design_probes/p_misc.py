import resource, signal, sys, io, struct
resource.setrlimit(resource.RLIMIT_AS, (2<<30, 2<<30)); signal.alarm(20)
src=open("p_qcow.py").read()
exec(src.split('chk("std",')[0])
# (a) v2 header, backing file name right after the 72-byte header
cl=[N,U,U,N]
img,exp=build(cl, cluster_bits=12, version=2)
img=bytearray(img); name=b"base.img"
struct.pack_into(">QI", img, 8, 72, len(name)); img[72:72+len(name)]=name
bk=bytes([0xEE])*len(exp); e=bytearray(exp)
for i,c in enumerate(cl):
    if c is U: e[i*4096:(i+1)*4096]=bk[i*4096:(i+1)*4096]
chk("v2-backing@72", bytes(img), bytes(e), backing_file=io.BytesIO(bk))
# v2 with nonzero garbage at 72..112 (e.g. L1 table right after header? no, just junk)
img2=bytearray(build(cl, cluster_bits=12, version=2)[0]); img2[72:112]=b"\xff"*40
chk("v2-junk@72", bytes(img2), exp)
