import struct, uuid, io
from sparsefile import SparseFile, pattern
from dissect.hypervisor.disk.vhdx import VHDX
MB=1<<20
G=lambda s: uuid.UUID(s).bytes_le
BAT=G("2DC27766-F623-4200-9D64-115E9BFD4A08"); META=G("8B7CA206-4790-4B9A-B8FE-575F050F886E")
FP=G("CAA16737-FA36-4D43-B3B6-33F0AA44E76B"); VDS=G("2FA54224-CD1B-4876-B211-5DBED83BF4B8"); VID=G("BECA12AB-B2E6-4523-93EF-C309E000C746")
LSS=G("8141BF1D-A96F-4709-BA47-F233A8FAAB5F"); PSS=G("CDA348C7-445D-4471-9CC9-E9885251C556")
def build(blocks, block_size=MB, sector=512, size=None):
    """blocks: list of (state, phys_mb)"""
    f=SparseFile()
    f.put(0, b"vhdxfile"+"me".encode("utf-16-le"))
    def hdr(seq): return struct.pack("<4sIQ16s16s16sHHIQ", b"head",0,seq,b"\1"*16,b"\2"*16,b"\0"*16,0,1,MB,MB)
    f.put(64*1024, hdr(7)); f.put(128*1024, hdr(6))
    n=len(blocks); size=size or n*block_size
    chunk_ratio=(2**23*sector)//block_size
    nbat = n + (n-1)//chunk_ratio
    rt = struct.pack("<4sII4s", b"regi",0,2,b"")+struct.pack("<16sQII", BAT, 3*MB, MB, 1)+struct.pack("<16sQII", META, 2*MB, MB, 1)
    f.put(192*1024, rt); f.put(256*1024, rt)
    items=[(FP, struct.pack("<II", block_size, 0)), (VDS, struct.pack("<Q", size)), (VID, b"\x11"*16), (LSS, struct.pack("<I", sector)), (PSS, struct.pack("<I", 4096))]
    mt = struct.pack("<8s2sH20s", b"metadata", b"", len(items), b"")
    off=64*1024; body=b""
    for g,d in items:
        mt += struct.pack("<16sIII", g, off+len(body), len(d), 4|2 if g!=FP else 4); 
        mt += b"\0"*4
        body+=d
    f.put(2*MB, mt); f.put(2*MB+64*1024, body)
    bat=bytearray()
    exp=[]
    bi=0
    for i,(st,mb) in enumerate(blocks):
        if i and i%chunk_ratio==0: bat+=struct.pack("<Q",0)
        bat+=struct.pack("<Q", st | (mb<<20))
        if st==6:
            f.put_pattern(mb*MB, block_size, 1, i*block_size); exp.append((i,True))
        else: exp.append((i,False))
    f.put(3*MB, bytes(bat))
    f.finalize()
    def oracle(off,n):
        out=bytearray()
        while n>0:
            b=off//block_size; k=min(n, (b+1)*block_size-off)
            out+= pattern(1,off,k) if blocks[b][0]==6 else b"\0"*k
            off+=k;n-=k
        return bytes(out)
    return f, oracle, size
f,orc,size=build([(6,10),(6,8),(0,0),(6,9)])
v=VHDX(f)
print(v.size==size)
for off,n in [(0,8192),(MB-8192,8192),(MB-8192,16384),(MB,MB),(0,2*MB),(2*MB-512,1024), (3*MB-8192, 16384)]:
    v.seek(off); g=v.read(n); print(off,n,g==orc(off,n), f.bytes_read)
print(v.read_sectors(2047,2)==orc(2047*512,1024))
