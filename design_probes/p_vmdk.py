import struct, io, zlib
from dissect.hypervisor.disk.vmdk import VMDK
S=512
def build_kdmv(grains, grain_size=8, ngte=4, capacity=None, compressed=False, footer=False):
    """grains: list of None(unalloc)/'z'/int order key for physical placement"""
    n=len(grains); capacity=capacity or n*grain_size
    ngt=(n+ngte-1)//ngte
    gd_sector=1; gd_sectors=(ngt*4+S-1)//S
    gt_start=gd_sector+gd_sectors; gt_sectors=(ngte*4+S-1)//S
    data_start=gt_start+ngt*gt_sectors
    data_start=(data_start+grain_size-1)//grain_size*grain_size
    order=sorted([(g,i) for i,g in enumerate(grains) if isinstance(g,int)])
    phys={}
    body=bytearray()
    cur=data_start
    exp=bytearray(capacity*S)
    for _,i in order:
        c=bytes([i+1])*(grain_size*S)
        exp[i*grain_size*S:(i+1)*grain_size*S]=c[:max(0,min(len(c),capacity*S-i*grain_size*S))]
        phys[i]=cur
        if compressed:
            z=zlib.compress(c); rec=struct.pack("<QI", i*grain_size, len(z))+z
            rec=rec.ljust((len(rec)+S-1)//S*S,b"\0"); body+=rec; cur+=len(rec)//S
        else:
            body+=c; cur+=grain_size
    gts=[]
    for t in range(ngt):
        ents=[]
        for j in range(ngte):
            i=t*ngte+j
            g=grains[i] if i<n else None
            ents.append(0 if g is None else 1 if g=='z' else phys[i])
        gts.append(struct.pack("<%dI"%ngte,*ents).ljust(gt_sectors*S,b"\0"))
    gd=struct.pack("<%dI"%ngt,*[gt_start+t*gt_sectors for t in range(ngt)]).ljust(gd_sectors*S,b"\0")
    flags=1|(0x30000 if compressed else 0)
    def hdr(gdoff): return struct.pack("<4sIIQQQQIQQQB4sH433s", b"KDMV",3 if compressed else 1,flags,capacity,grain_size,0,0,ngte,0,gdoff,data_start,0,b"\n \r\n",1 if compressed else 0,b"")
    assert len(hdr(1))==512
    img=bytearray(hdr(0xFFFFFFFFFFFFFFFF if footer else gd_sector))
    img+=gd; 
    for g in gts: img+=g
    img=img.ljust(data_start*S,b"\0")
    img+=body
    if footer:
        img+=b"\0"*S  # footer marker
        img+=hdr(gd_sector)
        img+=b"\0"*S  # EOS
    return bytes(img), bytes(exp)
def chk(name, img, exp, **kw):
    try:
        v=VMDK(io.BytesIO(img)); g=v.read(); print(name, v.size==len(exp), g==exp)
    except Exception as e: print(name,"EXC",repr(e))
chk("plain16", *build_kdmv([0,1,None,'z'], grain_size=4))          # 16 sectors = 8192
chk("perm", *build_kdmv([3,1,None,'z',0,2,None,5], grain_size=4))
chk("tail", *build_kdmv([0,1,None,'z',2], grain_size=4))  # 20 sectors: not multiple of 16
chk("tailcap", *build_kdmv([0,1,None,'z',2], grain_size=4, capacity=18))
chk("comp", *build_kdmv([1,0,None,'z'], grain_size=4, compressed=True))
chk("footer", *build_kdmv([1,0,None,'z'], grain_size=4, compressed=True, footer=True))
chk("footerbig", *build_kdmv([0]+[None]*(16*200-1), grain_size=16, ngte=16, compressed=True, footer=True))
chk("nofooterbig", *build_kdmv([0]+[None]*(16*200-1), grain_size=16, ngte=16, compressed=True, footer=False))
