import struct, uuid, os, sys
from pathlib import Path
from dissect.hypervisor.disk.vhdx import VHDX
MB=1<<20
G=lambda s: uuid.UUID(s).bytes_le
BAT=G("2DC27766-F623-4200-9D64-115E9BFD4A08"); META=G("8B7CA206-4790-4B9A-B8FE-575F050F886E")
FP=G("CAA16737-FA36-4D43-B3B6-33F0AA44E76B"); VDS=G("2FA54224-CD1B-4876-B211-5DBED83BF4B8"); VID=G("BECA12AB-B2E6-4523-93EF-C309E000C746")
LSS=G("8141BF1D-A96F-4709-BA47-F233A8FAAB5F"); PSS=G("CDA348C7-445D-4471-9CC9-E9885251C556"); PL=G("A8D35F2D-B30B-454D-ABF7-D3D84834AB0C")
PLT=G("B04AEFB7-D19E-4A81-B789-25B8E9445913")
def sector_payload(layer, s): return (struct.pack(">HQ", layer, s)+bytes([(layer*37+s)&0xff])*502)
def write_vhdx(path, layer, nblocks, blocks, bitmaps=None, parent_rel=None, block_size=MB, sector=512):
    """blocks: list of state; bitmaps: {block: set(of present sectors)}"""
    spb=block_size//sector
    cr=(2**23*sector)//block_size
    has_parent=parent_rel is not None
    with open(path,"wb") as f:
        def put(off,b): f.seek(off); f.write(b)
        put(0,b"vhdxfile")
        hdr=lambda seq: struct.pack("<4sIQ16s16s16sHHIQ", b"head",0,seq,b"\1"*16,b"\2"*16,b"\0"*16,0,1,MB,MB)
        put(64*1024,hdr(3)); put(128*1024,hdr(2))
        rt=struct.pack("<4sII4s", b"regi",0,2,b"")+struct.pack("<16sQII", BAT, 3*MB, MB, 1)+struct.pack("<16sQII", META, 2*MB, MB, 1)
        put(192*1024,rt); put(256*1024,rt)
        items=[(FP, struct.pack("<II", block_size, 2 if has_parent else 0)), (VDS, struct.pack("<Q", nblocks*block_size)), (VID, bytes([layer])*16), (LSS, struct.pack("<I", sector)), (PSS, struct.pack("<I", 4096))]
        if has_parent:
            kv=[("parent_linkage","{%s}"%uuid.UUID(int=1)),("relative_path",parent_rel),("absolute_win32_path","C:\\nonexistent\\x.vhdx")]
            ent=b"";strs=b""; base=20+12*len(kv)
            for k,v in kv:
                kb=k.encode("utf-16-le"); vb=v.encode("utf-16-le")
                ent+=struct.pack("<IIHH", base+len(strs), base+len(strs)+len(kb), len(kb), len(vb)); strs+=kb+vb
            items.append((PL, struct.pack("<16sHH", PLT,0,len(kv))+ent+strs))
        mt=struct.pack("<8s2sH20s", b"metadata", b"", len(items), b""); body=b""
        for g,d in items:
            mt+=struct.pack("<16sIII", g, 64*1024+len(body), len(d), 4)+b"\0"*4; body+=d
        put(2*MB,mt); put(2*MB+64*1024,body)
        nsb=(nblocks+cr-1)//cr
        nent = nsb*(cr+1) if has_parent else nblocks+(nblocks-1)//cr
        bat=bytearray(nent*8)
        next_mb=5
        sb_mb=4  # one sector-bitmap block at 4MB
        sbdata=bytearray(MB)
        for i,st in enumerate(blocks):
            idx=i+i//cr
            mb=0
            if st in (6,7):
                mb=next_mb; next_mb+=block_size//MB
                data=bytearray(b"\xAA"*block_size)
                for s in range(spb): data[s*sector:(s+1)*sector]=sector_payload(layer,i*spb+s).ljust(sector,b"\x55")[:sector]
                put(mb*MB,bytes(data))
            if st==7:
                for s in bitmaps.get(i,()):
                    a=(i%cr)*spb+s; sbdata[a//8]|=1<<(a%8)
            struct.pack_into("<Q",bat,idx*8, st|(mb<<20))
        if has_parent:
            struct.pack_into("<Q",bat,cr*8, 6|(sb_mb<<20)); put(sb_mb*MB,bytes(sbdata))
        put(3*MB,bytes(bat))
        f.truncate(max(f.seek(0,2),(next_mb)*MB))
d=Path("/dev/shm/vscratch")
spb=2048
write_vhdx(d/"base.vhdx",1,2,[6,6])
write_vhdx(d/"mid.avhdx",2,2,[7,0],{0:{5,6,7,8,9,12}},parent_rel=".\\base.vhdx")
write_vhdx(d/"top.avhdx",3,2,[7,6],{0:{6,10,11}},parent_rel=".\\mid.avhdx")
v=VHDX(d/"top.avhdx")
def expect(s):
    if s>=spb: return sector_payload(3,s)
    if s in {6,10,11}: return sector_payload(3,s)
    if s in {5,6,7,8,9,12}: return sector_payload(2,s)
    return sector_payload(1,s)
bad=[]
for s in range(0,20):
    for c in range(1,20-s):
        try: g=v.read_sectors(s,c)
        except Exception as e: g=repr(e)
        e=b"".join(expect(x) for x in range(s,s+c))
        if g!=e: bad.append((s,c, len(g) if isinstance(g,bytes) else g))
print("read_sectors bad", len(bad), bad[:8])
v.seek(0); g=v.read(16*512); print("byte read 0..16", g==b"".join(expect(x) for x in range(16)))
os.rename(d/"mid.avhdx", d/"gone.avhdx")
try: VHDX(d/"top.avhdx"); print("opened without parent!")
except Exception as e: print("missing parent ->", type(e).__name__)
