import io, sys
open("/dev/shm/verif_probe_canary.txt","w").write("canary")
from dissect.hypervisor.descriptor.pvs import PVS
ev=[]
sys.addaudithook(lambda e,a: ev.append((e,a[:1])) if e in ("open","socket.connect","socket.getaddrinfo","urllib.Request") else None)
body="<ParallelsVirtualMachine><Hardware><Hdd><SystemName>x.hdd</SystemName></Hdd></Hardware></ParallelsVirtualMachine>"
docs={
 "plain": body,
 "doctype-only": '<!DOCTYPE ParallelsVirtualMachine>'+body,
 "ext-dtd": '<!DOCTYPE ParallelsVirtualMachine SYSTEM "http://127.0.0.1:9/x.dtd">'+body,
 "internal-entity": '<!DOCTYPE r [<!ENTITY a "AAAA">]>'+body.replace("x.hdd","&a;"),
 "internal-unused": '<!DOCTYPE r [<!ENTITY a "AAAA">]>'+body,
 "laughs": '<!DOCTYPE r [<!ENTITY a "AAAAAAAAAA"><!ENTITY b "&a;&a;&a;&a;&a;&a;&a;&a;&a;&a;"><!ENTITY c "&b;&b;&b;&b;&b;&b;&b;&b;&b;&b;">]>'+body.replace("x.hdd","&c;"),
 "ext-general": '<!DOCTYPE r [<!ENTITY a SYSTEM "file:///dev/shm/verif_probe_canary.txt">]>'+body.replace("x.hdd","&a;"),
 "param-entity": '<!DOCTYPE r [<!ENTITY % p SYSTEM "file:///dev/shm/verif_probe_canary.txt"> %p;]>'+body,
 "param-internal": '<!DOCTYPE r [<!ENTITY % p "<!ENTITY q \'zz\'>"> %p;]>'+body,
 "notation": '<!DOCTYPE r [<!NOTATION n SYSTEM "x">]>'+body,
}
for k,d in docs.items():
    ev.clear()
    try: r=list(PVS(io.StringIO(d)).disks())
    except Exception as e: r=type(e).__name__
    print(k, r, [e for e in ev if "canary" in str(e) or e[0]!="open"])
