import struct, io
from dissect.hypervisor.disk.vhd import VHD
def footer(size, data_offset, disk_type, short=False):
    f=struct.pack(">8sIIQI4sI4sQQIII16sB", b"conectix", 2, 0x10000, data_offset, 0, b"vpc ", 0x50003, b"Wi2k", size, size, 0, disk_type, 0, b"\x07"*16, 0)
    f=f.ljust(512,b"\0")
    return f[:511] if short else f
def build_dynamic(bat, spb, size=None, short=False, extra_entries=0):
    n=len(bat); bs=spb*512; size=size or n*bs
    bm_sectors=((spb//8)+511)//512
    ft=footer(size, 512, 3)
    dh=struct.pack(">8sQQIIII16sII512s", b"cxsparse", 0xFFFFFFFFFFFFFFFF, 1536, 0x10000, n+extra_entries, bs, 0, b"\0"*16, 0,0,b"").ljust(1024,b"\0")
    batsec=((n+extra_entries)*4+511)//512
    first=3+batsec
    order=sorted((p,i) for i,p in enumerate(bat) if p is not None)
    img=bytearray(ft+dh)
    ents=[0xFFFFFFFF]*(n+extra_entries)
    body=bytearray(); exp=bytearray(size)
    slots={}
    for rank,(p,i) in enumerate(order):
        sec=first+rank*(bm_sectors+spb)
        ents[i]=sec
        c=bytes([i+1])*bs
        body+=b"\xBB"*(bm_sectors*512)+c
        seg=c[:max(0,min(bs,size-i*bs))]; exp[i*bs:i*bs+len(seg)]=seg
    img+=struct.pack(">%dI"%len(ents),*ents).ljust(batsec*512,b"\xFF")
    img+=body
    img+=footer(size,512,3,short)
    return bytes(img), bytes(exp)
def chk(name,img,exp):
    try:
        v=VHD(io.BytesIO(img)); g=v.read(); print(name, v.size==len(exp), g==exp, len(g))
    except Exception as e: print(name,"EXC",repr(e))
chk("dyn spb16", *build_dynamic([1,0,None,2],16))
chk("dyn spb8192", *build_dynamic([1,0,None,2],8192))
chk("dyn spb16 511", *build_dynamic([1,0,None,2],16,short=True))
chk("dyn spb8 tail", *build_dynamic([1,0,None,2,3],8,size=4*4096+1024))
chk("dyn spb8 tail2", *build_dynamic([1,0,None,2,3],8))   # 5*4096=20480 not multiple of 8192
data=bytes(range(256))*64
chk("fixed", data+footer(len(data),0xFFFFFFFFFFFFFFFF,2), data)
chk("fixed511", data+footer(len(data),0xFFFFFFFFFFFFFFFF,2,short=True), data)
d2=data[:-512*3]
chk("fixed-unaligned", d2+footer(len(d2),0xFFFFFFFFFFFFFFFF,2), d2)
