import io, struct, itertools, time, os, sys
A=int(os.environ.get("DISSECT_STREAM_BUFFER_SIZE","8192"))
exec(open("p_hds.py").read().split("# cluster 16")[0].replace("def build","def build_hds"))
from dissect.hypervisor.disk.hdd import HDS
img1,exp1=build_hds([4,0,5,2,0,6,7],16)   # 7 clusters of 8 KiB, no coincidence: slot k at k*8192; sparse runs: cluster1 after... 
img2,exp2=build_hds([6,5,0,0,4,7,0],16)
def fix(exp): return exp[:len(exp)-512*3]
# size not multiple of A: patch size in header to n*16-3 sectors
def shrink(img,exp):
    b=bytearray(img); n=struct.unpack_from("<Q",b,36)[0]; struct.pack_into("<Q",b,36,n-3); return bytes(b), exp[:(n-3)*512]
img1,exp1=shrink(img1,exp1); img2,exp2=shrink(img2,exp2)
S=len(exp1)
P=[0,1,A-1,A,A+1,S-A-1,S-1,S,S+1]
ops=[("seek",p,0) for p in P]+[("seek",d,1) for d in (-1,1,-A,A)]+[("seek",d,2) for d in (0,-1,-(A+1),1)]+[("read",n) for n in (0,1,A,A+1,-1,S+5)]+[("readinto",n) for n in (1,A+1)]+[("peek",n) for n in (1,A+1)]+[("readoffset",p,n) for p,n in ((0,1),(A-1,2),(S-1,5),(A,A))]
ops=[(i,)+o for i in (0,1) for o in ops]
print("alphabet",len(ops))
class Model:
    def __init__(s,data): s.d=data; s.pos=0
    def apply(s,op):
        k=op[0]; S=len(s.d)
        if k=="seek":
            p,w=op[1],op[2]
            if w==0: np=p
            elif w==1: np=max(0,s.pos+p)
            else: np=max(0,S+p)
            s.pos=np; return np
        if k in("read","readinto","peek"):
            n=op[1]; 
            if n==-1: n=max(0,S-s.pos)
            r=s.d[s.pos:s.pos+n] if s.pos<S else b""
            if k!="peek": s.pos+=len(r)
            return r if k!="readinto" else (len(r),r)
        if k=="readoffset":
            s.pos=op[1]; r=s.d[s.pos:s.pos+op[2]]; s.pos+=len(r); return r
def impl(o,op):
    k=op[0]
    if k=="seek": return o.seek(op[1],op[2])
    if k=="read": return o.read(op[1])
    if k=="peek": return o.peek(op[1])
    if k=="readinto":
        b=bytearray(op[1]); n=o.readinto(b); return (n,bytes(b[:n]))
    if k=="readoffset": return o.readoffset(op[1],op[2])
D=int(sys.argv[1]) if len(sys.argv)>1 else 3
t=time.time(); nseq=0; ntr=0; bad=[]
for seq in itertools.product(ops, repeat=D):
    objs=[HDS(io.BytesIO(img1)),HDS(io.BytesIO(img2))]; ms=[Model(exp1),Model(exp2)]
    nseq+=1
    for op in seq:
        i=op[0]; ntr+=1
        try: g=impl(objs[i],op[1:])
        except Exception as e: g=repr(e)
        e=ms[i].apply(op[1:])
        if g!=e or objs[i].tell()!=ms[i].pos:
            bad.append((seq,op)); break
    if len(bad)>3: break
print("depth",D,"seqs",nseq,"transitions",ntr,"bad",len(bad),"%.1fs"%(time.time()-t))
for b in bad[:2]: print(b)
