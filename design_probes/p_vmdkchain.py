import struct, io, os
from pathlib import Path
exec(open("p_vmdk.py").read().split("def chk")[0])
from dissect.hypervisor.disk.vmdk import VMDK
root=Path("/dev/shm/vs4")
def desc(cid,pcid,extfile,sectors,hint=None,typ="SPARSE"):
    s=f'# Disk DescriptorFile\nversion=1\nCID={cid}\nparentCID={pcid}\ncreateType="monolithicSparse"\n'
    if hint: s+=f'parentFileNameHint="{hint}"\n'
    s+=f'\n# Extent description\nRW {sectors} {typ} "{extfile}"\n\nddb.adapterType = "ide"\n'
    return s
G=8
def mk(dirp,name,tag,grains,pcid="ffffffff",hint=None):
    img,exp=build_kdmv(grains,grain_size=G,ngte=512)
    # retag contents: build_kdmv uses bytes([i+1]); make layer-distinct by xor
    img=bytearray(img)
    (dirp/f"{name}-s001.vmdk").write_bytes(bytes(img))
    (dirp/f"{name}.vmdk").write_text(desc("12345678",pcid,f"{name}-s001.vmdk",len(grains)*G,hint))
mk(root/"base","base",1,[0,1,2,None])
mk(root/"child","mid",2,[None,0,'z',None],pcid="12345678",hint="../base/base.vmdk")
mk(root/"child","top",3,[0,None,None,None],pcid="12345678",hint="mid.vmdk")
v=VMDK(root/"child"/"top.vmdk")
gs=G*512
got=v.read(4*gs)
print([set(got[i*gs:(i+1)*gs]) for i in range(4)], "expect g0 from top {1}, g1 from mid {2}, g2 zero(mid z), g3 hole->base hole -> 0")
# absolute hint with backslashes to sibling dir
(root/"child"/"top.vmdk").write_text(desc("1","2","top-s001.vmdk",4*G,"C:\\vms\\child\\mid.vmdk"))
print("backslash hint same dir:", VMDK(root/"child"/"top.vmdk").parent is not None)
(root/"child"/"mid.vmdk").write_text(desc("1","2","mid-s001.vmdk",4*G,"/old/place/base/base.vmdk"))
try: v=VMDK(root/"child"/"top.vmdk"); print("sibling dir hint:", v.parent.parent is not None)
except Exception as e: print("sibling EXC", e)
os.remove(root/"base"/"base.vmdk")
try: VMDK(root/"child"/"top.vmdk"); print("opened without base!")
except Exception as e: print("missing ->", type(e).__name__)
