import struct, io, tarfile, gzip
from dissect.hypervisor.util import vmtar
def hdr(name, size, typ=b"0", visor=True, offset_data=0, text=0, fix=0, mode=0o644):
    b=bytearray(512)
    nb=name.encode(); b[0:len(nb)]=nb
    b[100:108]=b"%07o\0"%mode; b[108:116]=b"%07o\0"%0; b[116:124]=b"%07o\0"%0
    b[124:136]=b"%011o\0"%size; b[136:148]=b"%011o\0"%0
    b[156:157]=typ
    if visor:
        b[257:265]=b"visor  \0"
        struct.pack_into("<I",b,496,offset_data); struct.pack_into("<II",b,504,text,fix)
    else:
        b[257:263]=b"ustar\0"; b[263:265]=b"00"
    b[148:156]=b" "*8
    chk=sum(b); b[148:156]=b"%06o\0 "%chk
    return bytes(b)
def build(members, align=4096, data_order=None, gz=False):
    """members: (name, kind, data) kind in visor|dir|ustar|vempty"""
    nh=sum(1 for m in members)  # headers
    inline=sum((len(d)+511)//512*512 for n,k,d in members if k=="ustar")
    head_area=nh*512+inline+1024
    start=(head_area+align-1)//align*align
    order=data_order or [i for i,m in enumerate(members) if m[1]=="visor"]
    offs={}; cur=start; data_area=bytearray()
    for i in order:
        offs[i]=cur; d=members[i][2]; data_area+=d; pad=(-len(data_area))%align; data_area+=b"\xEE"*pad; cur=start+len(data_area)
    out=bytearray()
    for i,(n,k,d) in enumerate(members):
        if k=="visor": out+=hdr(n,len(d),offset_data=offs[i])
        elif k=="vempty": out+=hdr(n,0)
        elif k=="dir": out+=hdr(n,0,typ=b"5",mode=0o755)
        elif k=="ustar": out+=hdr(n,len(d),visor=False); out+=d.ljust((len(d)+511)//512*512,b"\0")
    out+=b"\0"*1024
    out=out.ljust(start,b"\0")+data_area
    return gzip.compress(bytes(out)) if gz else bytes(out)
mem=[("d/",'dir',b""),("d/a",'visor',b"A"*513),("d/e",'vempty',b""),("d/u",'ustar',b"U"*700),("d/b",'visor',b"B"*1),("d/c",'visor',b"C"*4097)]
for order in ([1,4,5],[5,4,1],[4,5,1]):
    for gz in (False,True):
        img=build(mem,data_order=order,gz=gz,align=512 if order[0]==4 else 4096)
        t=vmtar.open(fileobj=io.BytesIO(img))
        ms=t.getmembers()
        ok=[m.name for m in ms]==[n.rstrip("/") for n,_,_ in mem]
        cont=all((t.extractfile(m).read() if m.isreg() else b"")==d for m,(n,k,d) in zip(ms,mem))
        print(order,gz,ok,cont,[m.name for m in ms] if not ok else "")
