import resource, signal
resource.setrlimit(resource.RLIMIT_AS, (2<<30, 2<<30)); signal.alarm(60)  # extended-L2 images loop and exhaust memory on the unrepaired tree
import struct, io, zlib
from dissect.hypervisor.disk import qcow2
from dissect.hypervisor.disk.qcow2 import QCow2
def build(clusters, cluster_bits=9, version=3, extl2=False, size=None, backing=None):
    """clusters: list of dict(kind='u'|'z'|'n'|'c'|'za', bitmap=(alloc,zero) for extl2)"""
    cs=1<<cluster_bits; n=len(clusters); size=size or n*cs
    esz=16 if extl2 else 8
    l2n=cs//esz
    nl2=(n+l2n-1)//l2n
    l1_clusters=(nl2*8+cs-1)//cs
    # layout: cluster0 header, then l1, then l2 tables, then data
    hdr_clusters=max(1,(4096+cs-1)//cs) if False else 1
    l1_off=cs*hdr_clusters
    l2_off=l1_off+l1_clusters*cs
    data_off=l2_off+nl2*cs
    img=bytearray(data_off)
    exp=bytearray(size)
    l2=[bytearray(cs) for _ in range(nl2)]
    cur=data_off
    for i,c in enumerate(clusters):
        k=c['kind']; t,j=divmod(i,l2n)
        ent=0; bm=0
        content=bytes([(i%250)+1])*cs
        if k=='n' or k=='za':
            ent=cur|(1<<63); img+=content; 
            if k=='za': ent|=1
            if extl2:
                a,z=c.get('bm',(0xffffffff,0)); bm=a|(z<<32)
                ent&=~1
                for s in range(32):
                    ss=cs//32
                    if a>>s&1: exp[i*cs+s*ss:i*cs+(s+1)*ss]=content[s*ss:(s+1)*ss]
            elif k=='n': exp[i*cs:(i+1)*cs]=content
            cur+=cs
        elif k=='z':
            ent=1 if not extl2 else 0
            if extl2: bm=(c.get('bm',(0,0xffffffff))[1])<<32
        elif k=='c':
            co=zlib.compressobj(wbits=-12); z=co.compress(content)+co.flush()
            nsec=(( (cur&511)+len(z)+511)//512)
            x=62-(cluster_bits-8)
            ent=(1<<62)|cur|((nsec-1)<<x)
            img+=z; cur+=len(z)
            # pad to keep following clusters aligned
            pad=(-len(img))%cs; img+=b"\0"*pad; cur+=pad
            exp[i*cs:(i+1)*cs]=content
        if extl2: struct.pack_into(">QQ", l2[t], j*16, ent, bm)
        else: struct.pack_into(">Q", l2[t], j*8, ent)
    for t in range(nl2):
        img[l2_off+t*cs:l2_off+(t+1)*cs]=l2[t]
        struct.pack_into(">Q", img, l1_off+t*8, (l2_off+t*cs)|(1<<63))
    incompat=(1<<4) if extl2 else 0
    bf_off=0;bf_len=0
    h=struct.pack(">IIQIIQIIQQIIQQQQIIB7s", 0x514649fb, version, 0,0, cluster_bits, size, 0, nl2, l1_off, 0,0, 0,0, incompat,0,0, 4, 112, 0, b"")
    if version==2: h=h[:72]
    if backing:
        name=b"base.img"; bf_off=200; 
        h=bytearray(h); struct.pack_into(">QI", h, 8, bf_off, len(name)); img[bf_off:bf_off+len(name)]=name
    img[:len(h)]=h
    return bytes(img), bytes(exp[:size])
def chk(name,img,exp,**kw):
    try:
        q=QCow2(io.BytesIO(img),**kw); g=q.read(); print(name, q.size==len(exp), g==exp, len(g))
        return q,g
    except Exception as e:
        import traceback; print(name,"EXC",repr(e))
N={'kind':'n'};U={'kind':'u'};Z={'kind':'z'};C={'kind':'c'};ZA={'kind':'za'}
chk("std", *build([N,U,Z,N,N,ZA,U,N]*2))
chk("std12", *build([N,U,Z,N,N,ZA,U,N]*16, cluster_bits=12))
chk("v2", *build([N,U,Z,N,N,U,N,N]*2, version=2))
chk("comp", *build([N,C,Z,C,N,U,N,N]*2, cluster_bits=12))
chk("multi-l2", *build([N,U,Z,N,N,ZA,U,N]*20))  # 160 clusters, l2n=64 -> 3 L2 tables
chk("ext-all", *build([N,U,N,N]*4, cluster_bits=14, extl2=True))
chk("ext-bm", *build([{'kind':'n','bm':(0x0000ffff,0)},U,{'kind':'n','bm':(0xff00ff00,0x00ff0000)},N], cluster_bits=14, extl2=True))
# short backing
img,exp=build([N,U,U,U,U,U,U,N]*2, cluster_bits=12, backing=True)
bk=bytes([0xEE])*(3*4096+100)
e=bytearray(exp)
for i,c in enumerate(([N,U,U,U,U,U,U,N]*2)):
    if c is U:
        seg=bk[i*4096:(i+1)*4096]; e[i*4096:i*4096+len(seg)]=seg
chk("backing-short", img, bytes(e), backing_file=io.BytesIO(bk))
chk("backing-full", *(lambda: (img, bytes(bytearray(b if c is not U else 0xEE for c in ([N,U,U,U,U,U,U,N]*2) for b in [0]*0) ) ))() ) if False else None
bk2=bytes([0xEE])*len(exp)
e2=bytearray(exp)
for i,c in enumerate(([N,U,U,U,U,U,U,N]*2)):
    if c is U: e2[i*4096:(i+1)*4096]=bk2[i*4096:(i+1)*4096]
chk("backing-full", img, bytes(e2), backing_file=io.BytesIO(bk2))
chk("size-unaligned", *build([N,U,Z,N,N], cluster_bits=12, size=4*4096+700))
