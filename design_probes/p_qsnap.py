import resource, signal, sys, io, struct
resource.setrlimit(resource.RLIMIT_AS, (2<<30, 2<<30)); signal.alarm(20)
src=open("p_qcow.py").read()
exec(src.split('chk("std",')[0])
N={'kind':'n'};U={'kind':'u'}
img,exp=build([N,U,N,N], cluster_bits=12)
img=bytearray(img)
# extensions after header (112): backing format "qcow2"(5), feature table (48 bytes), data-file name, unknown, END
def ext(magic,data): return struct.pack(">II",magic,len(data))+data+b"\0"*((-len(data))%8)
exts=ext(0xe2792aca,b"qcow2")+ext(0x6803f857,bytes(range(48)))+ext(0x12345678,b"xyz")+ext(0x44415441,"dätä.raw".encode())+ext(0,b"")
img[112:112+len(exts)]=exts
# snapshots table at end
def snap(l1off,l1n,idstr,name,extra=b"\0"*16, pad=True):
    b=struct.pack(">QIHHIIQII", l1off,l1n,len(idstr),len(name),1,2,3,0,len(extra))+extra+idstr+name
    if pad: b+=b"\0"*((-len(b))%8)
    return b
tbl=snap(4096,1,b"1",b"first")+snap(4096,1,b"22",b"second snap", extra=b"\0"*24)+snap(4096,1,b"3",b"third")
off=len(img); img+=tbl; img+=b"\0"*((-len(img))%4096)
struct.pack_into(">IQ", img, 60, 3, off)
q=QCow2(io.BytesIO(bytes(img)))
print("backing_format", q.backing_format, "feature", q.feature_table==bytes(range(48)), "datafile", q.image_data_file, "unknown", [(e.magic,d) for e,d in q.unknown_extensions])
try:
    print([(s.id_str,s.name,s.header.l1_size) for s in q.snapshots])
except Exception as e: print("snapshots EXC", repr(e))
s0=q.snapshots[0].open() if False else None
