import struct, io, os, warnings
warnings.simplefilter("ignore")
from pathlib import Path
from dissect.hypervisor.disk.hdd import HDD
exec(open("p_hds.py").read().split("# cluster 16")[0].replace("def build","def build_hds"))
root=Path("/dev/shm/vs3/vm.pvm/d.hdd")
CS=16  # sectors
def layer_img(tag, alloc):  # alloc: list bool per cluster
    bat=[]; slot=1
    for a in alloc:
        bat.append(slot if a else 0); slot+= 1 if a else 0
    # avoid the coincidence defect: put first slot far away
    bat=[(b+10 if b else 0) for b in bat]
    n=len(bat); cs=CS*512
    hdr=struct.pack("<16sIIIIIQIIIQ", b"WithouFreSpacExt",2,16,100,CS,n,n*CS,0,0,0,0)
    buf=bytearray(hdr+struct.pack("<%dI"%n,*bat))
    for i,e in enumerate(bat):
        if e:
            off=e*cs
            if len(buf)<off+cs: buf.extend(b"\xEE"*(off+cs-len(buf)))
            buf[off:off+cs]=bytes([tag*16+i])*cs
    return bytes(buf)
G=["{5fbaabe3-6958-40ff-92a7-860e329aab41}","{11111111-1111-1111-1111-111111111111}","{22222222-2222-2222-2222-222222222222}"]
Z="{00000000-0000-0000-0000-000000000000}"
layers=[(1,[1,1,0,1]),(2,[0,1,0,0]),(3,[1,0,0,0])]   # base, mid, top ; top guid is G[0]
order=[G[1],G[2],G[0]]  # base guid, mid guid, top guid
files=[]
for (tag,alloc),g in zip(layers,order):
    fn=f"d.hdd.0.{g}.hds"; (root/fn).write_bytes(layer_img(tag,alloc)); files.append(fn)
imgs="".join(f"<Image><GUID>{g}</GUID><Type>Compressed</Type><File>{fn}</File></Image>" for g,fn in zip(order,files))
shots=f"<Shot><GUID>{order[0]}</GUID><ParentGUID>{Z}</ParentGUID></Shot><Shot><GUID>{order[1]}</GUID><ParentGUID>{order[0]}</ParentGUID></Shot><Shot><GUID>{order[2]}</GUID><ParentGUID>{order[1]}</ParentGUID></Shot>"
xml=f"<?xml version='1.0' encoding='UTF-8'?><Parallels_disk_image Version='1.0'><Disk_Parameters><Disk_size>{4*CS}</Disk_size></Disk_Parameters><StorageData><Storage><Start>0</Start><End>{4*CS}</End><Blocksize>{CS}</Blocksize>{imgs}</Storage></StorageData><Snapshots><TopGUID>{order[2]}</TopGUID>{shots}</Snapshots></Parallels_disk_image>"
(root/"DiskDescriptor.xml").write_text(xml); (root/"d.hdd").write_bytes(b"")
h=HDD(root)
cs=CS*512
def fold(depth):
    out=[]
    for i in range(4):
        v=0
        for tag,alloc in layers[:depth]:
            if alloc[i]: v=tag*16+i
        out.append(bytes([v])*cs)
    return b"".join(out)
for depth,g in ((3,None),(3,order[2]),(2,order[1]),(1,order[0])):
    s=h.open(g) if g else h.open()
    got=s.read(); print("depth",depth,"guid",g, got==fold(depth), len(got), [set(got[i*cs:(i+1)*cs]) for i in range(4)])
