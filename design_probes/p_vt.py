import gzip, struct
d=open("/repo/tests/data/test.vgz","rb").read()
print(len(d))
off=0
while off < len(d):
    b=d[off:off+512]
    if b==b"\0"*512: print("zero block at",off); off+=512; 
    else:
        if not b[257:262]==b"visor": print(off,"data area starts:",b[:8]); break
        name=b[:100].rstrip(b"\0"); size=int(b[124:136].rstrip(b"\0 ") or b"0",8); typ=b[156:157]; magic=b[257:265]
        if magic.startswith(b"visor"):
            print(off, name, size, typ, magic, struct.unpack("<IIII", b[496:512]), b[345:500].rstrip(b"\0")[:40])
            off+=512
        else:
            print(off, "non-header", b[:16]); break
    if off>8192: break
print(d[8192-64:8192+16])
