import struct, io, sys, warnings
warnings.simplefilter("ignore")
from sparsefile import SparseFile, pattern
exec(open("p_se.py").read().split("from sparsefile import pattern")[0].split("S=512")[1].replace("def build_se","S=512\ndef build_se",1)) if False else None
src=open("p_se.py").read()
exec("S=512\n"+src[src.index("def build_se"):src.index("from sparsefile import pattern")])
from dissect.hypervisor.disk.vmdk import VMDK
# SE-sparse 64TiB capacity, one grain at far end
cap=64*(1<<40)//512
g_last=cap//8-1
f,size=build_se({0:1, g_last:(1<<33)+5}, capacity=cap)
meta=sum(e[1] for e in f.ext if e[2]==0)
f.bytes_read=0
v=VMDK(f); o=f.bytes_read
v.seek(size-4096); got=v.read(4096); print("sesparse 64TiB: meta",meta,"open",o,"read",f.bytes_read-o, got==pattern(7,g_last*4096,4096), "maxreq", max(n for _,n in f.calls))
# VHDX
exec(open("p_vhdx.py").read().split("f,orc,size=build(")[0])
MBs=1<<20
n=4098
blocks=[(0,0)]*n; blocks[0]=(6,10); blocks[4097]=(6,(1<<24)+3)   # 16 TiB file offset
f,orc,size=build(blocks)
meta=sum(e[1] for e in f.ext if e[2]==0)
f.bytes_read=0; v=VHDX(f); o=f.bytes_read
v.seek(4097*MBs+512); got=v.read(8192); print("vhdx 4GiB+: meta",meta,"open",o,"read",f.bytes_read-o, got==orc(4097*MBs+512,8192))
