import io, struct
from dissect.hypervisor.disk.hdd import HDS
def build(bat, cluster_sectors, v2=True, first_block_sectors=None, nclusters=None):
    n=len(bat)
    sig = b"WithouFreSpacExt" if v2 else b"WithoutFreeSpace"
    size_sectors = n*cluster_sectors
    hdr = struct.pack("<16sIIIIIQIIIQ", sig, 2, 16, 100, cluster_sectors, n, size_sectors, 0, first_block_sectors or 0, 0, 0)
    assert len(hdr)==64
    buf = bytearray(hdr + struct.pack("<%dI"%n, *bat))
    cs = cluster_sectors*512
    exp = bytearray(n*cs)
    for i,e in enumerate(bat):
        if e:
            off = e*cs if v2 else e*512
            if len(buf) < off+cs: buf.extend(b"\0"*(off+cs-len(buf)))
            c = bytes([i+1])*cs
            buf[off:off+cs]=c
            exp[i*cs:(i+1)*cs]=c
    return bytes(buf), bytes(exp)
# cluster 16 sectors = 8192; cluster0 sparse, cluster1 at file offset 8192 (=1 cluster)
img, exp = build([0,1,2,0], 16)
h = HDS(io.BytesIO(img)); got = h.read(); print("v2", got==exp, [set(got[i*8192:(i+1)*8192]) for i in range(4)])
img, exp = build([0,16,32,0], 16, v2=False)
h = HDS(io.BytesIO(img)); got = h.read(); print("v1", got==exp, [set(got[i*8192:(i+1)*8192]) for i in range(4)])
img, exp = build([3,0,1,2], 16)
h = HDS(io.BytesIO(img)); got = h.read(); print("v2b", got==exp, [set(got[i*8192:(i+1)*8192]) for i in range(4)])
