import sys, io, struct, time, resource, signal, tracemalloc, warnings
warnings.simplefilter("ignore")
resource.setrlimit(resource.RLIMIT_AS, (3<<30, 3<<30))
class Budget(BaseException): pass
mon=sys.monitoring; TOOL=mon.PROFILER_ID; mon.use_tool_id(TOOL,"budget")
cnt=[0]; LIMIT=[10**12]
def tick():
    cnt[0]+=1
    if cnt[0]>LIMIT[0]:
        LIMIT[0]=10**12
        raise Budget()
def on_jump(code, src, dst):
    if "dissect/hypervisor" not in code.co_filename: return mon.DISABLE
    if dst<src: tick()
def on_start(code, off):
    if "dissect/hypervisor" not in code.co_filename: return mon.DISABLE
    tick()
mon.register_callback(TOOL, mon.events.JUMP, on_jump)
mon.register_callback(TOOL, mon.events.PY_START, on_start)
mon.set_events(TOOL, mon.events.JUMP|mon.events.PY_START)
def run(fn, limit):
    cnt[0]=0; LIMIT[0]=limit; mon.restart_events()
    tracemalloc.start(); 
    try:
        try: r=("ok", fn())
        except Budget: r=("BUDGET",None)
        except MemoryError: r=("MEMORY",None)
        except Exception as e: r=("exc:"+type(e).__name__, None)
    finally:
        LIMIT[0]=10**12
        peak=tracemalloc.get_traced_memory()[1]; tracemalloc.stop()
    return r[0], cnt[0], peak
# seeds
exec(open("p_vdi.py").read().split("img, exp = build([1,0,-1,2])")[0].replace("def build","def build_vdi"))
exec(open("p_hds.py").read().split("# cluster 16")[0].replace("def build","def build_hds"))
exec(open("p_vmdk.py").read().split("def chk")[0])
src=open("p_qcow.py").read(); exec(src.split("def chk")[0].replace("def build","def build_qcow"))
from dissect.hypervisor.disk.vdi import VDI
from dissect.hypervisor.disk.hdd import HDS
from dissect.hypervisor.disk.vmdk import VMDK
from dissect.hypervisor.disk.qcow2 import QCow2
N={'kind':'n'};U={'kind':'u'};Z={'kind':'z'};C={'kind':'c'}
seeds={
 "vdi": (build_vdi([1,0,-1,2],bs=4096)[0], VDI, [(64,4,"<"),(68,4,"<"),(72,4,"<"),(76,4,"<"),(340,4,"<"),(344,4,"<"),(360,4,"<"),(368,8,"<"),(376,4,"<"),(384,4,"<"),(388,4,"<")]+[(512+4*i,4,"<") for i in range(4)]),
 "hds": (build_hds([3,0,1,2],16)[0], HDS, [(16+4*i,4,"<") for i in range(5)]+[(36,8,"<"),(44,4,"<"),(48,4,"<"),(52,4,"<"),(56,8,"<")]+[(64+4*i,4,"<") for i in range(4)]),
 "kdmv": (build_kdmv([3,1,None,'z',0,2,None,5], grain_size=8, ngte=4)[0], VMDK, [(4,4,"<"),(8,4,"<"),(12,8,"<"),(20,8,"<"),(28,8,"<"),(36,8,"<"),(44,4,"<"),(48,8,"<"),(56,8,"<"),(64,8,"<"),(512,4,"<"),(516,4,"<"),(1024,4,"<"),(1028,4,"<")]),
 "qcow": (build_qcow([N,C,Z,C,N,U,N,N]*2, cluster_bits=12)[0], QCow2, [(4,4,">"),(8,8,">"),(16,4,">"),(20,4,">"),(24,8,">"),(32,4,">"),(36,4,">"),(40,8,">"),(60,4,">"),(64,8,">"),(72,8,">"),(96,4,">"),(100,4,">"),(104,1,">"),(4096,8,">"),(8192,8,">"),(8200,8,">"),(8208,8,">")]),
}
def driver(cls, data):
    def f():
        o=cls(io.BytesIO(data))
        out=[]
        S=o.size
        for off in (0, 4096, max(0,min(S,1<<40)-1)):
            o.seek(off); out.append(len(o.read(8192)))
        return out
    return f
for name,(img,cls,fields) in seeds.items():
    base=run(driver(cls,img), 10**7); print(name,"baseline",base, "len",len(img))
    res={}
    t=time.time(); n=0
    for off,w,en in fields:
        cur=int.from_bytes(img[off:off+w], "little" if en=="<" else "big")
        mx=(1<<(8*w))-1
        for val in sorted({v&mx for v in (0,1,2,mx,mx-1,cur+1,cur-1,cur*2, off, 512, mx>>1, (mx>>1)+1, 4096, 8192)}):
            m=bytearray(img); m[off:off+w]=val.to_bytes(w,"little" if en=="<" else "big")
            r=run(driver(cls,bytes(m)), 200000); n+=1
            key=r[0]
            res.setdefault(key,[]).append((off,val,r[1],r[2]))
    print("  faults",n,"time %.1fs"%(time.time()-t), {k:len(v) for k,v in res.items()})
    for k in ("BUDGET","MEMORY"):
        for x in res.get(k,[])[:6]: print("   ",k,x)
    big=[x for v in res.values() for x in v if x[3]>32<<20]
    print("   peak>32MiB:",big[:5], "max steps(non-budget):", max(x[2] for k,v in res.items() if k!="BUDGET" for x in v))
    # truncations
    tr={}
    for cut in list(range(0,min(len(img),1024),8))+list(range(1024,len(img),512)):
        r=run(driver(cls,img[:cut]),200000); tr[r[0]]=tr.get(r[0],0)+1
    print("  trunc", tr)
