#!/usr/bin/env python3
"""Evaluate one seeded mutation:  tools/eval_seed.py <src dir with patch.diff/demo.py/meta.json> <seed id> <check ids...>

Confirms in a scratch worktree (outside /repo and /verif, removed afterwards) that (a) the patch applies, (b) the
repository's own tests still pass with it, (c) the demonstration fails with it and passes without it; then runs the named
quick checks against the patched tree (VERIF_REPO) and records which of them report a VIOLATION.  Keeps the mutation
under /verif/seeded/<seed id>/ only when (a)-(c) hold.
"""
import json
import os
import shutil
import subprocess
import sys
import time

VERIF = os.path.dirname(os.path.dirname(os.path.abspath(__file__)))
PY = "/venv/bin/python"


def sh(cmd, cwd=None, env=None, timeout=3600):
    e = dict(os.environ)
    e.update(env or {})
    p = subprocess.run(cmd, shell=True, cwd=cwd, env=e, capture_output=True, text=True, timeout=timeout)
    return p.returncode, p.stdout + p.stderr


def main():
    src, sid = sys.argv[1], sys.argv[2]
    checks = sys.argv[3:]
    wt = f"/tmp/evalwt_{sid}_{os.getpid()}"
    res = {"seed": sid, "source": src, "checks": {}}
    rc, out = sh(f"git -C /repo worktree add -q --detach {wt} HEAD")
    assert rc == 0, out
    try:
        rc, out = sh(f"git apply {os.path.abspath(src)}/patch.diff", cwd=wt)
        if rc:  # written against an earlier HEAD (before a later fix: commit touched the same lines): three-way merge
            rc, out = sh(f"git apply -3 {os.path.abspath(src)}/patch.diff && git reset -q", cwd=wt)
            res["applied_three_way"] = rc == 0
        res["applies"] = rc == 0
        if rc:
            res["apply_output"] = out[-500:]
            print(json.dumps(res, indent=1))
            return 1
        rc, out = sh(f"{PY} -m pytest -q -p no:cacheprovider -x", cwd=wt, timeout=900)
        res["tests_pass_with_mutation"] = rc == 0
        res["tests_tail"] = out.strip().splitlines()[-1] if out.strip() else ""
        rc, out = sh(f"{PY} {os.path.abspath(src)}/demo.py", cwd=wt, env={"PYTHONPATH": wt}, timeout=900)
        res["demo_fails_with_mutation"] = rc != 0
        res["demo_with_tail"] = out.strip().splitlines()[-1][:300] if out.strip() else ""
        rc, out = sh(f"{PY} {os.path.abspath(src)}/demo.py", cwd="/repo", env={"PYTHONPATH": "/repo"}, timeout=900)
        res["demo_passes_without"] = rc == 0
        if rc:
            res["demo_without_tail"] = out.strip().splitlines()[-1][:300] if out.strip() else ""
        ok = res["tests_pass_with_mutation"] and res["demo_fails_with_mutation"] and res["demo_passes_without"]
        res["confirmed"] = ok
        for c in checks:
            t = time.time()
            rc, out = sh(f"./check {c} --tier quick", cwd=VERIF, env={"VERIF_REPO": wt, "VERIF_EVIDENCE_DIR": wt + "_evidence"}, timeout=3600)
            viol = [l for l in out.splitlines() if l.startswith("VIOLATION")]
            res["checks"][c] = {"exit": rc, "violations": len(viol), "first": (viol[0] if viol else ""),
                                "detail": next((l.strip()[:400] for l in out.splitlines() if l.strip().startswith("witness=")), ""),
                                "wall_s": round(time.time() - t, 1), "tail": out.strip().splitlines()[-1][:300]}
        # restore the evidence files of the checks we ran against the patched tree
        res["caught_by"] = [c for c, r in res["checks"].items() if r["exit"] == 1 and r["violations"]]
        if ok:
            dst = os.path.join(VERIF, "seeded", sid)
            os.makedirs(dst, exist_ok=True)
            shutil.copy(os.path.join(src, "patch.diff"), dst)
            shutil.copy(os.path.join(src, "demo.py"), dst)
            meta = {}
            try:
                meta = json.load(open(os.path.join(src, "meta.json")))
            except Exception:
                pass
            meta["evaluation"] = res
            meta["what_was_run"] = ("scratch worktree of /repo HEAD + git apply patch.diff; repository tests; demo with and "
                                    "without the patch; ./check <id> --tier quick with VERIF_REPO=<worktree>; worktree removed")
            json.dump(meta, open(os.path.join(dst, "meta.json"), "w"), indent=1)
    finally:
        sh(f"git -C /repo worktree remove --force {wt}")
        shutil.rmtree(wt, ignore_errors=True)
        shutil.rmtree(wt + "_evidence", ignore_errors=True)
    print(json.dumps(res, indent=1))
    return 0


if __name__ == "__main__":
    sys.exit(main())
