#!/bin/bash
src=$1; mod=$2; sel=$3; n=${4:-2}
wt=/tmp/shwt_$$
git -C /repo worktree add -q --detach $wt ${BASE:-HEAD} || exit 2
( cd $wt && (git apply $src/patch.diff 2>/dev/null || (git apply -3 $src/patch.diff >/dev/null 2>&1 && git reset -q)) ) || { echo "patch does not apply"; git -C /repo worktree remove --force $wt; exit 2; }
( cd /verif && VERIF_REPO=$wt /venv/bin/python /verif/tools/shardrun.py $mod "$sel" $n 2>&1 | tail -6 )
git -C /repo worktree remove --force $wt; rm -rf $wt
