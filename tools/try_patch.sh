#!/bin/bash
# try.sh <seed dir> <checks...>: quick checks of the working /verif against a worktree with the patch applied (3-way)
src=$1; shift
wt=/tmp/trywt_$$
git -C /repo worktree add -q --detach $wt ${BASE:-HEAD} || exit 2
( cd $wt && (git apply $src/patch.diff 2>/dev/null || (git apply -3 $src/patch.diff && git reset -q)) ) || { echo "patch does not apply"; git -C /repo worktree remove --force $wt; exit 2; }
for c in "$@"; do
  ( cd /verif && VERIF_REPO=$wt VERIF_EVIDENCE_DIR=/tmp/tryev_$$ ./check $c --tier quick 2>&1 | grep -E "^VIOLATION|witness=|tier=|HARNESS" | cut -c1-330 | head -7 )
done
git -C /repo worktree remove --force $wt; rm -rf $wt /tmp/tryev_$$
