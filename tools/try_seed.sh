#!/bin/bash
# tools/try_seed.sh <dir with patch.diff> <check id> [more check ids]: run quick checks against a scratch worktree with the patch applied
src=$1; shift
wt=/tmp/trywt_$$
git -C /repo worktree add -q --detach $wt HEAD || exit 2
( cd $wt && git apply $src/patch.diff ) || { echo "patch does not apply"; git -C /repo worktree remove --force $wt; exit 2; }
for c in "$@"; do
  ( cd /verif && VERIF_REPO=$wt VERIF_EVIDENCE_DIR=/tmp/tryev_$$ ./check $c --tier quick 2>&1 | grep -E "^VIOLATION|witness=|tier=" | cut -c1-300 | head -7 )
done
git -C /repo worktree remove --force $wt; rm -rf $wt /tmp/tryev_$$
