import sys,os,json
sys.path.insert(0,'/verif')
from mc import engine
repo=os.environ['VERIF_REPO']
mod=sys.argv[1]; sel=json.loads(sys.argv[2])
import importlib
m=importlib.import_module("mc.checks."+mod)
def match(s):
    def sub(a,b):
        return all((k in b and (sub(v,b[k]) if isinstance(v,dict) else b[k]==v)) for k,v in a.items())
    return sub(sel,s)
shs=[s for s in m.shards("quick") if match(s)]
engine._winit(repo, shs[0].get("buf"), engine.AS_LIMIT)
tot=0
for sh in shs[:int(sys.argv[3]) if len(sys.argv)>3 else 2]:
    ctx=engine.Ctx(m.PROPERTY, sh, 0)
    try: m.run_shard(sh, ctx)
    except engine.StopShard: pass
    print(ctx.executions, ctx.transitions, len(ctx.violations))
    for v in ctx.violations[:1]: print(json.dumps(v['witness'])[:300])
