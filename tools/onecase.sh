#!/bin/bash
# onecase.sh <seed dir> <check> '<case json>' [BASE]: run one case against a patched worktree
src=$1; chk=$2; cs=$3
wt=/tmp/onewt_$$
git -C /repo worktree add -q --detach $wt ${BASE:-HEAD} || exit 2
( cd $wt && (git apply $src/patch.diff 2>/dev/null || (git apply -3 $src/patch.diff >/dev/null 2>&1 && git reset -q)) ) || { echo "patch does not apply"; git -C /repo worktree remove --force $wt; exit 2; }
( cd /verif && VERIF_REPO=$wt /venv/bin/python tools/run_case.py $chk "$cs" | python3 -c "
import sys,json; t=sys.stdin.read()
try:
  r=json.loads(t); print(r['wall_s'], r['outcomes'], [(v['witness'], str(v['detail'])[:200]) for v in r['violations']][:3])
except Exception: print(t[-1500:])" )
git -C /repo worktree remove --force $wt; rm -rf $wt
