#!/usr/bin/env python3
"""Regenerates seeded/README.md from seeded/*/meta.json (which check caught which seeded change)."""
import glob
import json
import os

VERIF = os.path.dirname(os.path.dirname(os.path.abspath(__file__)))
rows = []
for p in sorted(glob.glob(os.path.join(VERIF, "seeded", "*", "meta.json"))):
    m = json.load(open(p))
    ev = m.get("evaluation", {})
    sid = os.path.basename(os.path.dirname(p))
    checks = ev.get("checks", {})
    ran = ", ".join(f"{c}:{'VIOLATION' if r['exit'] == 1 and r['violations'] else 'silent'}" for c, r in sorted(checks.items()))
    rows.append((sid, m.get("property", "?"), (m.get("summary") or "").replace("|", "/")[:150],
                 (m.get("needs") or "").replace("|", "/").replace("\n", " ")[:170], ", ".join(ev.get("caught_by", [])) or "-", ran))
with open(os.path.join(VERIF, "seeded", "README.md"), "w") as f:
    f.write("# Seeded property-breaking changes\n\nEach directory holds `patch.diff`, `demo.py` (fails with the patch, passes without) and `meta.json` "
            "(what it breaks, what it needs to manifest, what was run). All were confirmed by `tools/eval_seed.py` on a scratch worktree: the patch "
            "applies, the repository's 47 tests still pass with it, the demo fails with it and passes without it. `caught by` lists the quick checks "
            "that reported a VIOLATION on the patched tree.\n\n")
    f.write("| id | property | change | needs | caught by | checks run |\n|---|---|---|---|---|---|\n")
    for r in rows:
        f.write("| " + " | ".join(r) + " |\n")
    caught = sum(1 for r in rows if r[4] != "-")
    f.write(f"\n{caught} of {len(rows)} seeded changes are reported by at least one quick check.\n")
print(len(rows), "rows")
