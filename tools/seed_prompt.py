#!/usr/bin/env python3
"""tools/seed_prompt.py <wave> <property id> [n]: print the prompt handed to a fresh sub-agent for one seeded-change wave.

The sub-agent gets the text of the property (the record from properties.jsonl), a scratch worktree, and one line per change
written before for that property (what earlier sub-agents wrote -- nothing about the checks or what they detect)."""
import glob
import json
import os
import sys

VERIF = os.path.dirname(os.path.dirname(os.path.abspath(__file__)))


def main():
    wave, pid = sys.argv[1], sys.argv[2]
    n = int(sys.argv[3]) if len(sys.argv) > 3 else 2
    prop = next(json.loads(l) for l in open(os.path.join(VERIF, "properties.jsonl")) if json.loads(l)["id"] == pid)
    prior = []
    for d in sorted(glob.glob(os.path.join(VERIF, "seeded", f"w*-{pid}-*"))):
        try:
            m = json.load(open(os.path.join(d, "meta.json")))
            prior.append("- " + " ".join(str(m.get("summary", "")).split())[:260])
        except Exception:
            pass
    wt = f"/tmp/seed{wave}_{pid}"
    out = f"/tmp/seeds_store/w{wave}_{pid}"
    print(f"""You are helping to evaluate a verification harness for the Python library fox-it/dissect.hypervisor (read-only parsers for
hypervisor disk images and VM configuration files). Your job is to write {n} *seeded defects*: realistic changes to the
library that break ONE stated property while the library still imports and its own test suite still passes.

Your scratch git worktree of the library is {wt} (already created; work ONLY there, never touch /repo or /verif, and do not read
anything under /verif). Python: /venv/bin/python (the package is an editable install of another tree, so always run with
PYTHONPATH={wt} and cwd {wt}, and check `dissect.hypervisor.__file__` points into {wt}). Tests:
`cd {wt} && PYTHONPATH={wt} /venv/bin/python -m pytest -q -p no:cacheprovider` (47 tests, ~5 s). No network.

The property (its full record):

{json.dumps(prop, indent=1)}

What to produce, for i = 1..{n}, in {out}/<i>/ (create the directories):
  * patch.diff  -- `git diff` of ONE change to files under dissect/ (apply-able with `git apply` on the clean worktree);
  * demo.py     -- a self-contained program (builds its own input bytes with struct / the stdlib, no fixtures needed unless
                   from tests/data of the worktree via a path relative to the current directory) that exits 0 on the
                   unchanged library and exits non-zero (assertion) with the change. It is run as
                   `cd <tree> && PYTHONPATH=<tree> /venv/bin/python demo.py`;
  * meta.json   -- {{"property": "{pid}", "summary": "<what was changed, where>", "needs": "<what exactly is needed for the
                   wrong behaviour to show>", "tests_pass_with_mutation": true, "demo_fails_with_mutation": true,
                   "demo_passes_without": true, "commands_run": [...]}}.

Requirements for each change:
  * It must look like something a maintainer could plausibly commit: an optimisation, a refactoring, a cache, a "simplification",
    a new fast path, a robustness tweak, an off-by-one in a rewritten loop -- not sabotage, not a special case keyed on magic data.
  * The 47 tests must still pass with it (run them), and the library must import.
  * It must break the property as STATED (observable through the public API the property talks about), not merely change
    internals. A change that only makes the library refuse/raise where the property allows refusing does not count.
  * It must need something SPECIFIC to manifest -- a particular interleaving/sequence of operations, a second object alive in
    the same process, process-wide state, a fault at a particular point, an unusual but valid input (size, alignment, field
    value, offset beyond 4 GiB, table position, ordering of records), or two cooperating sites that each look fine alone --
    not something the first ordinary use would expose.
  * The {n} changes must differ from each other in site and mechanism, and must differ from everything in this list of changes
    that were already written for this property (choose other code sites, other mechanisms, other triggers):
{chr(10).join(prior) if prior else '- (none)'}

Procedure: read the code the property is anchored in (and what it builds on, e.g. dissect.util.stream.AlignedStream in
/venv/lib/python3.12/site-packages/dissect/util/stream.py -- do not modify site-packages), make change i, run the tests, write and
run demo.py with the change (must fail), save `git diff -- dissect > {out}/<i>/patch.diff`, `git checkout -- dissect`, run demo.py
again (must pass), `git apply --check` the patch. Leave the worktree clean at the end. Keep files small. While reading, if you
notice an input on which the UNCHANGED library already violates the property, describe it (with a reproducer) in
{out}/already_broken.md -- that is valuable too.

Final answer: for each change one paragraph: site, mechanism, trigger; plus anything you put in already_broken.md.""")


if __name__ == "__main__":
    main()
