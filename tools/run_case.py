#!/venv/bin/python
"""Development aid: run one case of one check in this process and print what the context collected.
   tools/run_case.py c11 '{"kind": "special", "what": "qcow2-bomb"}' [buf]"""
import importlib
import json
import os
import sys
import time

sys.path.insert(0, os.path.dirname(os.path.dirname(os.path.abspath(__file__))))
from mc import bootstrap, engine  # noqa: E402

repo = os.environ.get("VERIF_REPO", "/repo")
buf = int(sys.argv[3]) if len(sys.argv) > 3 else None
engine._winit(repo, buf, engine.AS_LIMIT)
mod = importlib.import_module("mc.checks." + sys.argv[1].lower())
ctx = engine.Ctx(mod.PROPERTY, None, 0, collect_all=True)
t = time.time()
mod.run_case(json.loads(sys.argv[2]), ctx)
print(json.dumps({"wall_s": round(time.time() - t, 2), "executions": ctx.executions, "transitions": ctx.transitions,
                  "outcomes": dict(ctx.outcomes), "maxima": ctx.maxima, "extra": dict(ctx.extra),
                  "violations": [{"witness": v["witness"], "detail": v["detail"]} for v in ctx.violations]}, indent=1, default=str)[:5000])
