#!/usr/bin/env python3
"""evalqueue.py <snapshot> <wave> <lane> <nlanes>: evaluates seeds of a wave as they appear (own-property check only)."""
import json, os, subprocess, sys, time
snap, wave, lane, nl = sys.argv[1], sys.argv[2], int(sys.argv[3]), int(sys.argv[4])
done = set()
props = [f"C{i:02d}" for i in range(1, 21)]
mine = [(p, i) for n, (p, i) in enumerate((p, i) for p in props for i in (1, 2)) if n % nl == lane]
deadline = time.time() + 3 * 3600
while len(done) < len(mine) and time.time() < deadline:
    progressed = False
    for p, i in mine:
        if (p, i) in done:
            continue
        src = f"/tmp/seeds_store/w{wave}_{p}/{i}"
        if not all(os.path.exists(os.path.join(src, f)) for f in ("patch.diff", "demo.py", "meta.json")):
            continue
        # wait until the agent has finished with the directory (meta.json older than 60 s)
        if time.time() - os.path.getmtime(os.path.join(src, "meta.json")) < 60:
            continue
        sid = f"w{wave}-{p}-{i}"
        out = f"/dev/shm/evallogs/{sid}.json"
        with open(out, "w") as f:
            subprocess.run(["/venv/bin/python", "tools/eval_seed.py", src, sid, p], cwd=snap, stdout=f, stderr=subprocess.STDOUT)
        try:
            r = json.load(open(out))
            print(sid, "confirmed" if r.get("confirmed") else "NOTCONFIRMED", "caught_by=", r.get("caught_by"),
                  {k: (v["exit"], v["wall_s"]) for k, v in r.get("checks", {}).items()}, flush=True)
        except Exception as e:
            print(sid, "ERR", e, flush=True)
        done.add((p, i))
        progressed = True
    if not progressed:
        time.sleep(20)
